#!/venv/bin/python
"""refactor_battery.py [Cnn ...] — behaviour-preserving refactorings that every check must stay silent on.

For each property, the Python files its anchors name are rewritten (in memory, as an overlay; /repo is not touched):
  rename   every local variable of every function is renamed (x -> x_rn); parameters, globals, closures untouched
  logmsg   every string literal passed to a logger / warning / exception constructor gets a suffix
  docpass  a `pass` statement is appended to every function body and docstrings are changed
The property's rules are then run on the overlay.  A finding or an analysis error that the current tree does not have
means the check matched spelling, not behaviour.  Development-time tool: reports, changes nothing."""
import ast, glob, importlib, json, os, sys
from concurrent.futures import ProcessPoolExecutor
sys.path.insert(0, "/verif")
from sa import battery
from sa.core.model import repo_root
from sa.refactors import KINDS, overlay_for, files_of  # the rewrites themselves live in sa/refactors.py (also used by the thorough tier)

ROOT = repo_root()


def main():
    props = {json.loads(l)["id"]: json.loads(l) for l in open("/verif/properties.jsonl")}
    want = sys.argv[1:] or sorted(os.path.basename(p)[:-3] for p in glob.glob("/verif/sa/rules/C*.py"))
    jobs, meta = [], []
    for pid in want:
        jobs.append((pid, f"sa.rules.{pid}", None, ROOT))
        meta.append((pid, "base"))
        fs = files_of(pid, props)
        for kind in KINDS:
            ov = overlay_for(fs, kind)
            if ov:
                jobs.append((pid, f"sa.rules.{pid}", ov, ROOT))
                meta.append((pid, kind))
    with ProcessPoolExecutor(16) as ex:
        results = list(ex.map(battery._analyse, jobs))
    base = {pid: set(r["keys"]) for (pid, k), r in zip(meta, results) if k == "base"}
    report = {}
    for (pid, kind), r in zip(meta, results):
        if kind == "base":
            continue
        new = sorted(set(r["keys"]) - base[pid])
        if new or r["error"]:
            report.setdefault(pid, {})[kind] = {"new": new[:8], "error": r["error"]}
    if not sys.argv[1:]:
        json.dump(report, open("/verif/refactor_report.json", "w"), indent=1)
    for pid in want:
        r = report.get(pid)
        if not r:
            print(pid, "silent on " + "/".join(KINDS))
            continue
        for kind, d in r.items():
            print(pid, kind, "BRITTLE:", (d["error"] or "")[:110], "|", "; ".join(k.split("|", 1)[0] + ":" + k.split("|")[-1][:40] for k in d["new"][:4]))


if __name__ == "__main__":
    main()
