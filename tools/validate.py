#!/opt/veriftools/pyvenv/bin/python
import json, glob, jsonschema, sys
ms = json.load(open('/root/.vp/MANIFEST.schema.json')); es = json.load(open('/root/.vp/EVIDENCE.schema.json'))
man = json.load(open('/verif/MANIFEST.json')); jsonschema.validate(man, ms)
bad = 0
for c in man['checks']:
    try:
        jsonschema.validate(json.load(open(c['evidence_file'])), es)
    except Exception as e:
        bad += 1; print('BAD', c['property_id'], str(e)[:200])
print('manifest ok; checks', len(man['checks']), 'bad evidence', bad)
