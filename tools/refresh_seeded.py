#!/venv/bin/python
"""Re-evaluate every /verif/seeded/*/patch.diff against the current rules (overlay analysis, nothing executed)
and record in its meta.json:
  detected / detected_by            the seed's own property check reports a new finding
  detected_by_other                 other properties' checks that report a new finding on the same change
  analysis_error_on_mutant          the own check could not decide (exit 2 on that tree), not counted as detection
`detected_at_import` (what the rules as they stood when the seed arrived said) is never touched.
Development-time tool; prints the catch matrix.  refresh_seeded.py [Cnn|Cnn-N ...] [--no-cross]"""
import glob, json, os, sys
from concurrent.futures import ProcessPoolExecutor
HERE = os.path.dirname(os.path.dirname(os.path.abspath(__file__)))
sys.path.insert(0, HERE); sys.dont_write_bytecode = True
from sa import battery
from sa.core.model import Program, repo_root

args = [a for a in sys.argv[1:] if not a.startswith("--")]
cross = "--no-cross" not in sys.argv
ROOT = repo_root()
PROPS = sorted(os.path.basename(p)[:-3] for p in glob.glob(os.path.join(HERE, "sa", "rules", "C*.py")))


def main():
    base = Program()
    seeds = []
    for d in sorted(glob.glob(os.path.join(HERE, "seeded", "C*"))):
        name = os.path.basename(d); prop = name.split("-")[0]
        if args and prop not in args and name not in args:
            continue
        if json.load(open(os.path.join(d, "meta.json"))).get("obsolete"):
            continue
        seeds.append((name, prop, d))
    jobs, meta = [], []
    for p in PROPS:
        jobs.append((p, f"sa.rules.{p}", None, ROOT)); meta.append((None, p))
    overlays = {}
    for name, prop, d in seeds:
        ov = battery._overlay_from_patch(base, os.path.join(d, "patch.diff"))
        overlays[name] = ov
        if ov is None:
            continue
        touched = set(ov)
        for p in (PROPS if cross else [prop]):
            if p != prop:
                # cheap pre-filter: a module that never names a touched file or its module path cannot change its verdict
                txt = open(os.path.join(HERE, "sa", "rules", p + ".py")).read()
                if not any(os.path.basename(t) in txt or t in txt or t[4:-3].replace("/", ".") in txt for t in touched):
                    continue
            jobs.append((p, f"sa.rules.{p}", ov, ROOT)); meta.append((name, p))
    with ProcessPoolExecutor(16) as ex:
        results = list(ex.map(battery._analyse, jobs, chunksize=2))
    basekeys = {p: set(r["keys"]) for (n, p), r in zip(meta, results) if n is None}
    per = {}
    for (n, p), r in zip(meta, results):
        if n is None:
            continue
        per.setdefault(n, {})[p] = (sorted(set(r["keys"]) - basekeys[p]), r["error"])
    rows = []
    for name, prop, d in seeds:
        mp = os.path.join(d, "meta.json"); m = json.load(open(mp))
        if overlays[name] is None:
            m["detected"] = None; m["note"] = "patch no longer applies to /repo HEAD"
            rows.append((name, "stale-patch", [], []))
        else:
            new, err = per[name].get(prop, ([], None))
            m["detected"] = bool(new); m["detected_by"] = sorted({k.split("|")[0] for k in new}); m["analysis_error_on_mutant"] = err
            others = sorted({k.split("|")[0] for p, (nw, e) in per[name].items() if p != prop for k in nw})
            m["detected_by_other"] = others
            rows.append((name, "DETECTED" if new else ("other" if others else ("error" if err else "missed")), m["detected_by"], others))
        json.dump(m, open(mp, "w"), indent=1)
    for r in rows:
        print("%-8s %-9s %-28s %s" % (r[0], r[1], ",".join(r[2]), ("also: " + ",".join(r[3])) if r[3] else ""))
    tot = len(rows)
    own = sum(1 for r in rows if r[1] == "DETECTED"); oth = sum(1 for r in rows if r[1] == "other")
    r1 = [r for r in rows if int(r[0].split("-")[1]) <= 3]; r2 = [r for r in rows if 4 <= int(r[0].split("-")[1]) <= 6]; r3 = [r for r in rows if 7 <= int(r[0].split("-")[1]) <= 9]; r4 = [r for r in rows if 10 <= int(r[0].split("-")[1]) <= 12]; r5 = [r for r in rows if 13 <= int(r[0].split("-")[1]) <= 15]; r6 = [r for r in rows if 16 <= int(r[0].split("-")[1]) <= 18]; r7 = [r for r in rows if int(r[0].split("-")[1]) >= 19]
    for lab, rs in (("round 1", r1), ("round 2", r2), ("round 3", r3), ("round 4", r4), ("round 5", r5), ("round 6", r6), ("round 7", r7)):
        if rs:
            print(f"{lab}: own check {sum(1 for r in rs if r[1]=='DETECTED')}/{len(rs)}, only another property's check {sum(1 for r in rs if r[1]=='other')}, "
                  f"undecided (analysis error) {sum(1 for r in rs if r[1]=='error')}, missed {sum(1 for r in rs if r[1]=='missed')}")
    print(f"total: own {own}/{tot}, other-only {oth}")


if __name__ == "__main__":
    main()
