#!/venv/bin/python
"""Re-evaluate every /verif/seeded/*/patch.diff against the current rules (overlay analysis, nothing executed)
and record detected / detected_by in its meta.json.  Development-time tool; prints the catch matrix."""
import glob, importlib, json, os, sys
HERE = os.path.dirname(os.path.dirname(os.path.abspath(__file__)))
sys.path.insert(0, HERE); sys.dont_write_bytecode = True
from sa.core import report
from sa.core.model import Program
from sa import battery
only = sys.argv[1:]
base = Program()
rows = []
for d in sorted(glob.glob(os.path.join(HERE, "seeded", "C*"))):
    name = os.path.basename(d); prop = name.split("-")[0]
    if only and prop not in only and name not in only: continue
    meta_p = os.path.join(d, "meta.json"); meta = json.load(open(meta_p))
    if not os.path.exists(os.path.join(HERE, "sa", "rules", prop + ".py")):
        rows.append((name, "no-rule", [])); continue
    mod = importlib.import_module("sa.rules." + prop)
    ctx0 = report.Ctx(prop, "quick", base)
    try: mod.run(ctx0)
    except Exception as e: print(name, "base run failed", e); continue
    base_keys = {f.key for f in ctx0.findings}
    ov = battery._overlay_from_patch(base, os.path.join(d, "patch.diff"))
    if ov is None:
        rows.append((name, "stale-patch", [])); meta["detected"] = None; meta["note"] = "patch no longer applies to /repo HEAD"
    else:
        ctx = report.Ctx(prop, "quick", Program(overlay=ov, base=base)); err = None
        try: mod.run(ctx)
        except report.AnalysisError as e: err = str(e)
        new = sorted({f.key for f in ctx.findings} - base_keys)
        meta["detected"] = bool(new); meta["detected_by"] = sorted({k.split("|")[0] for k in new}); meta["analysis_error_on_mutant"] = err
        rows.append((name, "DETECTED" if new else ("error:" + err[:60] if err else "missed"), meta["detected_by"]))
    json.dump(meta, open(meta_p, "w"), indent=1)
for r in rows: print("%-8s %-12s %s" % (r[0], r[1], ",".join(r[2])))
det = sum(1 for r in rows if r[1] == "DETECTED"); tot = sum(1 for r in rows if r[1] not in ("no-rule",))
print(f"detected {det}/{tot} (with rule modules); {sum(1 for r in rows if r[1]=='no-rule')} seeds wait for a rule module")
