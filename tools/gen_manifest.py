#!/venv/bin/python
"""Regenerate /verif/MANIFEST.json from the rule modules' META tables (claimed = module exists)."""
import importlib, json, os, sys
HERE = os.path.dirname(os.path.dirname(os.path.abspath(__file__)))
sys.path.insert(0, HERE)
sys.dont_write_bytecode = True
props = [json.loads(l) for l in open(os.path.join(HERE, "properties.jsonl"))]
NA = json.load(open(os.path.join(HERE, "not_applicable.json")))
checks, na = [], []
for p in props:
    pid = p["id"]
    path = os.path.join(HERE, "sa", "rules", pid + ".py")
    if os.path.exists(path) and pid not in NA:
        m = importlib.import_module("sa.rules." + pid)
        M = m.META
        checks.append({
            "property_id": pid,
            "quick_cmd": f"./check {pid} --tier quick",
            "thorough_cmd": f"./check {pid} --tier thorough",
            "evidence_file": f"/verif/evidence/{pid}.json",
            "replay_cmd_template": f"./check {pid} --replay {{path}}",
            "engine": "sa",
            "level_claimed": {
                "category": "other",
                "text": M["level"],
                "design_ref": f"DESIGN.md §3 {pid}",
            },
            "level_note": M["note"],
            "technique": M["technique"],
        })
    else:
        na.append({"property_id": pid, "reason": NA.get(pid, "static rules for this property are not built yet (planned, see DESIGN.md Appendix B); not claimed until they are")})
man = {
    "version": 1,
    "setup_cmd": "mkdir -p /verif/evidence/replay",
    "hooks": {
        "guard": "PKGCORE_VERIF",
        "enable": "none: static analysis reads /repo's source; no instrumentation is compiled into pkgcore",
        "baseline_off_cmd": "cd /repo && /venv/bin/python -m pytest -ra -q -p no:cacheprovider --timeout=900 --continue-on-collection-errors",
        "source_commits": [],
        "add_only": True,
    },
    "engines": [{
        "name": "sa",
        "path": "/verif/sa",
        "serves_properties": [c["property_id"] for c in checks],
        "kind_free_text": "repo-specific static analysis: ast program model, per-function statement CFG with dominator/path queries, literal-table evaluation, def-use/effect summaries, eq/hash field-set engine, bash lexer for the ebd sources; no execution of pkgcore",
    }],
    "checks": checks,
    "notes": "All checks are static analyses of /repo's current working tree (python ast + a purpose-built bash lexer). Exit 0 held / 1 VIOLATION / 2 ANALYSIS-ERROR. Genuine defects of the pinned tree that are recorded rather than repaired are listed in /verif/known_findings.json and printed as KNOWN-FINDING lines.",
    "not_applicable": na,
}
json.dump(man, open(os.path.join(HERE, "MANIFEST.json"), "w"), indent=1)
print(f"claimed={len(checks)} not_applicable={len(na)}")
