#!/bin/bash
# development-time: every property's quick check in parallel, evidence to a scratch dir; prints the non-clean ones
export VERIF_EVIDENCE_DIR=${VERIF_EVIDENCE_DIR:-/tmp/quick_all_ev}; mkdir -p $VERIF_EVIDENCE_DIR
cd /verif; ls sa/rules | grep -o 'C[0-9][0-9]' | sort -u | xargs -P16 -I{} sh -c './check {} --tier quick > /tmp/quick_all_ev/{}.log 2>&1; echo {} $?' | awk '$2!=0' | sort
grep -h "VIOLATION\|ANALYSIS-ERROR" /tmp/quick_all_ev/*.log | head -20
echo "quick_all done"
