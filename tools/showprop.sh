showprop () 
{ 
    python - "$1" <<'EOF'
import json,sys
for l in open('/verif/properties.jsonl'):
    d=json.loads(l)
    if d['id']==sys.argv[1]:
        print(d['title']); print(d['statement']); print('Q:',d['quantifier']['text']); print('ANCH:',json.dumps(d['anchors']['mechanism']))
EOF

    for n in 1 2 3;
    do
        python -c "import json;d=json.load(open('seeded/$1-$n/meta.json'));print('--- seed $n:',d['summary']);print('  NEEDS',d['needs_to_manifest'])"
        grep '^[-+]' seeded/$1-$n/patch.diff;
    done
}
showprop "$@"
