#!/bin/bash
# Runs the repository's pinned test suite (guard off) and compares against BASELINE.json stable_pass.
# usage: run_baseline.sh [repo_dir]
REPO=${1:-/repo}
OUT=$(mktemp /tmp/junit.XXXXXX.xml)
BT=$(mktemp -d /tmp/pytest-bt.XXXXXX)
cd "$REPO" && PYTHONPATH="$REPO/src" /venv/bin/python -m pytest -ra -q -p no:cacheprovider --timeout=900 --continue-on-collection-errors --basetemp="$BT" --junitxml="$OUT" >/dev/null 2>&1
/venv/bin/python - "$OUT" <<'PY'
import json,sys,xml.etree.ElementTree as ET
base=json.load(open('/root/.vp/BASELINE.json'))
want=set(base['stable_pass'])
got=set()
for tc in ET.parse(sys.argv[1]).getroot().iter('testcase'):
    ok=not any(c.tag in('failure','error','skipped') for c in tc)
    if ok: got.add(tc.get('classname')+'::'+tc.get('name'))
missing=sorted(want-got)
print(f"stable_pass={len(want)} passed_now={len(got)} missing={len(missing)}")
for m in missing[:40]: print("  MISSING",m)
sys.exit(1 if missing else 0)
PY
rc=$?
rm -rf "$OUT" "$BT"
exit $rc
