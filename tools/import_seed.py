#!/usr/bin/env python3
"""import_seed.py Cnn [N...] — confirm a sub-agent's variant in a scratch worktree of /repo's HEAD and store it
under /verif/seeded/Cnn-N/ (patch.diff, demo.py, meta.json).  Development-time tool."""
import json, os, shutil, subprocess, sys

def sh(cmd, cwd=None, env=None, timeout=1800):
    e = dict(os.environ); e.update(env or {})
    r = subprocess.run(cmd, shell=True, cwd=cwd, env=e, capture_output=True, text=True, timeout=timeout)
    return r.returncode, (r.stdout + r.stderr)

def main():
    pid = sys.argv[1]
    src = f"/tmp/seed/{pid}{os.environ.get('SEED_TAG', '')}/_seed"
    metas = json.load(open(src + "/meta.json"))
    if isinstance(metas, dict): metas = metas.get("variants") or [metas]
    want = [int(x) for x in sys.argv[2:]] or [m["variant"] for m in metas]
    for m in metas:
        n = m["variant"]
        if n not in want: continue
        patch, demo = f"{src}/patch{n}.diff", f"{src}/demo{n}.py"
        if not (os.path.exists(patch) and os.path.exists(demo)):
            print(pid, n, "missing files"); continue
        wt = f"/tmp/seedchk/{pid}-{n}"
        sh(f"git -C /repo worktree remove --force {wt}")
        rc, out = sh(f"git -C /repo worktree add -q --detach {wt} HEAD")
        try:
            os.makedirs(wt + "/_seed", exist_ok=True)
            shutil.copy(demo, f"{wt}/_seed/demo{n}.py")
            import glob as _g
            helpers = [h for h in _g.glob(src + "/*.py") if not os.path.basename(h).startswith("demo")]
            for h in helpers:
                shutil.copy(h, f"{wt}/_seed/")
            env = {"PYTHONPATH": wt + "/src"}
            rc_clean, o1 = sh(f"/venv/bin/python _seed/demo{n}.py", cwd=wt, env=env)
            rc, o = sh(f"git apply {patch}", cwd=wt)
            if rc != 0:
                print(f"{pid}-{n}: PATCH DOES NOT APPLY to HEAD: {o.strip()[:300]}"); continue
            rc_mut, o2 = sh(f"/venv/bin/python _seed/demo{n}.py", cwd=wt, env=env)
            rc_suite, o3 = sh(f"/verif/tools/run_baseline.sh {wt}")
            CHK = os.environ.get("VERIF_CHECK_DIR", "/verif")
            rc_chk, o4 = sh(f"{CHK}/check {pid} --tier quick", cwd=CHK, env={"VERIF_REPO": wt, "VERIF_EVIDENCE_DIR": "/tmp/seedchk/ev"})
            detected = "VIOLATION" in o4
            ok = rc_clean == 0 and rc_mut != 0 and rc_suite == 0
            print(f"{pid}-{n}: demo clean rc={rc_clean} mutated rc={rc_mut} suite rc={rc_suite} ({o3.strip().splitlines()[0] if o3.strip() else ''}) check rc={rc_chk} detected={detected} -> {'KEEP' if ok else 'REJECT'}")
            if not ok:
                if rc_clean != 0: print("   clean demo output:", o1.strip()[-300:])
                continue
            dst = f"/verif/seeded/{pid}-{n}"
            os.makedirs(dst, exist_ok=True)
            shutil.copy(patch, dst + "/patch.diff"); shutil.copy(demo, dst + "/demo.py")
            for h in helpers:
                shutil.copy(h, dst + "/")
            meta = {
                "property": pid, "variant": n, "summary": m.get("summary"), "needs_to_manifest": m.get("needs_to_manifest"),
                "files": m.get("files"), "origin": "independent sub-agent given only the property text and a scratch worktree",
                "confirmed": {"base_commit": sh("git -C /repo rev-parse --short HEAD")[1].strip(), "demo_passes_clean": True, "demo_fails_with_patch": True,
                              "suite": o3.strip().splitlines()[0] if o3.strip() else "", "commands": [f"PYTHONPATH=<wt>/src /venv/bin/python _seed/demo{n}.py (clean: rc 0, patched: rc {rc_mut})", "/verif/tools/run_baseline.sh <wt> (all 1661 stable tests pass)", f"VERIF_REPO=<wt> /verif/check {pid} --tier quick"]},
                "detected": detected,
                "detected_at_import": detected,
                "detected_by": sorted({l.split()[0] for l in o4.splitlines() if l.startswith("  " + pid + ".")}),
            }
            json.dump(meta, open(dst + "/meta.json", "w"), indent=1)
        finally:
            sh(f"git -C /repo worktree remove --force {wt}")

main()
