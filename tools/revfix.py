#!/venv/bin/python
"""revfix.py — for every "fix:" commit in /repo, re-create the pre-fix text of the touched files on top of the CURRENT tree
(reverse-apply that commit's diff), analyse the result with every rule module as an in-memory overlay, and report
which rule keys fire (keys that do not fire on the current tree).  A fix whose reversal no rule notices is unguarded.
Writes /verif/revfix_matrix.json.  Development-time tool (nothing of pkgcore is executed)."""
import glob, importlib, json, os, shutil, subprocess, sys, tempfile
from concurrent.futures import ProcessPoolExecutor
sys.path.insert(0, "/verif")
from sa import battery
from sa.core.model import Program, repo_root

ROOT = repo_root()


def reversed_overlay(commit):
    files = subprocess.run(["git", "-C", ROOT, "show", "--name-only", "--format=", commit], capture_output=True, text=True).stdout.split()
    tmp = tempfile.mkdtemp(prefix="verif-revfix-")
    try:
        out = {}
        for rel in files:
            src = os.path.join(ROOT, rel)
            if not os.path.exists(src):
                continue
            dst = os.path.join(tmp, rel)
            os.makedirs(os.path.dirname(dst), exist_ok=True)
            shutil.copy(src, dst)
        diff = subprocess.run(["git", "-C", ROOT, "diff", f"{commit}^", commit], capture_output=True, text=True).stdout
        r = subprocess.run(["patch", "-R", "-p1", "-s", "-f", "--no-backup-if-mismatch"], input=diff, cwd=tmp, capture_output=True, text=True)
        for rel in files:
            p = os.path.join(tmp, rel)
            if os.path.exists(p):
                txt = open(p, encoding="utf-8").read()
                if txt != open(os.path.join(ROOT, rel), encoding="utf-8").read():
                    out[rel] = txt
        return out, r.returncode
    finally:
        shutil.rmtree(tmp, ignore_errors=True)


def main():
    commits = subprocess.run(["git", "-C", ROOT, "log", "--reverse", "--format=%h %s", "--grep", "^fix:"], capture_output=True, text=True).stdout.strip().splitlines()
    mods = sorted(os.path.basename(p)[:-3] for p in glob.glob("/verif/sa/rules/C*.py"))
    base = {}
    work = []
    for m in mods:
        work.append((m, f"sa.rules.{m}", None, ROOT))
    with ProcessPoolExecutor(16) as ex:
        for (m, *_), res in zip(work, ex.map(battery._analyse, work)):
            base[m] = set(res["keys"])
    jobs, meta = [], []
    for line in commits:
        h, subj = line.split(" ", 1)
        ov, rc = reversed_overlay(h)
        if not ov:
            meta.append((h, subj, None, rc))
            continue
        for m in mods:
            jobs.append((m, f"sa.rules.{m}", ov, ROOT))
            meta.append((h, subj, m, rc))
    results = {}
    with ProcessPoolExecutor(16) as ex:
        it = iter(ex.map(battery._analyse, jobs))
        for h, subj, m, rc in meta:
            if m is None:
                results.setdefault(h, {"subject": subj, "reverse_applies": False, "fires": {}})
                continue
            res = next(it)
            d = results.setdefault(h, {"subject": subj, "reverse_applies": rc == 0, "fires": {}})
            new = sorted(set(res["keys"]) - base[m])
            if new:
                d["fires"][m] = new
            elif res["error"] and m not in d["fires"]:
                d.setdefault("errors", {})[m] = res["error"][:120]
    json.dump(results, open("/verif/revfix_matrix.json", "w"), indent=1)
    for h, d in results.items():
        f = d["fires"]
        print(h, "GUARDED " if f else "UNGUARDED", d["subject"][:70], "->", ", ".join(f"{m}:{len(k)}" for m, k in f.items()) or ("errors: " + ", ".join(d.get("errors", {})) if d.get("errors") else "-"), "" if d["reverse_applies"] else "[partial reverse]")


if __name__ == "__main__":
    main()
