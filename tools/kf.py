#!/usr/bin/env python3
"""kf.py known|fixed <property> <key> <what> [commit] — edit /verif/known_findings.json (development-time only)."""
import json, sys
p = "/verif/known_findings.json"
d = json.load(open(p))
status, prop, key, what = sys.argv[1:5]
commit = sys.argv[5] if len(sys.argv) > 5 else None
d["findings"] = [f for f in d["findings"] if f["key"] != key]
e = {"property": prop, "key": key, "status": status, "what": what}
if commit:
    e["commit"] = commit
    e["line"] = f"fixed: property={prop} {commit} {what}"
d["findings"].append(e)
d["findings"].sort(key=lambda f: (f["property"], f["key"]))
json.dump(d, open(p, "w"), indent=1)
print("ok", len(d["findings"]))
