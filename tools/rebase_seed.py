#!/usr/bin/env python3
"""rebase_seed.py Cnn-N 'old text' 'new text' [file] — a /repo fix made seeded/Cnn-N/patch.diff unappliable: re-express the
same change against /repo HEAD (textual edit old->new in the patch's file), re-confirm it (demo passes clean, fails
patched, pinned suite passes) in a scratch worktree, and rewrite patch.diff + meta.json.  Development-time tool."""
import json, os, subprocess, sys

def sh(cmd, cwd=None, env=None):
    e = dict(os.environ); e.update(env or {})
    r = subprocess.run(cmd, shell=True, cwd=cwd, env=e, capture_output=True, text=True)
    return r.returncode, r.stdout + r.stderr

sid, old, new = sys.argv[1:4]
d = f"/verif/seeded/{sid}"
meta = json.load(open(d + "/meta.json"))
rel = sys.argv[4] if len(sys.argv) > 4 else meta["files"][0]
wt = f"/tmp/seedchk/{sid}"
sh(f"git -C /repo worktree remove --force {wt}")
rc, o = sh(f"git -C /repo worktree add -q --detach {wt} HEAD"); assert rc == 0, o
try:
    env = {"PYTHONPATH": wt + "/src"}
    rc_clean, o1 = sh(f"/venv/bin/python {d}/demo.py", cwd=wt, env=env)
    s = open(f"{wt}/{rel}").read()
    assert s.count(old) == 1, f"old text occurs {s.count(old)} times"
    open(f"{wt}/{rel}", "w").write(s.replace(old, new))
    rc_mut, o2 = sh(f"/venv/bin/python {d}/demo.py", cwd=wt, env=env)
    rc_suite, o3 = sh(f"/verif/tools/run_baseline.sh {wt}")
    print(f"{sid}: demo clean rc={rc_clean} patched rc={rc_mut} suite rc={rc_suite} {o3.strip().splitlines()[-1] if o3.strip() else ''}")
    if rc_clean == 0 and rc_mut != 0 and rc_suite == 0:
        rc, diff = sh("git diff", cwd=wt)
        open(d + "/patch.diff", "w").write(diff)
        meta["confirmed"]["base_commit"] = sh("git -C /repo rev-parse --short HEAD")[1].strip()
        meta["confirmed"]["rebased"] = "re-expressed against the tree after a fix: commit touched the same lines; re-confirmed (demo clean rc 0, patched rc %d, suite passes)" % rc_mut
        json.dump(meta, open(d + "/meta.json", "w"), indent=1)
        print("rewritten")
    else:
        print("NOT rewritten"); print(o1[-300:]); print(o2[-300:])
finally:
    sh(f"git -C /repo worktree remove --force {wt}")
