#!/bin/bash
# run every manifest command on the clean tree
cd /verif
python3 - <<'PY'
import json, subprocess, sys, time
m = json.load(open('/verif/MANIFEST.json'))
bad = 0
t0 = time.time()
for p in m['checks']:
    for k in ('quick_cmd', 'thorough_cmd'):
        cmd = p.get(k)
        if not cmd: continue
        r = subprocess.run(cmd, shell=True, cwd='/verif', capture_output=True, text=True)
        viol = [l for l in r.stdout.splitlines() if l.startswith('VIOLATION')]
        kf = [l for l in r.stdout.splitlines() if l.startswith('KNOWN-FINDING')]
        status = 'ok' if r.returncode == 0 and not viol else 'BROKEN'
        if status != 'ok': bad += 1
        print(p['property_id'], k, 'rc', r.returncode, 'viol', len(viol), 'known', len(kf), status)
print('bad', bad, 'elapsed', round(time.time() - t0))
PY
