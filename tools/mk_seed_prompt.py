#!/usr/bin/env python3
"""Create a scratch worktree for a property and print the prompt for an independent mutation sub-agent.
The prompt contains ONLY the property's text and the worktree path (nothing from /verif)."""
import json, subprocess, sys, os
pid = sys.argv[1]
tag = sys.argv[2] if len(sys.argv) > 2 else ""
ROUND2 = tag.startswith(("-r2", "-r3", "-r4", "-r5", "-r6", "-r7"))
import glob
prev = []
if ROUND2:
    for mp in sorted(glob.glob(f"/verif/seeded/{pid}-*/meta.json")):
        prev.append((json.load(open(mp)).get("summary") or "")[:200])
NUMS = ("19,20,21" if tag.startswith("-r7") else "16,17,18" if tag.startswith("-r6") else "13,14,15" if tag.startswith("-r5") else "10,11,12" if tag.startswith("-r4") else ("7,8,9" if tag.startswith("-r3") else "4,5,6")) if ROUND2 and prev else "1,2,3"
wt = f"/tmp/seed/{pid}{tag}"
props = {json.loads(l)["id"]: json.loads(l) for l in open("/verif/properties.jsonl")}
p = props[pid]
if not os.path.exists(wt):
    subprocess.check_call(["git", "-C", "/repo", "worktree", "add", "-q", "--detach", wt, "HEAD"])
os.makedirs(wt + "/_seed", exist_ok=True)
print(f"""You are helping to evaluate a verification tool for the Python project pkgcore (a Gentoo package manager framework). Your job: produce realistic *bugs* (mutations) that break one stated property of pkgcore while slipping past the existing test suite.

Work ONLY inside the git worktree {wt} (a checkout of pkgcore at the pinned commit). Do NOT read, list or modify anything under /repo or /verif. Run Python as `/venv/bin/python` and ALWAYS with `PYTHONPATH={wt}/src` so that the worktree's code is imported (without it the wrong copy is imported). The test suite is run as:
  cd {wt} && PYTHONPATH={wt}/src /venv/bin/python -m pytest -q -p no:cacheprovider --timeout=900 -x --basetemp=/tmp/seed/bt-{pid}{tag}-$$ --deselect tests/ebuild/test_eapi.py::TestEAPI::test_system_bash_supports_bundled_eapis
(~15 s; that one deselected test fails on the clean tree already.) There is no network.

THE PROPERTY ({pid}): {p['title']}
{p['statement']}
Quantified over: {p['quantifier']['text']}
Code the property is anchored in: {', '.join(p['anchors']['files'])} ({'; '.join(m.get('name','') for m in p['anchors']['mechanism'])})

TASK: produce up to THREE independent variants (each a separate small change relative to the clean checkout, different in kind from each other) to pkgcore's own source (under src/ or data/, never tests/) such that for each variant:
 1. pkgcore still imports/compiles and the WHOLE existing test suite still passes (run it; see command above);
 2. the property above is violated for some input / history / schedule / crash point;
 3. the violation needs something specific to manifest — an unusual input, a multi-step sequence of operations, a crash or fault at a particular point, a particular interleaving, or two cooperating sites that each look fine alone — not something ordinary use would expose at once. Make it look like a plausible mistake or over-eager refactor a developer could make (not a comment saying "bug here", no dead giveaways, no sabotage marker). Prefer changing logic in the anchored code over adding new special-case code;
 4. you supply a demonstration: a standalone script `demoN.py` (N = {NUMS}) that exits 0 on the clean checkout and exits non-zero (assertion failure) with the variant applied, when run as `cd {wt} && PYTHONPATH={wt}/src /venv/bin/python _seed/demoN.py`. The demo must exercise pkgcore's real code (no mocks of the function under test) and assert the property's observable behaviour.

NOTE: the clean checkout may ALREADY violate the property in some ways (it has some pre-existing bugs). Your demo must pass on the clean checkout, so steer around pre-existing misbehaviour; if a pre-existing bug makes a behaviour undemonstrable (e.g. an object cannot even be constructed), pick a different clause of the property.

For each variant N: start from a clean tree (`git -C {wt} checkout -- . `), make the change, run the full test suite and confirm it passes, run the demo and confirm it FAILS, save the change with `git -C {wt} diff -- src data > {wt}/_seed/patchN.diff`, then revert (`git -C {wt} checkout -- src data`) and confirm the demo PASSES on the clean tree. Finally leave the worktree clean (only the untracked `_seed/` directory with patchN.diff, demoN.py and a `meta.json`). meta.json: a list with one object per variant: {{"variant": N, "property": "{pid}", "summary": "...what was changed...", "needs_to_manifest": "...", "files": [...], "suite_passed": true, "demo_fails_with_patch": true, "demo_passes_clean": true}}.

{("ALREADY TRIED by others (do NOT repeat these or close cousins of them; find different sites, different clauses of the property, different kinds of mistake):" + chr(10) + chr(10).join(" - " + x for x in prev) + chr(10) + chr(10)) if prev else ""}Do not commit anything and never use `git stash` (the stash is shared with other worktrees). Your final message: one short paragraph per variant (what changed, what it needs to manifest), plus anything that did not work out.""")
