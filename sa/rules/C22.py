"""C22 — contents sets behave like maps keyed by normalised path (key-normalisation discipline)."""
import ast

from ..core import astutil as A
from ..core import match as M
from ..core.model import dotted

META = {
    "technique": "key-provenance rule over every access to the backing dict of contentsSet (each key is `<entry>.location` or `normpath(<path>)`), argument-conversion typestate for the set-algebra methods (a foreign iterable is converted through the one location-lookup helper before locations are tested against it), entry-constructor funnel (every fs entry normalises its location), shape rules for the relocation prefix length and the ancestor completion",
    "level": "Decides the structural necessary conditions: (R1) every read/write/removal on contentsSet._dict is keyed by an entry's .location or by normpath(path) — never by the raw argument; (R2) difference / intersection_update / issubset / isdisjoint test locations only against `_location_lookup(other)`, that helper passes through nothing but another contentsSet, and the conversion normalises strings; intersection/issuperset/symmetric_difference go through the normalising __contains__/__getitem__; (R3) every fs entry class funnels its location through fsBase.__init__'s normpath, also on change_attributes; (R4) relocation strips trailing separators from the old prefix before measuring it, strips the separator from the remainder and re-normalises the joined result; (R5) add_missing_directories seeds from every entry, walks ancestors until one is known, and removes exactly '/'. Does NOT decide results on concrete sets.",
    "note": "",
}
META["technique"] += "; " + 'generic pack G on the anchored files (optional-flag shift, closures outliving a loop iteration, single-pass iterables consumed twice, %-templates built from data, in-place writes to class-level / memoised objects, generators mutating what they yielded, memo keys that are projections)'
MOD = "pkgcore.fs.contents"


def _dict_keys(fn):
    """(key-expression, access-node) for every keyed access to contentsSet._dict (or a local alias of it) in fn"""
    aliases = {"self._dict"} | {t.id for t, v, _ in A.assignments(fn) if isinstance(t, ast.Name) and A.unparse(v) == "self._dict"}
    keys = []
    for n in A.walk(fn):
        if isinstance(n, ast.Subscript) and A.unparse(n.value) in aliases:
            keys.append((n.slice, n))
        elif isinstance(n, ast.Call) and isinstance(n.func, ast.Attribute) and A.unparse(n.func.value) in aliases and n.func.attr in ("pop", "get", "setdefault", "__contains__") and n.args:
            keys.append((n.args[0], n))
        elif isinstance(n, ast.Compare) and len(n.ops) == 1 and isinstance(n.ops[0], (ast.In, ast.NotIn)) and A.unparse(n.comparators[0]) in aliases:
            keys.append((n.left, n))
    return keys


def _binder_iter(node, name):
    """the iterable of the innermost comprehension / for loop around `node` that binds `name`, else None"""
    for p in A.parents(node):
        if isinstance(p, (ast.GeneratorExp, ast.ListComp, ast.SetComp, ast.DictComp)):
            for g in p.generators:
                if isinstance(g.target, ast.Name) and g.target.id == name:
                    return g.iter
        elif isinstance(p, (ast.For, ast.AsyncFor)) and isinstance(p.target, ast.Name) and p.target.id == name:
            return p.iter
        elif isinstance(p, A.SCOPE_TYPES):
            return None
    return None


def _resolved(fn, e):
    """source of `e`, looking through a local that is assigned exactly once (``npf = normpath``)"""
    if isinstance(e, ast.Name):
        vals = [v for t, v, _ in A.assignments(fn.node, e.id)]
        if len(vals) == 1 and not isinstance(vals[0], ast.AugAssign):
            return A.unparse(vals[0])
    return A.unparse(e)


def run(ctx):
    P = ctx.program
    ctx.explanation = META["level"]
    C = P.cls(MOD, "contentsSet")
    # ---- R1 key provenance --------------------------------------------------------------------------
    n_keys = 0
    for name, m in sorted(C.methods.items()):
        for k, node in _dict_keys(m.node):
            n_keys += 1
            ok = (isinstance(k, ast.Attribute) and k.attr == "location" and isinstance(k.value, ast.Name)) or (isinstance(k, ast.Call) and dotted(k.func) == "normpath" and len(k.args) == 1)
            ctx.check("R1", m, ok, f"key:{A.unparse(k)[:30]}", f"`{A.unparse(node)[:50]}` is keyed by a normalised location",
                      f"contentsSet.{name} accesses the backing dict with key `{A.unparse(k)}`: neither an entry's .location nor normpath(path), so an unnormalised spelling (or an entry passed where a path is expected) misses", node=node)
    ctx.check("R1", C, n_keys >= 9, f"key-sites:{n_keys}", f"{n_keys} keyed accesses to contentsSet._dict inspected")
    # two-branch form on the polymorphic accessors: under `if fs.isfs_obj(p)` every access is keyed by p.location,
    # every access outside that branch (else branch / fall-through) by normpath(p)
    for name in ("__delitem__", "discard", "__getitem__", "__contains__"):
        m = C.methods.get(name)
        ctx.require(m is not None, f"contentsSet.{name} vanished")
        E = {"p": m.params()[1]}
        ifs = [n for n in A.body_walk(m.node) if isinstance(n, ast.If) and M.pat("fs.isfs_obj($p)").matches(n.test, E)]
        ok = len(ifs) == 1
        if ok:
            inside = {id(x) for st in ifs[0].body for x in ast.walk(st)}
            keys = _dict_keys(m.node)
            as_entry = [k for k, n in keys if id(n) in inside]
            as_path = [k for k, n in keys if id(n) not in inside]
            ok = bool(as_entry) and bool(as_path) and all(M.pat("$p.location").matches(k, E) for k in as_entry) and all(M.pat("normpath($p)").matches(k, E) for k in as_path)
        ctx.check("R1", m, ok, "entry-or-path", f"{name} accepts an entry (keyed by .location) or a path (keyed by normpath)")
    ck = P.func(MOD, "check_instance")
    ctx.check("R1", ck, M.has(ck.node, "return ($o.location, $o)", {"o": ck.params()[0]}), "init-keyed-by-location", "initial entries are keyed by their location")
    ctx.floor("R1", 14)

    # ---- R2 argument conversion ----------------------------------------------------------------------
    ll = C.methods.get("_location_lookup")
    ctx.require(ll is not None, "contentsSet._location_lookup vanished")
    passthrough = [n for n in A.body_walk(ll.node) if isinstance(n, ast.If)]
    ok = len(passthrough) == 1 and A.unparse(passthrough[0].test) == f"isinstance({ll.params()[1]}, contentsSet)"
    ctx.check("R2", ll, ok, "passthrough-only-contentsSet", "only another contentsSet (whose membership test normalises) is used as is",
              f"_location_lookup passes `{A.unparse(passthrough[0].test) if passthrough else '?'}` through unconverted: a builtin set of entries or of unnormalised paths is then tested against location strings and never matches", node=ll.node)
    rets = A.returns(ll.node)
    ctx.check("R2", ll, any(M.has(r, "set(cls._convert_loc($o))", {"o": ll.params()[1]}) for r in rets), "converts-rest", "every other iterable is converted to a set of normalised locations")
    cv = C.methods["_convert_loc"]
    loops = M.find(cv.node, "for $x in $it:\n    ...", {"it": cv.params()[0]})
    yields = [n for n in A.walk(cv.node) if isinstance(n, (ast.Yield, ast.YieldFrom))]
    ok = len(loops) == 1 and M.has(loops[0].node, "yield $x.location", loops[0].env) and M.has(loops[0].node, "yield normpath($x)", loops[0].env)
    ok = ok and all(isinstance(y, ast.Yield) and y.value is not None and (M.pat("$x.location").matches(y.value, loops[0].env) or M.pat("normpath($x)").matches(y.value, loops[0].env)) for y in yields)
    ctx.check("R2", cv, ok, "convert-normalises", "_convert_loc maps entries to .location and paths through normpath",
              "_convert_loc yields path strings unnormalised", node=cv.node)
    for name in ("difference", "intersection_update", "issubset", "isdisjoint"):
        m = C.methods[name]
        p = m.params()[1]
        conv = [st for t_, v, st in A.assignments(m.node, p) if A.unparse(v) == f"self._location_lookup({p})"]
        tests = [n for n in A.walk(m.node) if isinstance(n, ast.Compare) and isinstance(n.ops[0], (ast.In, ast.NotIn)) and A.unparse(n.comparators[0]) == p]
        ok = bool(conv) and bool(tests) and all(n.lineno > conv[0].lineno for n in tests)
        ctx.check("R2", m, ok, "converted-before-tested", f"{name}: `{p}` is converted by _location_lookup before locations are tested against it",
                  f"contentsSet.{name} tests locations against the raw argument `{p}`: entries and unnormalised paths in a foreign iterable never match", node=m.node)
        for n in tests:
            l = A.unparse(n.left)
            # what is tested: the .location of one of self's entries, or one of the backing dict's keys
            if isinstance(n.left, ast.Attribute) and n.left.attr == "location" and isinstance(n.left.value, ast.Name):
                it = _binder_iter(n, n.left.value.id)
                ok = it is not None and A.unparse(it) == "self"
            elif isinstance(n.left, ast.Name):
                it = _binder_iter(n, n.left.id)
                ok = it is not None and A.unparse(it) == "self._dict"
            else:
                ok = False
            ctx.check("R2", m, ok, f"tests-location:{l}", f"{name}: what is tested is a location string")
    m = C.methods["intersection"]
    E = {"o": m.params()[1]}
    ctx.check("R2", m, M.has(m.node, "($x if fs.isfs_obj($x) else self[$x] for $x in $o if $x in self)", E), "intersection-via-contains", "intersection goes through the normalising __contains__/__getitem__")
    m = C.methods["issuperset"]
    E = {"o": m.params()[1]}
    ctx.check("R2", m, M.has(m.node, "all(($x in self for $x in $o))", E), "issuperset-via-contains", "issuperset goes through the normalising __contains__")
    m = C.methods["difference_update"]
    E = {"o": m.params()[1]}
    ok = M.has(m.node, "$rem = self.remove\nfor $x in $o:\n    if $x in self:\n        $rem($x)", E) or M.has(m.node, "for $x in $o:\n    if $x in self:\n        self.remove($x)", E)
    ctx.check("R2", m, ok, "difference-update-via-contains", "difference_update goes through the normalising __contains__/remove")
    m = C.methods["remove"]
    ctx.check("R2", m, M.has(m.node, "del self[$o]", {"o": m.params()[1]}), "remove-via-delitem", "remove goes through the normalising __delitem__")
    m = C.methods["union"]
    ctx.check("R2", m, M.has(m.node, "$c = contentsSet($o)\n$c.update(self)\nreturn $c", {"o": m.params()[1]}), "union-shape", "union = other's entries overlaid with self's, keyed by location")
    m = C.methods["symmetric_difference_update"]
    E = {"o": m.params()[1]}
    ok = M.has(m.node, "for $x in self:\n    if $x in $o:\n        ...", E) and M.has(m.node, "for $y in $o:\n    if $y not in self:\n        ...", E) and M.has(m.node, "$o = contentsSet(self._ensure_fsbase($o))", E)
    ctx.check("R2", m, ok, "symdiff-shape", "symmetric difference: common entries found via membership on both sides; a plain iterator is materialised as a contentsSet first")
    ctx.floor("R2", 16)

    # ---- R3 constructor funnel -------------------------------------------------------------------------
    FS = "pkgcore.fs.fs"
    base = P.cls(FS, "fsBase")
    init = base.methods["__init__"]
    kw = init.node.args.kwarg
    E = {"loc": init.params()[1]}
    if kw is not None:
        E["d"] = kw.arg
    ctx.check("R3", init, M.has(init.node, "$d['location'] = normpath($loc)", E), "base-normalises", "fsBase.__init__ stores normpath(location)",
              "fsBase.__init__ no longer normalises the location: every contents set key can be an unnormalised spelling", node=init.node)
    n_sub = 0
    for c in P.all_classes():
        if c.module.name != FS or c.name == "fsBase":
            continue
        if "fsBase" not in [getattr(b, "name", b) for b in P.mro(c)[1:]]:
            continue
        n_sub += 1
        i = c.methods.get("__init__")
        if i is None:
            ctx.ob("R3", c, f"{c.name} inherits its constructor")
            continue
        locp = i.params()[1]
        chain = [x for x in A.calls(i.node) if A.call_attr(x) == "__init__" and x.args and any(A.unparse(a) == locp for a in x.args[:2])]
        ctx.check("R3", i, bool(chain), "funnels-location", f"{c.name}.__init__ hands its location to the parent constructor", f"{c.name}.__init__ does not pass `{locp}` to the normalising parent constructor", node=i.node)
        sets = [x for x in A.walk(i.node) if isinstance(x, ast.Call) and dotted(x.func) == "object.__setattr__" and len(x.args) > 1 and A.is_const(x.args[1], "location")]
        ctx.check("R3", i, not sets, "no-direct-location-store", f"{c.name}.__init__ does not store location itself")
    ctx.check("R3", base, n_sub >= 5, f"entry-classes:{n_sub}", f"{n_sub} entry classes inspected")
    for cn in ("fsBase", "fsLink"):
        m = P.func(FS, f"{cn}.change_attributes")
        ctx.check("R3", m, M.has(m.node, "$loc = $d.pop('location')\nreturn self.__class__($loc, ...)"), "change-attributes-reconstructs", f"{cn}.change_attributes rebuilds through the constructor (location re-normalised)")
    ctx.floor("R3", 8)

    # ---- R4 relocation ------------------------------------------------------------------------------------
    rw = P.func(MOD, "change_offset_rewriter")
    orig, new, src = rw.params()[:3]
    lens = [(t_, v) for t_, v, _ in A.assignments(rw.node) if isinstance(t_, ast.Name) and any(dotted(c.func) == "len" for c in A.calls(v)) and orig in A.names_in(v) | _flow(rw, orig)]
    ctx.require(lens, "change_offset_rewriter: prefix length not found")
    lname = lens[0][0].id
    strips = [c for c in A.calls(rw.node) if A.call_attr(c) in ("rstrip", "strip") and (orig in A.names_in(c.func.value) or _flow(rw, orig) & A.names_in(c.func.value))]
    ctx.check("R4", rw, bool(strips), "prefix-trailing-sep-stripped", "the old prefix is measured with its trailing separators stripped (so '/', '//' and '/usr/' measure 0, 0 and 4)",
              "change_offset_rewriter measures the old prefix without stripping trailing separators (normpath keeps a leading '//' and len('/')==1): relocating from the root spelled '//' or from '/usr/' chops the first character of every path", node=rw.node)
    loc = [k.value for c in A.calls(rw.node) if A.call_attr(c) == "change_attributes" for k in c.keywords if k.arg == "location"]
    ctx.require(len(loc) == 1, "change_offset_rewriter: new location expression not found")
    t = A.unparse(loc[0])
    shape = M.one(rw.node, "for $x in $src:\n    yield $x.change_attributes(location=$$np(pjoin($new, $x.location[$len:].lstrip($$sep))))", {"src": src, "new": new, "len": lname})
    ok = shape is not None and shape.env["$np"] is loc[0].func and _resolved(rw, shape.env["$np"]) in ("normpath", "os.path.normpath") and _resolved(rw, shape.env["$sep"]) in ("os.path.sep", "os.sep", "'/'")
    ctx.check("R4", rw, ok, "new-location-shape", "new location = normpath(join(new prefix, remainder with its leading separator stripped))",
              f"new location is `{t}`: not normpath(pjoin(new, location[len(old):].lstrip(sep)))", node=loc[0])
    mod = P.module(MOD)
    ctx.check("R4", rw, A.unparse(mod.assigns["offset_rewriter"]) == "partial(change_offset_rewriter, '/')", "insert-is-relocate-from-root", "insert_offset relocates from '/'")
    for name, frag in (("insert_offset", "offset_rewriter($a, self)"), ("change_offset", "change_offset_rewriter($a, $b, self)")):
        m = C.methods[name]
        E = dict(zip("ab", m.params()[1:]))
        ctx.check("R4", m, M.has(m.node, f"$c = self.clone(empty=True)\n$c.update({frag})\nreturn $c", E), "into-fresh-set", f"{name} fills a fresh set from the rewriter (keyed by the new locations)")
    ctx.floor("R4", 5)

    # ---- R5 missing directories ------------------------------------------------------------------------------
    md = C.methods["add_missing_directories"]
    # the candidate set is the variable whose members are finally added as directories (else: the one that is filtered
    # against self / that the ancestor walk grows)
    role = (M.one(md.node, "self.update((fs.fsDir(..., location=$x) for $x in $m))")
            or M.one(md.node, "$m = {$x for $x in $m if $x not in self}")
            or M.one(md.node, "while $t not in $m and $t not in self:\n    $m.add($t)"))
    ctx.require(role is not None, "add_missing_directories: `missing` computation not found")
    E = {"m": role["m"]}
    first = [v for t_, v, _ in A.assignments(md.node, E["m"])]
    ctx.require(len(first) >= 2, "add_missing_directories: `missing` computation not found")
    g = first[0]
    ok = isinstance(g, (ast.GeneratorExp, ast.ListComp, ast.SetComp)) and len(g.generators) == 1 and A.unparse(g.generators[0].iter) == "self" and not g.generators[0].ifs \
        and isinstance(g.generators[0].target, ast.Name) and M.pat("$x.dirname").matches(g.elt, {"x": g.generators[0].target.id}) is not None
    ctx.check("R5", md, ok, "seeds-from-every-entry", "the parents of ALL entries (directories included) are candidates",
              f"add_missing_directories seeds from `{A.unparse(g)}`: parents of recorded directories (an empty keepdir, a recorded intermediate dir) are never completed", node=md.node)
    ctx.check("R5", md, M.pat("{$x for $x in $m if $x not in self}").matches(first[1], E) is not None, "only-absent", "only absent parents are missing")
    wl = [n for n in A.body_walk(md.node) if isinstance(n, ast.While)]
    ok = len(wl) == 1 and M.has(md.node, "for $x in $_:\n    $t = os.path.dirname($x)\n    while $t not in $m and $t not in self:\n        $m.add($t)\n        $t = os.path.dirname($t)", E)
    ctx.check("R5", md, ok, "ancestor-walk", "each missing parent's ancestors are added until one is already known")
    ctx.check("R5", md, M.has(md.node, "$m.discard('/')", E), "root-excluded", "'/' is never added")
    ctx.check("R5", md, M.has(md.node, "self.update((fs.fsDir(..., location=$x) for $x in $m))", E), "adds-dirs", "exactly the missing ones are added, as directories")
    ctx.floor("R5", 5)


def _flow(fn, name):
    """names assigned (transitively) from `name` inside fn"""
    out = {name}
    changed = True
    while changed:
        changed = False
        for t, v, _ in A.assignments(fn.node):
            if isinstance(t, ast.Name) and t.id not in out and out & A.names_in(v):
                out.add(t.id)
                changed = True
    return out


F = "src/pkgcore/fs/contents.py"
MUTANTS = [
    {"name": "discard-raw-key", "file": F, "old": "            self._dict.pop(normpath(obj), None)", "new": "            self._dict.pop(obj, None)", "rule": "R1"},
    {"name": "contains-raw-key", "file": F, "old": "        return normpath(key) in self._dict", "new": "        return key in self._dict", "rule": "R1"},
    {"name": "convert-loc-raw", "file": F, "old": "                yield normpath(x)", "new": "                yield x", "rule": "R2"},
    {"name": "difference-unconverted", "file": F, "old": "    def difference(self, other):\n        other = self._location_lookup(other)\n", "new": "    def difference(self, other):\n        if not hasattr(other, '__contains__'):\n            other = set(self._convert_loc(other))\n", "rule": "R2"},
    {"name": "lookup-passes-sets", "file": F, "old": "        if isinstance(other, contentsSet):\n            return other\n        return set(", "new": "        if isinstance(other, (contentsSet, set, frozenset)):\n            return other\n        return set(", "rule": "R2"},
    {"name": "base-no-normpath", "file": "src/pkgcore/fs/fs.py", "old": "        d[\"location\"] = normpath(location)", "new": "        d[\"location\"] = location", "rule": "R3"},
    {"name": "offset-no-rstrip", "file": F, "old": "    offset_len = len(orig_offset.rstrip(path_sep))", "new": "    offset_len = len(orig_offset)", "rule": "R4"},
    {"name": "remainder-not-stripped", "file": F, "old": "x.location[offset_len:].lstrip(path_sep)", "new": "x.location[offset_len:]", "rule": "R4"},
    {"name": "missing-from-files-only", "file": F, "old": "        missing = (x.dirname for x in self)", "new": "        missing = (x.dirname for x in self.iterfiles())", "rule": "R5"},
    {"name": "root-added", "file": F, "old": "        missing.discard(\"/\")\n", "new": "", "rule": "R5"},
]
TWINS = [
    {"name": "offset-normpath-then-rstrip", "file": F, "old": "    offset_len = len(orig_offset.rstrip(path_sep))", "new": "    orig_offset = normpath(orig_offset)\n    offset_len = len(orig_offset.rstrip(path_sep))"},
    {"name": "rename-param", "file": F, "old": "    def discard(self, obj):\n        if fs.isfs_obj(obj):\n            self._dict.pop(obj.location, None)\n        else:\n            self._dict.pop(normpath(obj), None)", "new": "    def discard(self, item):\n        if fs.isfs_obj(item):\n            self._dict.pop(item.location, None)\n        else:\n            self._dict.pop(normpath(item), None)"},
]
