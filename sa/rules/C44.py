"""C44 — query strings select exactly the packages they describe (glob translation and restriction accumulation)."""
import ast

from ..core import astutil as A
from ..core import match as M
from ..core.model import dotted

META = {
    "technique": "def-use chain rule for the glob->regex translation (escape, then star substitution on the escaped star, then both anchors, full match), accumulator rule (the restriction list split off the query is only ever appended/extended and every exit returns it or the whole original text), token-consistency rule (the variable tested for '*' is the one converted and the one wrapped as an exact dep; each position maps to its own attribute), first-statement guard for blockers, position-independent glob detection for the atom short-cut",
    "level": "Decides the structural clauses: every glob token is regex-escaped before '*' becomes '.*', anchored at both ends and matched as a whole; '*'/'' mean no constraint and a star-free token is an exact match; slot, sub-slot, category and package tokens are each tested, converted and wrapped under their own name and attribute; restrictions split off for ::repo, :slot and /subslot survive every path, including the globbed-target-with-version fallback; a string containing '!' is rejected before anything else; a query is handed to the atom parser whole only when no position holds a glob (or an operator leads, with the globbed fallback). Does NOT decide selection on concrete package universes.",
    "note": "",
}
META["technique"] += "; " + 'generic pack G on the anchored files (optional-flag shift, closures outliving a loop iteration, single-pass iterables consumed twice, %-templates built from data, in-place writes to class-level / memoised objects, generators mutating what they yielded, memo keys that are projections)'
MOD = "pkgcore.util.parserestrict"


def _truth(e, atoms, vals):
    """Truth value of the boolean expression ``e`` under an assignment of its atomic tests.
    ``atoms``: list of (pattern source, env); ``vals``: one bool per atom.  `x not in y` is read as `not (x in y)`.
    Raises LookupError on an atomic test that is none of the known ones."""
    if isinstance(e, ast.BoolOp):
        vs = [_truth(x, atoms, vals) for x in e.values]
        return all(vs) if isinstance(e.op, ast.And) else any(vs)
    if isinstance(e, ast.UnaryOp) and isinstance(e.op, ast.Not):
        return not _truth(e.operand, atoms, vals)
    if isinstance(e, ast.Compare) and len(e.ops) == 1 and isinstance(e.ops[0], ast.NotIn):
        return not _truth(ast.Compare(left=e.left, ops=[ast.In()], comparators=e.comparators), atoms, vals)
    for (src, env), v in zip(atoms, vals):
        if M.pat(src).matches(e, env):
            return v
    raise LookupError(A.unparse(e))


def run(ctx):
    P = ctx.program
    ctx.explanation = META["level"]
    cg = P.func(MOD, "convert_glob")
    pm = P.func(MOD, "parse_match")
    # ---- R1 glob translation ----------------------------------------------------------------------
    tok = cg.params()[0]
    # the regex text is the local handed to values.StrRegex (found by role, not by spelling)
    sr = [c for c in A.calls(cg.node) if dotted(c.func) == "values.StrRegex"]
    ctx.require(len(sr) == 1 and sr[0].args, "convert_glob: StrRegex construction not found")
    pv = sr[0].args[0].id if isinstance(sr[0].args[0], ast.Name) else None
    pats = [(t, v, st) for t, v, st in A.assignments(cg.node, pv)] if pv else []
    ctx.require(len(pats) >= 1, "convert_glob: pattern construction not found")
    PE = {"p": pv}
    first = pats[0][1]
    em = M.pat(f"re.escape({tok}).replace($$a, $$b)").matches(first)
    esc = em is not None
    ctx.check("R1", cg, esc, f"escaped-before-star:{A.unparse(first)[:40]}", "the token is regex-escaped before '*' is turned into '.*'",
              f"convert_glob builds the pattern as `{A.unparse(first)}` without re.escape: the legal name characters '.' and '+' become regex metacharacters ('gtk+*' also selects gtkmm, '*stdc++' selects nothing)", node=pats[0][2])
    if esc:
        a0, a1 = A.try_literal(em["$a"]), A.try_literal(em["$b"])
        ctx.check("R1", cg, a0 == "\\*" and a1 == ".*", f"star-substitution:{a0!r}->{a1!r}", "the escaped star becomes '.*'")
    anch = [st for t, v, st in pats if isinstance(v, ast.JoinedStr)]
    ret = A.returns(cg.node)[-1]
    anchored = (len(anch) == 1 and M.pat("$p = f'^{$p}$'").matches(anch[0], PE) is not None and anch[0].lineno > pats[0][2].lineno
                and M.pat("return values.StrRegex($p, match=True)").matches(ret, PE) is not None and ret.lineno > anch[0].lineno)
    ctx.check("R1", cg, anchored, "anchored-full-match", "the regex is anchored at both ends and used as a match (whole-string pattern)",
              "the glob regex is no longer anchored at both ends / applied with match semantics: globs match substrings", node=ret)
    ctx.check("R1", cg, M.has(cg.node, f"if {tok} in ('*', ''):\n    return None"), "star-means-anything", "'*' and '' put no constraint")
    ctx.check("R1", cg, M.has(cg.node, f"if '*' not in {tok}:\n    return values.StrExactMatch({tok})"), "no-star-exact", "a star-free token is an exact match")
    ctx.check("R1", cg, M.has(cg.node, f"if not valid_globbing({tok}):\n    raise ParseError($_)"), "alphabet-checked", "tokens outside the glob alphabet are rejected")
    # sibling agreement: every character that is legal in a category, package or slot name is legal in a glob token
    # (a glob that merely spells part of a real name must not be rejected: `gtk+*`, `lib*++`, `dev-c+*/x`)
    from ..core import rx, constfold
    pmod = P.module("pkgcore.util.parserestrict")
    vg = pmod.assigns.get("valid_globbing")
    vg_pat = next((x.value for x in ast.walk(vg) if isinstance(x, ast.Constant) and isinstance(x.value, str)), None) if vg is not None else None
    ctx.require(isinstance(vg_pat, str), "parserestrict.valid_globbing: literal pattern not found")
    glob_chars = set().union(*rx.classes(vg_pat)) if rx.classes(vg_pat) else set()
    cm = P.module("pkgcore.ebuild.cpv")
    legal = set()
    for nm in ("isvalid_cat_re", "_pkg_re"):
        v = cm.assigns.get(nm)
        pat_ = next((x.value for x in ast.walk(v) if isinstance(x, ast.Constant) and isinstance(x.value, str)), None) if v is not None else None
        ctx.require(isinstance(pat_, str), f"cpv.{nm}: literal pattern not found")
        for cl in rx.classes(pat_):
            legal |= cl
    legal |= {"-"}  # package names are chunks joined by '-'
    missing = sorted(ch for ch in legal if ch not in glob_chars and ch.isascii())
    ctx.check("R1", pmod, not missing, "glob-alphabet-covers-names:" + "".join(missing)[:12], "every character legal in a category / package name is legal in a glob token",
              f"valid_globbing {vg_pat!r} rejects {missing}: characters that category / package names may contain (cpv.isvalid_cat_re, cpv._pkg_re), so a glob spelling part of such a "
              f"name (`gtk+*`, `lib*++`) raises ParseError while the exact name is accepted", node=vg)
    ctx.floor("R1", 6)

    # ---- R2 accumulator ------------------------------------------------------------------------------
    # the accumulator is the list whose conjunction is returned
    accs = sorted({m["acc"] for m in M.find(pm.node, "return packages.AndRestriction(*$acc)")})
    ctx.require(len(accs) == 1, f"parse_match: restriction accumulator not identified ({accs})")
    acc = accs[0]
    E = {"acc": acc}
    om = M.one(pm.node, "$orig = text = text.strip()") or M.one(pm.node, "text = $orig = text.strip()")
    if om:
        E["orig"] = om["orig"]
    asg = [(v, st) for t_, v, st in A.assignments(pm.node, acc)]
    ctx.check("R2", pm, len(asg) == 1 and isinstance(asg[0][0], ast.List) and not asg[0][0].elts, f"accumulator-never-rebound:{len(asg)}", f"`{acc}` is created once and only appended/extended",
              f"parse_match rebinds `{acc}` ({[A.unparse(s)[:50] for _, s in asg[1:]]}): the slot / sub-slot / repository restrictions split off the query earlier are discarded on that path", node=asg[-1][1] if asg else pm.node)
    n_ret = 0
    for r in A.returns(pm.node):
        n_ret += 1
        e = A.unparse(r.value)
        guards = [p.test for p in A.parents(r) if isinstance(p, ast.If)]
        ok = r.value is not None and (
            M.pat("$acc[0]").matches(r.value, E) is not None
            or M.pat("packages.AndRestriction(*$acc)").matches(r.value, E) is not None
            or (om is not None and M.pat("atom.atom($orig)").matches(r.value, E) is not None)
            or (M.pat("$other[0]").matches(r.value, E) is not None and any(M.has(g_, "not $acc", E) for g_ in guards)))
        ctx.check("R2", pm, ok, f"exit-carries-restrictions:{e[:40]}", f"`return {e[:50]}` carries the accumulated restrictions (or the whole original text)",
                  f"parse_match returns `{e}`, dropping the restrictions accumulated for ::repo / :slot / subslot", node=r)
    ctx.check("R2", pm, n_ret >= 5, f"exits:{n_ret}", f"{n_ret} exits inspected")
    fb = [c for c in A.calls(pm.node) if dotted(c.func) == "parse_globbed_version"]
    ctx.check("R2", pm, len(fb) == 1 and isinstance(getattr(fb[0], "_parent", None), ast.Call) and M.pat("$acc.extend").matches(fb[0]._parent.func, E) is not None, "fallback-extends", "the globbed-target-with-version fallback extends the accumulated restrictions",
              f"the globbed-version fallback's result does not extend `{acc}`", node=fb[0] if fb else pm.node)
    ctx.floor("R2", 7)

    # ---- R3 token consistency ------------------------------------------------------------------------------
    # the slot / sub-slot tokens by the way they are produced: split off after the last ':', then partitioned at '/'
    sm = M.one(pm.node, "text, $slot = text.rsplit(':', 1)\n$slot, $_, $subslot = $slot.partition('/')")
    ctx.require(sm is not None, "parse_match: slot / sub-slot split not found")
    WANT = {sm["slot"]: ("slot", "restricts.SlotDep"), sm["subslot"]: ("subslot", "restricts.SubSlotDep")}
    n = 0
    for node in A.walk(pm.node):
        if not (isinstance(node, ast.If) and isinstance(node.test, ast.Compare) and isinstance(node.test.ops[0], ast.In) and A.is_const(node.test.left, "*") and isinstance(node.test.comparators[0], ast.Name)):
            continue
        v = node.test.comparators[0].id
        if v not in WANT:
            continue
        n += 1
        role = WANT[v][0]
        conv = [c for c in A.calls(ast.Module(body=node.body, type_ignores=[])) if dotted(c.func) == "convert_glob"]
        attr = [c for c in A.calls(ast.Module(body=node.body, type_ignores=[])) if dotted(c.func) == "packages.PackageRestriction"]
        dep = [c for c in A.calls(ast.Module(body=node.orelse, type_ignores=[])) if (dotted(c.func) or "").startswith("restricts.")]
        outer = next((p for p in A.parents(node) if isinstance(p, ast.If)), None)
        ok = (len(conv) == 1 and len(conv[0].args) == 1 and A.unparse(conv[0].args[0]) == v and len(attr) == 1 and attr[0].args and A.try_literal(attr[0].args[0]) == role
              and len(dep) == 1 and dotted(dep[0].func) == WANT[v][1] and len(dep[0].args) == 1 and A.unparse(dep[0].args[0]) == v and outer is not None and A.unparse(outer.test) == v)
        ctx.check("R3", pm, ok, f"token-consistent:{role}", f"`{v}`: tested for '*', converted, attribute '{role}', exact form {WANT[v][1]} — all on `{v}`",
                  f"the {role} handling mixes tokens (glob test on `{v}`, convert_glob({A.unparse(conv[0].args[0]) if conv and conv[0].args else '?'}), {dotted(dep[0].func) if dep else '?'}({A.unparse(dep[0].args[0]) if dep and dep[0].args else '?'}))", node=node)
    # a glob test on one token that guards the conversion of another
    for node in A.walk(pm.node):
        if isinstance(node, ast.If) and isinstance(node.test, ast.Compare) and isinstance(node.test.ops[0], ast.In) and A.is_const(node.test.left, "*") and isinstance(node.test.comparators[0], ast.Name):
            v = node.test.comparators[0].id
            for c in A.calls(ast.Module(body=node.body, type_ignores=[])):
                if dotted(c.func) == "convert_glob" and c.args and isinstance(c.args[0], ast.Name) and c.args[0].id != v and getattr(c, "_parent", None) is not None:
                    inner = next((p for p in A.parents(c) if isinstance(p, ast.If)), None)
                    if inner is node:
                        rv, rc = WANT.get(v, (v,))[0], WANT.get(c.args[0].id, (c.args[0].id,))[0]
                        ctx.fail("R3", pm, f"glob-test-on-other-token:{rv}->{rc}", f"whether `{c.args[0].id}` is a glob is decided by `'*' in {v}`: with an exact {v} and a globbed {c.args[0].id} the pattern is wrapped as an exact value and compared literally, selecting nothing", node=node)
    ctx.check("R3", pm, n == 2, f"slot-subslot-sites:{n}", "slot and sub-slot handling inspected")
    cp = M.one(pm.node.body, "$ts = text.rsplit('/', 1)\n$r = list(map(convert_glob, $ts))")
    ctx.check("R3", pm, cp is not None and M.has(pm.node, "packages.PackageRestriction('category', $r[0])", cp.env) and M.has(pm.node, "packages.PackageRestriction('package', $r[1])", cp.env)
              and not M.has(pm.node, "packages.PackageRestriction('category', $r[1])", cp.env) and not M.has(pm.node, "packages.PackageRestriction('package', $r[0])", cp.env),
              "category-package-positions", "left of the last '/' is the category glob, right of it the package glob")
    ctx.check("R3", pm, M.has(pm.node.body, "if '::' in text:\n    text, $repo = text.rsplit('::', 1)\n    $acc.append(restricts.RepositoryDep($repo))\nif ':' in text:\n    text, $slot = text.rsplit(':', 1)\n    $slot, $_, $subslot = $slot.partition('/')", {**E, **sm.env}),
              "suffix-splitting", "::repo is split first, then :slot, then /subslot")
    ctx.floor("R3", 5)

    # ---- R4 blockers ------------------------------------------------------------------------------------------
    # the guard is a top-level statement and nothing but the whitespace strip (and expression statements, which bind
    # nothing: docstring, logging) runs before it
    gm = M.find(pm.node.body, "if '!' in text:\n    raise ParseError($_)")
    guard = next((m.node for m in gm if any(m.node is s for s in pm.node.body)), None)
    before = pm.node.body[:next(i for i, s in enumerate(pm.node.body) if s is guard)] if guard is not None else []
    ok = guard is not None and all(isinstance(s, ast.Expr) or (om is not None and s is om.node) for s in before)
    ctx.check("R4", pm, ok, "blockers-rejected-first", "a string containing '!' is rejected before anything is parsed", "parse_match no longer rejects blockers first", node=guard if guard is not None else pm.node)
    ctx.floor("R4", 1)

    # ---- R5 version handling -------------------------------------------------------------------------------------
    gv = P.func(MOD, "parse_globbed_version")
    opm = M.one(gv.node, "$op = max(($x for $x in atom.valid_ops if text.startswith($x)))")
    ctx.check("R5", gv, opm is not None, "longest-op", "the longest matching operator is taken")
    ctx.check("R5", gv, M.has(gv.node.body, "$chunks = text.rsplit('-', 1)\n$ver = cpv.isvalid_version_re.match($_)\n$res.append(restricts.VersionMatch($op, $ver.group(0)))\n$res.append(parse_match($chunks[0]))\nreturn $res", {"op": opm["op"]} if opm else None),
              "version-and-rest", "version constraint + the remaining glob parsed recursively")
    ctx.check("R5", gv, len([r for r in A.raises(gv.node) if A.raised_name(r) == "ParseError"]) == 3, "bad-versions-rejected", "missing/invalid/globbed versions are rejected")
    ctx.check("R5", pm, M.has(pm.node, "$ops, text = collect_ops(text)\nif not $ops:\n    ...\nelif text.startswith('*'):\n    raise ParseError($_)"), "prefix-glob-with-op-rejected", "an operator with a prefix glob is rejected")
    sc = [n for n in A.walk(pm.node) if isinstance(n, ast.If) and M.has(n.test, "text[0] in atom.valid_ops")]
    ctx.require(len(sc) == 1, "parse_match: atom short-cut not found")
    tt = A.unparse(sc[0].test)
    # the slot-part glob flag, by role: computed from the token split off after the last ':' BEFORE that token is partitioned
    sgm = M.one(pm.node, "text, $slot = text.rsplit(':', 1)\n$sg = '*' in $slot\n$slot, $_, $subslot = $slot.partition('/')", sm.env)
    # the short-cut condition must be equivalent to: operator leads, or no position holds a glob
    atoms = [("text[0] in atom.valid_ops", None), ("'*' in text", None)] + ([("$sg", {"sg": sgm["sg"]})] if sgm else [])
    try:
        equiv = sgm is not None and all(_truth(sc[0].test, atoms, (a, b, c)) == (a or not (b or c)) for a in (False, True) for b in (False, True) for c in (False, True))
    except LookupError:
        equiv = False
    ctx.check("R5", pm, equiv, f"glob-anywhere-skips-atom:{tt[:60]}", "the atom short-cut is skipped when ANY position (cat/pkg or slot/sub-slot) holds a glob",
              f"the atom short-cut is taken under `{tt}`: a glob in the slot/sub-slot next to an exact category/package is handed to the atom parser and rejected ('dev-libs/boost:0/1.6*')", node=sc[0])
    sg = [v for t_, v, _ in A.assignments(pm.node, sgm["sg"])] if sgm else []
    ctx.check("R5", pm, len(sg) == 2 and A.is_const(sg[0], False) and M.pat("'*' in $slot").matches(sg[1], sm.env) is not None, "slot-glob-detected", "the slot part (slot and sub-slot together) is inspected for a glob before it is split")
    ctx.floor("R5", 6)


F = "src/pkgcore/util/parserestrict.py"
MUTANTS = [
    {"name": "no-escape", "file": F, "old": "    pattern = re.escape(token).replace(\"\\\\*\", \".*\")", "new": "    pattern = token.replace(\"*\", \".*\")", "rule": "R1"},
    {"name": "unanchored-end", "file": F, "old": "    pattern = f\"^{pattern}$\"", "new": "    pattern = f\"^{pattern}\"", "rule": "R1"},
    {"name": "search-not-match", "file": F, "old": "    return values.StrRegex(pattern, match=True)", "new": "    return values.StrRegex(pattern)", "rule": "R1"},
    {"name": "fallback-rebinds", "file": F, "old": "            restrictions.extend(parse_globbed_version(text, orig_text))", "new": "            restrictions = parse_globbed_version(text, orig_text)", "rule": "R2"},
    {"name": "subslot-tested-on-slot", "file": F, "old": "            if \"*\" in subslot:", "new": "            if \"*\" in slot:", "rule": "R3"},
    {"name": "subslot-wrapped-as-slot", "file": F, "old": "                restrictions.append(restricts.SubSlotDep(subslot))", "new": "                restrictions.append(restricts.SlotDep(subslot))", "rule": "R3"},
    {"name": "blockers-accepted", "file": F, "old": "    if \"!\" in text:\n        raise ParseError(", "new": "    if \"!!\" in text:\n        raise ParseError(", "rule": "R4"},
    {"name": "revert-slot-glob-to-atom", "file": F, "old": "    elif text[0] in atom.valid_ops or not (\"*\" in text or slot_globbed):", "new": "    elif text[0] in atom.valid_ops or \"*\" not in text:", "rule": "R5"},
]
TWINS = []

MUTANTS += [
    {"name": "glob-alphabet-loses-plus", "file": "src/pkgcore/util/parserestrict.py", "old": 'valid_globbing = re.compile(r"^(?:[\\w+-.]+|(?<!\\*)\\*)+$").match', "new": 'valid_globbing = re.compile(r"^(?:[\\w.-]+|(?<!\\*)\\*)+$").match', "rule": "R1"},
]
