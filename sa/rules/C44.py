"""C44 — query strings select exactly the packages they describe (glob translation and restriction accumulation)."""
import ast

from ..core import astutil as A
from ..core.model import dotted

META = {
    "technique": "def-use chain rule for the glob->regex translation (escape, then star substitution on the escaped star, then both anchors, full match), accumulator rule (the restriction list split off the query is only ever appended/extended and every exit returns it or the whole original text), token-consistency rule (the variable tested for '*' is the one converted and the one wrapped as an exact dep; each position maps to its own attribute), first-statement guard for blockers, position-independent glob detection for the atom short-cut",
    "level": "Decides the structural clauses: every glob token is regex-escaped before '*' becomes '.*', anchored at both ends and matched as a whole; '*'/'' mean no constraint and a star-free token is an exact match; slot, sub-slot, category and package tokens are each tested, converted and wrapped under their own name and attribute; restrictions split off for ::repo, :slot and /subslot survive every path, including the globbed-target-with-version fallback; a string containing '!' is rejected before anything else; a query is handed to the atom parser whole only when no position holds a glob (or an operator leads, with the globbed fallback). Does NOT decide selection on concrete package universes.",
    "note": "",
}
MOD = "pkgcore.util.parserestrict"


def run(ctx):
    P = ctx.program
    ctx.explanation = META["level"]
    cg = P.func(MOD, "convert_glob")
    pm = P.func(MOD, "parse_match")
    # ---- R1 glob translation ----------------------------------------------------------------------
    tok = cg.params()[0]
    pats = [(t, v, st) for t, v, st in A.assignments(cg.node, "pattern")]
    ctx.require(len(pats) >= 1, "convert_glob: pattern construction not found")
    first = pats[0][1]
    esc = isinstance(first, ast.Call) and A.call_attr(first) == "replace" and isinstance(first.func.value, ast.Call) and dotted(first.func.value.func) == "re.escape" and A.unparse(first.func.value.args[0]) == tok
    ctx.check("R1", cg, esc, f"escaped-before-star:{A.unparse(first)[:40]}", "the token is regex-escaped before '*' is turned into '.*'",
              f"convert_glob builds the pattern as `{A.unparse(first)}` without re.escape: the legal name characters '.' and '+' become regex metacharacters ('gtk+*' also selects gtkmm, '*stdc++' selects nothing)", node=pats[0][2])
    if esc:
        a0, a1 = A.try_literal(first.args[0]), A.try_literal(first.args[1])
        ctx.check("R1", cg, a0 == "\\*" and a1 == ".*", f"star-substitution:{a0!r}->{a1!r}", "the escaped star becomes '.*'")
    anch = [v for t, v, _ in pats if isinstance(v, ast.JoinedStr)]
    ret = A.returns(cg.node)[-1]
    anchored = (len(anch) == 1 and A.unparse(anch[0]) == "f'^{pattern}$'") and "match=True" in A.unparse(ret.value) and A.unparse(ret.value).startswith("values.StrRegex(pattern")
    ctx.check("R1", cg, anchored, "anchored-full-match", "the regex is anchored at both ends and used as a match (whole-string pattern)",
              "the glob regex is no longer anchored at both ends / applied with match semantics: globs match substrings", node=ret)
    t = A.unparse(cg.node)
    ctx.check("R1", cg, f"if {tok} in ('*', ''):\n        return None" in t, "star-means-anything", "'*' and '' put no constraint")
    ctx.check("R1", cg, f"elif '*' not in {tok}:\n        return values.StrExactMatch({tok})" in t, "no-star-exact", "a star-free token is an exact match")
    ctx.check("R1", cg, "elif not valid_globbing(" in t and "raise ParseError" in t, "alphabet-checked", "tokens outside the glob alphabet are rejected")
    ctx.floor("R1", 5)

    # ---- R2 accumulator ------------------------------------------------------------------------------
    asg = [st for t_, v, st in A.assignments(pm.node, "restrictions")]
    ctx.check("R2", pm, len(asg) == 1 and A.unparse(asg[0].value) == "[]", f"accumulator-never-rebound:{len(asg)}", "`restrictions` is created once and only appended/extended",
              f"parse_match rebinds `restrictions` ({[A.unparse(s)[:50] for s in asg[1:]]}): the slot / sub-slot / repository restrictions split off the query earlier are discarded on that path", node=asg[-1] if asg else pm.node)
    n_ret = 0
    for r in A.returns(pm.node):
        n_ret += 1
        e = A.unparse(r.value)
        guards = [A.unparse(p.test) for p in A.parents(r) if isinstance(p, ast.If)]
        ok = e in ("restrictions[0]", "packages.AndRestriction(*restrictions)", "atom.atom(orig_text)") or (e == "r[0]" and any("not restrictions" in g_ for g_ in guards))
        ctx.check("R2", pm, ok, f"exit-carries-restrictions:{e[:40]}", f"`return {e[:50]}` carries the accumulated restrictions (or the whole original text)",
                  f"parse_match returns `{e}`, dropping the restrictions accumulated for ::repo / :slot / subslot", node=r)
    ctx.check("R2", pm, n_ret >= 5, f"exits:{n_ret}", f"{n_ret} exits inspected")
    fb = [c for c in A.calls(pm.node) if dotted(c.func) == "parse_globbed_version"]
    ctx.check("R2", pm, len(fb) == 1 and isinstance(getattr(fb[0], "_parent", None), ast.Call) and A.unparse(fb[0]._parent.func) == "restrictions.extend", "fallback-extends", "the globbed-target-with-version fallback extends the accumulated restrictions",
              "the globbed-version fallback's result does not extend `restrictions`", node=fb[0] if fb else pm.node)
    ctx.floor("R2", 7)

    # ---- R3 token consistency ------------------------------------------------------------------------------
    WANT = {"slot": ("slot", "restricts.SlotDep"), "subslot": ("subslot", "restricts.SubSlotDep")}
    n = 0
    for node in A.walk(pm.node):
        if not (isinstance(node, ast.If) and isinstance(node.test, ast.Compare) and isinstance(node.test.ops[0], ast.In) and A.is_const(node.test.left, "*") and isinstance(node.test.comparators[0], ast.Name)):
            continue
        v = node.test.comparators[0].id
        if v not in WANT:
            continue
        n += 1
        conv = [c for c in A.calls(ast.Module(body=node.body, type_ignores=[])) if dotted(c.func) == "convert_glob"]
        attr = [c for c in A.calls(ast.Module(body=node.body, type_ignores=[])) if dotted(c.func) == "packages.PackageRestriction"]
        dep = [c for c in A.calls(ast.Module(body=node.orelse, type_ignores=[])) if (dotted(c.func) or "").startswith("restricts.")]
        outer = next((p for p in A.parents(node) if isinstance(p, ast.If)), None)
        ok = (len(conv) == 1 and A.unparse(conv[0].args[0]) == v and len(attr) == 1 and A.try_literal(attr[0].args[0]) == WANT[v][0]
              and len(dep) == 1 and dotted(dep[0].func) == WANT[v][1] and A.unparse(dep[0].args[0]) == v and outer is not None and A.unparse(outer.test) == v)
        ctx.check("R3", pm, ok, f"token-consistent:{v}", f"`{v}`: tested for '*', converted, attribute '{WANT[v][0]}', exact form {WANT[v][1]} — all on `{v}`",
                  f"the {WANT[v][0]} handling mixes tokens (glob test on `{v}`, convert_glob({A.unparse(conv[0].args[0]) if conv else '?'}), {dotted(dep[0].func) if dep else '?'}({A.unparse(dep[0].args[0]) if dep else '?'}))", node=node)
    # a glob test on one token that guards the conversion of another
    for node in A.walk(pm.node):
        if isinstance(node, ast.If) and isinstance(node.test, ast.Compare) and isinstance(node.test.ops[0], ast.In) and A.is_const(node.test.left, "*") and isinstance(node.test.comparators[0], ast.Name):
            v = node.test.comparators[0].id
            for c in A.calls(ast.Module(body=node.body, type_ignores=[])):
                if dotted(c.func) == "convert_glob" and isinstance(c.args[0], ast.Name) and c.args[0].id != v and getattr(c, "_parent", None) is not None:
                    inner = next((p for p in A.parents(c) if isinstance(p, ast.If)), None)
                    if inner is node:
                        ctx.fail("R3", pm, f"glob-test-on-other-token:{v}->{c.args[0].id}", f"whether `{c.args[0].id}` is a glob is decided by `'*' in {v}`: with an exact {v} and a globbed {c.args[0].id} the pattern is wrapped as an exact value and compared literally, selecting nothing", node=node)
    ctx.check("R3", pm, n == 2, f"slot-subslot-sites:{n}", "slot and sub-slot handling inspected")
    t = A.unparse(pm.node)
    ctx.check("R3", pm, "r = list(map(convert_glob, tsplit))" in t and "packages.PackageRestriction('category', r[0])" in t and "packages.PackageRestriction('package', r[1])" in t and "tsplit = text.rsplit('/', 1)" in t, "category-package-positions", "left of the last '/' is the category glob, right of it the package glob")
    ctx.check("R3", pm, "text, repo_id = text.rsplit('::', 1)" in t and "restricts.RepositoryDep(repo_id)" in t and "text, slot = text.rsplit(':', 1)" in t and "slot, _sep, subslot = slot.partition('/')" in t.replace("(slot, _sep, subslot)", "slot, _sep, subslot").replace("(text, repo_id)", "text, repo_id").replace("(text, slot)", "text, slot"), "suffix-splitting", "::repo is split first, then :slot, then /subslot")
    ctx.floor("R3", 5)

    # ---- R4 blockers ------------------------------------------------------------------------------------------
    body = [s for s in pm.node.body if not (isinstance(s, ast.Expr) and isinstance(s.value, ast.Constant))]
    ok = isinstance(body[1], ast.If) and A.unparse(body[1].test) == "'!' in text" and isinstance(body[1].body[0], ast.Raise) and "ParseError" in A.unparse(body[1].body[0])
    ctx.check("R4", pm, ok, "blockers-rejected-first", "a string containing '!' is rejected before anything is parsed", "parse_match no longer rejects blockers first", node=body[1])
    ctx.floor("R4", 1)

    # ---- R5 version handling -------------------------------------------------------------------------------------
    gv = P.func(MOD, "parse_globbed_version")
    tg = A.unparse(gv.node)
    ctx.check("R5", gv, "op = max((x for x in atom.valid_ops if text.startswith(x)))" in tg, "longest-op", "the longest matching operator is taken")
    ctx.check("R5", gv, "restrictions.append(restricts.VersionMatch(op, version.group(0)))" in tg and "restrictions.append(parse_match(chunks[0]))" in tg and "chunks = text.rsplit('-', 1)" in tg, "version-and-rest", "version constraint + the remaining glob parsed recursively")
    ctx.check("R5", gv, tg.count("raise ParseError") == 3, "bad-versions-rejected", "missing/invalid/globbed versions are rejected")
    ctx.check("R5", pm, "elif text.startswith('*'):\n            raise ParseError" in t, "prefix-glob-with-op-rejected", "an operator with a prefix glob is rejected")
    sc = [n for n in A.walk(pm.node) if isinstance(n, ast.If) and "text[0] in atom.valid_ops" in A.unparse(n.test)]
    ctx.require(len(sc) == 1, "parse_match: atom short-cut not found")
    tt = A.unparse(sc[0].test)
    ctx.check("R5", pm, "slot_globbed" in tt and "'*' in text" in tt, f"glob-anywhere-skips-atom:{tt[:60]}", "the atom short-cut is skipped when ANY position (cat/pkg or slot/sub-slot) holds a glob",
              f"the atom short-cut is taken under `{tt}`: a glob in the slot/sub-slot next to an exact category/package is handed to the atom parser and rejected ('dev-libs/boost:0/1.6*')", node=sc[0])
    sg = [v for t_, v, _ in A.assignments(pm.node, "slot_globbed")]
    ctx.check("R5", pm, len(sg) == 2 and A.unparse(sg[1]) == "'*' in slot", "slot-glob-detected", "the slot part (slot and sub-slot together) is inspected for a glob before it is split")
    ctx.floor("R5", 6)


F = "src/pkgcore/util/parserestrict.py"
MUTANTS = [
    {"name": "no-escape", "file": F, "old": "    pattern = re.escape(token).replace(\"\\\\*\", \".*\")", "new": "    pattern = token.replace(\"*\", \".*\")", "rule": "R1"},
    {"name": "unanchored-end", "file": F, "old": "    pattern = f\"^{pattern}$\"", "new": "    pattern = f\"^{pattern}\"", "rule": "R1"},
    {"name": "search-not-match", "file": F, "old": "    return values.StrRegex(pattern, match=True)", "new": "    return values.StrRegex(pattern)", "rule": "R1"},
    {"name": "fallback-rebinds", "file": F, "old": "            restrictions.extend(parse_globbed_version(text, orig_text))", "new": "            restrictions = parse_globbed_version(text, orig_text)", "rule": "R2"},
    {"name": "subslot-tested-on-slot", "file": F, "old": "            if \"*\" in subslot:", "new": "            if \"*\" in slot:", "rule": "R3"},
    {"name": "subslot-wrapped-as-slot", "file": F, "old": "                restrictions.append(restricts.SubSlotDep(subslot))", "new": "                restrictions.append(restricts.SlotDep(subslot))", "rule": "R3"},
    {"name": "blockers-accepted", "file": F, "old": "    if \"!\" in text:\n        raise ParseError(", "new": "    if \"!!\" in text:\n        raise ParseError(", "rule": "R4"},
    {"name": "revert-slot-glob-to-atom", "file": F, "old": "    elif text[0] in atom.valid_ops or not (\"*\" in text or slot_globbed):", "new": "    elif text[0] in atom.valid_ops or \"*\" not in text:", "rule": "R5"},
]
TWINS = []
