"""C19 — an interrupted merge never leaves a replaced file half-written (structural clauses)."""
import ast

from ..core import astutil as A
from ..core.cfg import cfg_of
from ..core.model import dotted

META = {
    "technique": "replace-by-rename discipline as a taint + dominance rule on fs/ops.copyfile and do_link: on the destination-exists path every content or metadata mutation receives the '#new' sibling, the final path occurs only as the destination of os.rename, that rename is dominated by ensure_perms and every writer, existence is probed without following symlinks, and no removal primitive ever receives the final path",
    "level": "Decides: (R1) copyfile stages into <location>'#new' exactly when the destination exists (probed with lstat semantics, so a dangling symlink counts as existing), writes data and applies metadata only to the staging path, and publishes with one os.rename(staging, final) that every write and ensure_perms dominate; (R2) do_link creates directly only with the create-if-absent os.link, otherwise links to '#new' and renames it over the target, removing the temporary on failure, and never unlinks the target; (R3) no other function on the merge path opens or removes a pre-existing destination. Does NOT decide crash-point states; rename(2) atomicity is a POSIX assumption.",
    "note": "rename(2) is atomic and link(2) fails with EEXIST rather than replacing (POSIX); gen_obj uses lstat unless given a stat",
}
META["technique"] += "; " + 'generic pack G on the anchored files (optional-flag shift, closures outliving a loop iteration, single-pass iterables consumed twice, %-templates built from data, in-place writes to class-level / memoised objects, generators mutating what they yielded, memo keys that are projections)'
META["technique"] += "; who-may-call rule for ownership changes (lchown / follow_symlinks=False only)"
META["level"] += " (R4) every chown-family call in fs/ops.py is one that does not follow symlinks."
META["level"] += " R1 also: the staged copy is handed to ensure_perms without a live object, and on that side ensure_perms enforces every attribute (shared clause with C18.R1)."
MOD = "pkgcore.fs.ops"


def run(ctx):
    P = ctx.program
    ctx.explanation = META["level"]
    cp = P.func(MOD, "copyfile")
    obj = cp.params()[0]
    final = f"{obj}.location"
    # staging variable: assigned `<final> + "#new"`
    stag = [(t, v, st) for t, v, st in A.assignments(cp.node) if isinstance(v, ast.BinOp) and isinstance(v.op, ast.Add) and A.unparse(v.left) == final and A.is_const(v.right, "#new")]
    ctx.require(stag, "copyfile: staging path `<location> + '#new'` not found")
    st_stmt = stag[0][2]
    names = set(A.assigned_names(st_stmt.targets[0])) if isinstance(st_stmt, ast.Assign) else set()
    for t in getattr(st_stmt, "targets", []):
        names |= set(A.assigned_names(t))
    ctx.require(names, "copyfile: staging variable names not found")
    # the write-path variable (fp) is the one also assigned `final` in the other arm
    fp = [n for n in names if any(A.unparse(v) == final for t, v, _ in A.assignments(cp.node, n))]
    ctx.require(fp, "copyfile: write-path variable (final or staging) not found")
    fp = fp[0]
    arm = [p for p in A.parents(st_stmt) if isinstance(p, ast.If)]
    ctx.require(arm, "copyfile: staging decision not found")
    test = A.unparse(arm[0].test)
    in_else = any(A.contains_node(s, st_stmt) or s is st_stmt for s in arm[0].orelse)
    # the existence flag is located by its ROLE, not its spelling: it is the local the staging decision tests
    # (`if not <flag>` / `if <flag>`); its polarity is fixed below by where it is set True (after the lstat probe)
    t0 = arm[0].test
    negated = isinstance(t0, ast.UnaryOp) and isinstance(t0.op, ast.Not)
    t1 = t0.operand if negated else t0
    flag = t1.id if isinstance(t1, ast.Name) and t1.id not in cp.params() else None
    ctx.check("R1", cp, flag is not None and ((negated and in_else) or (not negated and not in_else)), "stage-iff-exists",
              "the '#new' staging path is used exactly when the destination already exists", f"staging is decided by `{test}` (else-arm={in_else})", node=arm[0])
    # existence probe: lstat semantics
    probes = [c for c in A.calls(cp.node) if dotted(c.func) in ("os.path.exists", "os.path.isfile", "os.stat") and c.args and A.unparse(c.args[0]) == final]
    ctx.check("R1", cp, not probes, "probe-follows-symlinks", "the destination's existence is not probed with a symlink-following call",
              f"copyfile probes the destination with `{A.unparse(probes[0]) if probes else ''}`, which follows symlinks: a dangling symlink at the destination counts as absent and the data is written THROUGH it to a path outside the contents set", node=probes[0] if probes else None)
    lprobe = [c for c in A.calls(cp.node) if dotted(c.func) in ("gen_obj", "os.lstat", "os.path.lexists", "os.path.islink") and c.args and A.unparse(c.args[0]) == final and not c.keywords]
    ctx.check("R1", cp, bool(lprobe), "probe-lstat", "the destination is probed with lstat semantics (gen_obj/lstat/lexists)")
    ex = [(t, v, st) for t, v, st in A.assignments(cp.node, flag)] if flag else []
    # polarity: True is recorded on the path where the lstat-semantics probe succeeded (after it, in the same
    # try body / branch, or under an `if <probe>`), so "flag" means "destination exists" whatever it is called
    def _after_probe(st):
        par = getattr(st, "_parent", None)
        sibs = next((body for fld in ("body", "orelse", "finalbody") for body in [getattr(par, fld, None)] if isinstance(body, list) and any(x is st for x in body)), [])
        before = sibs[:next((i for i, x in enumerate(sibs) if x is st), 0)]
        if any(A.contains_node(b, c) for b in before for c in lprobe):
            return True
        return any(isinstance(p, ast.If) and any(A.contains_node(p.test, c) for c in lprobe) and any(A.contains_node(b, st) for b in p.body) for p in A.parents(st))
    ctx.check("R1", cp, any(A.try_literal(v) is True and _after_probe(st) for t, v, st in ex) and any(A.try_literal(v) is False for t, v, st in ex), "existent-flag", "the existence flag is set on both outcomes of the probe")
    # taint: every mutator takes fp; final only as rename destination / read-only uses
    READ_OK = {"gen_obj", "os.path.dirname", "fs.isfs_obj", "fs.isdir", "fs.isreg", "fs.issym", "fs.isfifo", "fs.isdev", "CannotOverwrite", "FailedCopy", "TypeError"}
    g = cfg_of(cp.node)
    writers = []
    ren = None
    for c in A.calls(cp.node):
        d = dotted(c.func) or ""
        if d in READ_OK or d.startswith("os.path.") or d in ("ensure_dirs", "str", "os.makedev"):
            continue
        argtxt = [A.unparse(a) for a in c.args]
        if d == "os.rename":
            ctx.check("R1", cp, argtxt[1] == final and argtxt[0] in names, "rename-publishes", "the only use of the final path in a mutating call is as destination of os.rename(staging, final)", f"copyfile renames `{argtxt}`", node=c)
            ren = c
            continue
        if d == "spawn":
            ok = isinstance(c.args[0], ast.List) and A.unparse(c.args[0].elts[-1]) == fp
            ctx.check("R1", cp, ok, "mutator-target:cp", "the cp fallback writes to the write-path variable", node=c)
            writers.append(c)
            continue
        if d == "ensure_perms":
            a0 = c.args[0]
            loc = next((A.unparse(k.value) for k in a0.keywords if k.arg == "location"), None) if isinstance(a0, ast.Call) else None
            ctx.check("R1", cp, loc == fp, "mutator-target:ensure_perms", f"metadata is applied to `{fp}` (staging path when the destination exists)",
                      f"copyfile applies metadata with `{A.unparse(c)}`: on the destination-exists path this touches the live file before/without the new content", node=c)
            writers.append(c)
            continue
        if d in ("os.symlink", "os.mkfifo", "os.mknod") or A.call_attr(c) == "transfer_to_path":
            tgt = argtxt[1] if d == "os.symlink" else argtxt[0]
            ctx.check("R1", cp, tgt == fp, f"mutator-target:{d or 'transfer_to_path'}", f"{d or 'transfer_to_path'} writes to `{fp}`", f"`{A.unparse(c)}` writes to `{tgt}`, not the staging-aware path `{fp}`", node=c)
            writers.append(c)
            continue
        if any(final == a or fp == a for a in argtxt):
            ctx.check("R1", cp, False, f"unknown-mutator:{d}", "", f"copyfile passes the destination to `{A.unparse(c)[:60]}`, a call the replace-by-rename rule does not know", node=c)
    ctx.require(len(writers) >= 5, "copyfile: writers not found")
    ctx.require(ren is not None, "copyfile: publishing os.rename not found")
    doms = g.dominators()
    rn = g.node_of(ren)
    epn = [g.node_of(c) for c in writers if dotted(c.func) == "ensure_perms"][0]
    ctx.check("R1", cp, epn in doms.get(rn, ()), "rename-after-perms", "os.rename is dominated by ensure_perms (no instant with new content and default metadata at the final path)",
              "copyfile renames the staged file into place before its metadata is applied: an interruption leaves new content with umask-default mode at the final path", node=ren)
    rguard = [p for p in A.parents(ren) if isinstance(p, ast.If)]
    ctx.check("R1", cp, bool(rguard) and flag is not None and isinstance(rguard[0].test, ast.Name) and rguard[0].test.id == flag and any(A.contains_node(s, ren) for s in rguard[0].body),
              "rename-iff-staged", "the rename happens exactly when staging was used")
    # all paths from a writer to the normal exit pass the rename when existent: writers precede rename
    for c in writers:
        ctx.check("R1", cp, rn in g.reach([g.node_of(c)]), f"writer-before-rename@{c.lineno}", "every write precedes the publishing rename", node=c)
    # the staged copy is handed to ensure_perms without a live object: "complete new metadata" needs every attribute enforced there
    from .C18 import unknown_live_enforced
    ep = P.func(MOD, "ensure_perms")
    ctx.require(len(ep.params()) >= 2, "ensure_perms: (entry, live-object) parameters not found")
    ctx.check("R1", cp, all(len(c.args) == 1 and not c.keywords for c in writers if dotted(c.func) == "ensure_perms"), "staged-copy-perms-unconditional",
              "copyfile calls ensure_perms on the staged copy without a live object (nothing is assumed about what the creating syscall left)")
    unknown_live_enforced(ctx, ep, ep.params()[1], "R1")
    ctx.floor("R1", 18)

    # ---- R2 do_link -------------------------------------------------------------------
    dl = P.func(MOD, "do_link")
    src, trg = dl.params()
    links = [c for c in A.calls(dl.node) if dotted(c.func) == "os.link"]
    rens = [c for c in A.calls(dl.node) if dotted(c.func) == "os.rename"]
    ctx.require(links, "do_link: no os.link call")
    tmpv = [t.id for t, v, _ in A.assignments(dl.node) if isinstance(t, ast.Name) and isinstance(v, ast.BinOp) and A.unparse(v.left) == f"{trg}.location" and A.is_const(v.right, "#new")]
    tmp = tmpv[0] if tmpv else None
    a1 = [A.unparse(a) for a in links[0].args]
    ctx.check("R2", dl, a1 == [f"{src}.location", f"{trg}.location"], "direct-link", "the direct attempt is os.link(src, target), which cannot replace an existing target", node=links[0])
    ok_fb = tmp is not None and len(links) == 2 and len(rens) == 1 and [A.unparse(a) for a in links[1].args] == [f"{src}.location", tmp] and [A.unparse(a) for a in rens[0].args] == [tmp, f"{trg}.location"]
    ctx.check("R2", dl, ok_fb, "fallback-temp-then-rename", "when the target exists the new link is made at the '#new' temporary and renamed over the target",
              f"do_link replaces an existing target without the link-to-temporary + rename step (links={[A.unparse(c) for c in links]}, renames={[A.unparse(c) for c in rens]}): between removing and re-creating the target there is no file at that path", node=links[-1])
    removers = [c for c in A.calls(dl.node) if (dotted(c.func) or "") in ("unlink_if_exists", "os.unlink", "os.remove", "os.rmdir", "shutil.rmtree")]
    for c in removers:
        ctx.check("R2", dl, tmp is not None and A.unparse(c.args[0]) == tmp, f"removes-only-temp:{A.unparse(c.args[0])}", "removal primitives in do_link only ever receive the temporary",
                  f"do_link removes `{A.unparse(c.args[0])}`: unlinking the live target before re-creating it leaves no file at that path if interrupted", node=c)
    fail_cleanup = [c for c in removers if any(isinstance(p, ast.ExceptHandler) for p in A.parents(c))]
    ctx.check("R2", dl, bool(fail_cleanup), "temp-removed-on-failure", "a failed rename removes the temporary")
    exh = [h for n in A.body_walk(dl.node) if isinstance(n, ast.Try) for h in n.handlers if "FileExistsError" in A.unparse(h.type)]
    ctx.check("R2", dl, bool(exh) and all(isinstance(s, ast.Pass) for s in exh[0].body), "exists-falls-back", "an existing target routes to the temporary+rename fallback")
    ctx.floor("R2", 4)

    # ---- R3 nothing else on the merge path opens/removes a destination --------------------------
    mc = P.func(MOD, "merge_contents")
    bad = []
    for f in (mc, P.func(MOD, "mkdir")):
        for c in A.calls(f.node):
            d = dotted(c.func) or ""
            if d == "open" or d in ("os.remove", "os.truncate", "shutil.rmtree", "shutil.copy", "shutil.copyfile", "shutil.move", "os.replace"):
                bad.append((f, c))
    ctx.check("R3", mc, not bad, "no-inplace-write", "merge_contents/mkdir never open or remove a destination in place", f"`{A.unparse(bad[0][1])[:60]}` in {bad[0][0].qual}" if bad else "")
    ctx.check("R3", mc, len([c for c in A.calls(mc.node) if dotted(c.func) == "copyfile"]) == 1 and len([c for c in A.calls(mc.node) if dotted(c.func) == "do_link"]) == 1,
              "only-via-copyfile-or-link", "non-directories reach the filesystem only through copyfile or do_link")

    # ---- R4 ownership never goes through a symlink ---------------------------------------------------
    # what sits at <location> (or at '<location>#new') on the live filesystem may be a symlink whatever kind the entry to be
    # merged has; a chown that follows it changes a path outside the contents set.  chown-family calls in fs/ops.py: lchown only.
    owners = [(f, c) for f in P.module(MOD).funcs.values() for c in A.calls(f.node) if (dotted(c.func) or "") in ("os.chown", "os.lchown", "os.fchown", "shutil.chown")]
    ctx.require(owners, "fs/ops.py: no chown-family call found (ownership idiom changed)")
    for f, c in owners:
        nofollow = dotted(c.func) == "os.lchown" or any(k.arg == "follow_symlinks" and A.is_const(k.value, False) for k in c.keywords)
        ctx.check("R4", f, nofollow, f"ownership-follows-symlink:{dotted(c.func)}", f"`{A.unparse(c)[:50]}` does not follow a symlink",
                  f"{f.qual} sets ownership with `{A.unparse(c)[:60]}`, which follows symlinks: when the path (or a '#new' sibling left behind) is a symlink on the live filesystem, "
                  f"the owner of its target — a path outside the contents set — is changed", node=c)
    ctx.floor("R4", 1)


MUTANTS = [
    {"name": "perms-after-rename", "file": "src/pkgcore/fs/ops.py", "old": "    ensure_perms(obj.change_attributes(location=fp))\n\n    if existent:\n        os.rename(existent_fp, obj.location)\n", "new": "    if existent:\n        os.rename(existent_fp, obj.location)\n    ensure_perms(obj)\n", "rule": "R1"},
    {"name": "link-unlinks-target", "file": "src/pkgcore/fs/ops.py", "old": "    path = trg.location + \"#new\"\n    unlink_if_exists(path)\n", "new": "    path = trg.location + \"#new\"\n    unlink_if_exists(trg.location)\n", "rule": "R2"},
    {"name": "exists-probe", "file": "src/pkgcore/fs/ops.py", "old": "    try:\n        existing = gen_obj(obj.location)\n        if fs.isdir(existing):\n            raise CannotOverwrite(obj, existing)\n        existent = True\n    except OSError as oe:", "new": "    try:\n        if not os.path.exists(obj.location):\n            raise FileNotFoundError(obj.location)\n        existing = gen_obj(obj.location)\n        if fs.isdir(existing):\n            raise CannotOverwrite(obj, existing)\n        existent = True\n    except OSError as oe:", "rule": "R1"},
    {"name": "write-direct", "file": "src/pkgcore/fs/ops.py", "old": "        obj.data.transfer_to_path(fp)", "new": "        obj.data.transfer_to_path(obj.location)", "rule": "R1"},
    {"name": "never-stage", "file": "src/pkgcore/fs/ops.py", "old": "    if not existent:\n        fp = obj.location\n    else:\n        fp = existent_fp = obj.location + \"#new\"", "new": "    if existent:\n        fp = obj.location\n    else:\n        fp = existent_fp = obj.location + \"#new\"", "rule": "R1"},
    {"name": "fallback-links-target", "file": "src/pkgcore/fs/ops.py", "old": "        os.link(src.location, path)\n", "new": "        os.unlink(trg.location)\n        os.link(src.location, trg.location)\n        return True\n", "rule": "R2"},
]
MUTANTS += [
    {"name": "chown-follows-symlinks", "file": "src/pkgcore/fs/ops.py", "old": "        os.lchown(d1.location, o, g)\n", "new": "        os.chown(d1.location, o, g)\n", "rule": "R4"},
]
TWINS = [
    {"name": "chown-with-follow-symlinks-false", "file": "src/pkgcore/fs/ops.py", "old": "        os.lchown(d1.location, o, g)\n", "new": "        os.lchown(d1.location, o, g)\n        os.chown(d1.location, o, g, follow_symlinks=False)\n"},
]
