"""C42 — package move updates follow move chains in file order."""
import ast
import re as _re

from ..core import astutil as A
from ..core import match as M
from ..core.model import dotted

META = {
    "technique": "constant evaluation of the sort-key guard against the group counts of the EAPI update_regex literals (parsed, not run), object-lifetime rule for the cross-file `moved` map (created once, passed to every per-file call, never rebound), freshness rule for the checkpoint linked into a move source's chain (a deque constructed for this move, never an existing tail), guard-precedes-effect rule for redundant moves, error-discipline rule (every atom construction in the line parser is under a MalformedAtom -> log + continue), flattening shape",
    "level": "Decides the structural clauses: quarter-named files are ordered by (year, quarter) exactly for the regex that has those two groups, and by name otherwise; the already-moved bookkeeping spans all files; a move links the source's chain to a NEW checkpoint opened in the target, so only commands recorded for the target afterwards are picked up; a move/slotmove of an already moved name changes nothing; lines with a wrong field count, a versioned or malformed atom, a slotted slotmove source or an unknown command are skipped without effect; the per-name command list is the flattening of its chain from its start point. Does NOT decide concrete update sets.",
    "note": "",
}
META["technique"] += "; " + 'generic pack G on the anchored files (optional-flag shift, closures outliving a loop iteration, single-pass iterables consumed twice, %-templates built from data, in-place writes to class-level / memoised objects, generators mutating what they yielded, memo keys that are projections)'
MOD = "pkgcore.ebuild.pkg_updates"
OPS = {ast.GtE: lambda a, b: a >= b, ast.Gt: lambda a, b: a > b, ast.Eq: lambda a, b: a == b, ast.NotEq: lambda a, b: a != b, ast.Lt: lambda a, b: a < b, ast.LtE: lambda a, b: a <= b}


def _skips(stmts):
    """an unconditional `continue` directly in this statement list: every path through the list leaves the iteration"""
    return any(isinstance(s, ast.Continue) for s in stmts)


def _guards(stmts, test, env):
    """If statements (elif included) below ``stmts`` that test ``test`` — in either polarity / branch order; each is presented
    as `if <test>: <what runs when it holds>`"""
    return [ast.copy_location(ast.If(test=n.test, body=list(when_true), orelse=list(when_false)), n) for n, when_true, when_false, _e in M.guarded(stmts, test, env)]


def _effects(stmts, names=("mods", "moved")):
    """nodes below ``stmts`` that change the bookkeeping tables: mutator calls on / stores into something reached from them"""
    out = []
    for n in A.walk_body(stmts):
        if isinstance(n, ast.Call) and isinstance(n.func, ast.Attribute) and n.func.attr in ("append", "extend", "appendleft", "extendleft", "insert", "update", "setdefault", "pop", "clear") and A.names_in(n.func.value) & set(names):
            out.append(n)
        elif isinstance(n, (ast.Assign, ast.AugAssign, ast.AnnAssign, ast.Delete)):
            tg = n.targets if isinstance(n, (ast.Assign, ast.Delete)) else [n.target]
            if any(isinstance(t, (ast.Subscript, ast.Attribute)) and A.names_in(t) & set(names) for t in tg):
                out.append(n)
    return out


def run(ctx):
    P = ctx.program
    ctx.explanation = META["level"]
    sd = P.func(MOD, "_scan_directory")
    # ---- R1 ordering key ---------------------------------------------------------------------------
    regs = set()
    em = P.module("pkgcore.ebuild.eapi")
    for n in ast.walk(ast.parse(em.src)):
        if isinstance(n, ast.Dict):
            for k, v in zip(n.keys, n.values):
                if isinstance(k, ast.Constant) and k.value == "update_regex" and isinstance(v, ast.Call) and dotted(v.func) == "re.compile" and isinstance(v.args[0], ast.Constant):
                    regs.add(v.args[0].value)
    ctx.require(regs, "eapi.py: update_regex literals not found")
    # locals by role: $fn the listed name, $m its regex match, $files the collected list, $key the sort key
    lp = M.one(sd.node, "for $fn in listdir_files(path):\n    $m = eapi.options.update_regex.match($fn)")
    E = dict(lp.env) if lp else {}
    gm = M.one(lp.node, "if $m is not None:\n    $files.append($_)", E) if lp else None
    if gm:
        E = dict(gm.env)
    km = M.one(lp.node, "if $m is not None:\n    ...\n    $files.append(($key, $fn))", E) if lp else None
    then_ = (M.arms(km.node, "$m is not None", E) or (km.node.body,))[0] if km else []
    ife = A.ifexp_of(then_, km["key"]) if km else None
    has_key = ctx.check("R1", sd, km is not None and isinstance(ife, ast.IfExp) and len(A.assignments(sd.node, km["key"])) in (1, 2), "chronological-key-present", "update files get a (year, quarter) sort key",
                        "_scan_directory computes no chronological sort key: quarter-named update files are applied in listing / plain name order (1Q-2020 before 4Q-2019)", node=sd.node)
    if has_key:
        _key_rules(ctx, sd, ife, regs, E)
    rets = A.returns(sd.node)
    rm = M.one(sd.node, "return [$f2 for $k2, $f2 in sorted($files)]", km.env) if km else None
    ctx.check("R1", sd, rm is not None and rm["f2"] != rm["k2"] and len(rets) == 1, "sorted-by-key", "files are returned sorted by (key, name): listing order cannot matter")
    apps = M.find(sd.node, "$files.append($_)", E) if gm else []
    guarded = [a for a in apps if any(isinstance(p, ast.If) and M.arms(p, "$m is not None", E) is not None and any(A.contains_node(s, a.node) or s is a.node for s in M.arms(p, "$m is not None", E)[0]) for p in A.parents(a.node))]
    ctx.check("R1", sd, bool(apps) and len(guarded) == len(apps), "misnamed-skipped", "files not matching the regex are skipped")
    ctx.floor("R1", 6)

    # ---- R2 moved map spans files ----------------------------------------------------------------------
    ru = P.func(MOD, "read_updates")
    pu = P.func(MOD, "_process_updates")
    loop = M.one(ru.node, "for $fp in _scan_directory(path, eapi):\n    ...")
    ctx.require(loop is not None, "read_updates: file loop not found")
    loop = loop.node
    calls = [c for c in A.calls(loop) if dotted(c.func) == "_process_updates"]
    ctx.require(len(calls) == 1, "read_updates: _process_updates call not found")
    call = calls[0]
    shared = {}
    if len(call.args) == 4 and not call.keywords:
        for role, a in (("mods", call.args[2]), ("moved", call.args[3])):
            if isinstance(a, ast.Name):
                made = [st for t_, v, st in A.assignments(ru.node, a.id)]
                if len(made) == 1 and made[0] in ru.node.body and made[0].lineno < loop.lineno:
                    shared[role] = a.id
    ctx.check("R2", ru, len(shared) == 2 and shared["mods"] != shared["moved"], "moved-created-once-passed-always", "one `moved` map (and one `mods` table) is created before the file loop and handed to every file",
              "read_updates no longer shares one `moved` map across files: a redundant move in a LATER file than the original move is applied again", node=call)
    ctx.require([a.arg for a in pu.node.args.args[2:4]] == ["mods", "moved"], "_process_updates: parameters (…, mods, moved) not found")
    rebound = [st for t_, v, st in A.assignments(pu.node, "moved")]
    dflt = pu.node.args.defaults
    ctx.check("R2", pu, not rebound and not dflt, f"moved-never-rebound:{len(rebound)}+{len(dflt)}", "_process_updates neither defaults nor rebinds `moved`",
              "_process_updates creates its own `moved` map (default/rebinding): the bookkeeping is reset for every update file", node=pu.node)
    ctx.floor("R2", 2)

    # ---- R3 fresh checkpoint -----------------------------------------------------------------------------
    # locals by role: $line the split fields, $src/$trg the move atoms, $d the checkpoint deque
    mvif = _guards(pu.node.body, "$line[0] == 'move'", {})
    ctx.require(len(mvif) == 1, "_process_updates: move branch not found")
    mvif = mvif[0]
    mb = mvif.body
    L = dict(M.pat("$line[0] == 'move'").matches(mvif.test).env)
    at = M.one(mb, "$src, $trg = (atom($line[1]), atom($line[2]))", L)
    ctx.require(at is not None, "_process_updates: construction of the move's source and target atoms not found")
    EM = dict(at.env)
    ext = M.find(mb, "mods[$src.key][1].extend([$$rec, $$link])", EM)
    ctx.require(len(ext) == 1, "_process_updates: chain extension of the move source not found")
    ext, rec, link = ext[0].node, ext[0].env["$rec"], ext[0].env["$link"]
    fresh = isinstance(link, ast.Name) and M.has(mb, "$d = deque()\nmods[$src.key][1].extend([$_, $d])", dict(EM, d=link.id))
    ctx.check("R3", pu, fresh, f"links-fresh-checkpoint:{A.unparse(link)[:30]}", "the source's chain continues in a deque created for this move",
              f"the move source's chain is linked to `{A.unparse(link)}`, an existing deque of the target: the source also picks up commands recorded for the target BEFORE it became a move target (and move cycles make the structure self-referential)", node=ext)
    ctx.check("R3", pu, M.pat("('move', $src, $trg)").matches(rec, EM) is not None, "move-recorded", "the move itself is recorded in the source's chain")
    if fresh:
        ctx.check("R3", pu, M.has(mb, "mods[$trg.key][1].append($d)\nmods[$trg.key][1] = $d", dict(EM, d=link.id)), "checkpoint-opened-in-target", "the same deque is appended to the target's tail and becomes the target's new tail (later target commands land in it)",
                  "the new checkpoint is not installed as the target's tail: commands recorded for the target after the move are not seen through the source", node=mvif)
    ctx.floor("R3", 3)

    # ---- R4 redundant moves -------------------------------------------------------------------------------
    sm = next((s for s in mvif.orelse if isinstance(s, ast.If) and M.pat("$line[0] == 'slotmove'").matches(s.test, L)), None)
    ctx.require(sm is not None, "_process_updates: slotmove branch not found")
    at2 = M.one(sm.body, "$src = atom($line[1])", L)
    ctx.require(at2 is not None, "_process_updates: construction of the slotmove's source atom not found")
    ES = dict(at2.env)
    for name, body, env in (("move", mb, EM), ("slotmove", sm.body, ES)):
        guards = _guards(body, "$src.key in moved", env)
        effects = _effects(body)
        ok = len(guards) == 1 and _skips(guards[0].body) and effects and all(guards[0].lineno < c.lineno for c in effects)
        ctx.check("R4", pu, ok, f"redundant-skipped:{name}", f"{name}: an already-moved source is skipped before anything is recorded",
                  f"{name} of an already-moved name is no longer skipped before recording", node=body[0])
    ctx.check("R4", pu, M.count(mb, "moved[$src.key] = $trg", EM) == 1 and len(_effects(mb, ("moved",))) == 1 and not _effects(sm.body, ("moved",)), "moved-recorded-by-moves-only", "only a move marks its source as moved")
    ctx.floor("R4", 3)

    # ---- R5 malformed lines skipped -----------------------------------------------------------------------------
    n_at = 0
    for c in A.calls(pu.node):
        if dotted(c.func) != "atom":
            continue
        n_at += 1
        tr = next((p for p in A.parents(c) if isinstance(p, ast.Try) and any(A.contains_node(s, c) for s in p.body)), None)
        ok = tr is not None and any(h.type is not None and "MalformedAtom" in A.unparse(h.type) and _skips(h.body) for h in tr.handlers)
        ctx.check("R5", pu, ok, f"malformed-atom-skipped:{A.unparse(c)[:30]}", f"`{A.unparse(c)[:40]}`: a malformed atom logs and skips the line",
                  f"`{A.unparse(c)}` is not under a MalformedAtom handler: a malformed atom in an updates file raises out of read_updates instead of the line being skipped", node=c)
    ctx.check("R5", pu, n_at >= 5, f"atom-sites:{n_at}", f"{n_at} atom constructions inspected")
    raw = M.one(pu.node, "for $no, $raw in enumerate(sequence, 1):\n    $stripped = $raw.strip()")
    for tag, scope, test, env, what in (
        ("len(line) != 3", mb, "len($line) != 3", L, "move field count"),
        ("len(line) != 4", sm.body, "len($line) != 4", L, "slotmove field count"),
        ("src.fullver is not None", mb, "$src.fullver is not None", EM, "versioned move source"),
        ("trg.fullver is not None", mb, "$trg.fullver is not None", EM, "versioned move target"),
        ("src.slot is not None", sm.body, "$src.slot is not None", ES, "slotted slotmove source"),
        ("not line", pu.node.body, "not $stripped", raw.env if raw else None, "empty line"),
    ):
        ifs = _guards(scope, test, env) if env is not None else []
        ctx.check("R5", pu, len(ifs) == 1 and _skips(ifs[0].body), f"bad-line-skipped:{tag}", f"{what}: logged and skipped", f"a line with {what} is no longer skipped", node=pu.node)
    inside = [e for e in _effects(mb) + _effects(sm.body)]
    stray = [e for e in _effects(pu.node.body) if not any(e is i for i in inside)]
    ctx.check("R5", pu, not stray, "unknown-command-ignored", "an unknown command has no effect: nothing is recorded outside the move and slotmove branches")
    # fields are separated by any run of blanks (tabs, aligned columns): the line is tokenised with str.split() without an
    # argument — split(" ") yields empty fields / keeps tabs and well-formed lines are then skipped as malformed
    toks = [c for c in A.calls(pu.node) if A.call_attr(c) in ("split", "rsplit") and isinstance(c.func.value, ast.Name)
            and any(A.unparse(t) == A.unparse(c.func.value) for t, v, st in A.assignments(pu.node) if v is c)]
    ctx.check("R5", pu, bool(toks) and all(not c.args and not c.keywords for c in toks), "fields-split-on-any-blank", "an update line is tokenised on any whitespace",
              f"_process_updates tokenises a line with `{A.unparse(toks[0]) if toks else '?'}`: fields separated by a tab or by several blanks are not recognised, the line is rejected as "
              f"malformed and its move / slotmove is lost from every chain", node=toks[0] if toks else pu.node)
    ctx.floor("R5", 13)

    # ---- R6 flattening ---------------------------------------------------------------------------------------------
    fm = M.one(ru.node, "$mods = defaultdict($f)")  # the table by role: the defaultdict built from the start/tail factory
    mods = fm["mods"] if fm else None
    fl = M.one(ru.node, "$c = {$k: list(iflatten_instance($v[0], tuple)) for $k, $v in $mods.items()}", {"mods": mods}) if mods else None
    ctx.check("R6", ru, fl is not None and fl["k"] != fl["v"], "flatten-from-start", "a name's commands are the flattening of its chain from its start point")
    ctx.check("R6", ru, M.has(ru.node, "$c = {$_: $_ for $k, $v in $mods.items()}\n$c2 = {$k2: $v2 for $k2, $v2 in $c.items() if $v2}\nreturn $c2", {"mods": mods} if mods else None), "empty-dropped", "names without commands are dropped")
    defs = [s for s in ru.node.body if isinstance(s, ast.FunctionDef)]
    # the factory is the nested def the defaultdict argument names; the name is rebound later (`with ... as f`), so when no def
    # of that spelling exists the only nested def is taken
    fac = [d for d in defs if fm and d.name == fm["f"]] or (defs if len(defs) == 1 else [])
    ctx.check("R6", ru, fm is not None and len(call.args) >= 3 and M.pat("$mods").matches(call.args[2], {"mods": mods}) is not None and len(fac) == 1 and M.pat("def $g():\n    $d = deque()\n    return [$d, $d]").matches(fac[0]) is not None and len(A.returns(fac[0])) == 1, "start-equals-tail-initially", "a new name starts with start == tail")
    sl = M.one(sm.body, "$slot = atom(f'{$src}:{$line[2]}')", ES)
    ctx.check("R6", pu, sl is not None and M.has(sm.body, "mods[$src.key][1].append(('slotmove', $slot, $line[3]))", sl.env), "slotmove-recorded", "a slotmove is recorded at the source's tail")
    ctx.floor("R6", 4)


def _key_rules(ctx, sd, ife, regs, E):
    test = ife.test
    ctx.require(isinstance(test, ast.Compare) and M.pat("$m.re.groups").matches(test.left, E) is not None and isinstance(test.comparators[0], ast.Constant) and type(test.ops[0]) in OPS, f"_scan_directory: sort key guard `{A.unparse(test)}` not understood")
    for rx_ in sorted(regs):
        g = _re.compile(rx_).groups  # group count of a literal: compiling a constant pattern, nothing of pkgcore runs
        taken = OPS[type(test.ops[0])](g, test.comparators[0].value)
        quarter = g >= 2
        used = sorted({int(c.args[0].value) for c in A.calls(ife.body) if A.call_attr(c) == "group" and c.args and isinstance(c.args[0], ast.Constant)})
        ctx.check("R1", sd, taken == quarter and (not taken or max(used, default=0) <= g), f"key-guard:{rx_}:{'taken' if taken else 'skipped'}", f"regex {rx_!r} ({g} groups): chronological key {'used' if taken else 'not used (plain name order)'}",
                  f"for update_regex {rx_!r} ({g} groups) the guard `{A.unparse(test)}` is {taken}: " + ("quarter-named files get no (year, quarter) key and are applied in plain filename order (1Q-2020 before 4Q-2019)" if quarter else "group(2) does not exist for this regex"), node=ife)
    q = [r for r in regs if _re.compile(r).groups >= 2]
    ctx.check("R1", sd, len(q) == 1 and q[0] == "^([1-4])Q-(\\d{4})$", "quarter-regex", "the quarter form is <quarter>Q-<year>: group 1 quarter, group 2 year")
    ctx.check("R1", sd, M.pat("($m.group(2), $m.group(1))").matches(ife.body, E) is not None, "year-then-quarter", "the key is (year, quarter)", f"the chronological key is `{A.unparse(ife.body)}`, not (year, quarter)", node=ife)


F = "src/pkgcore/ebuild/pkg_updates.py"
MUTANTS = [
    {"name": "groups-off-by-one", "file": F, "old": "if match.re.groups >= 2 else ()", "new": "if match.re.groups > 2 else ()", "rule": "R1"},
    {"name": "quarter-then-year", "file": F, "old": "key = (match.group(2), match.group(1))", "new": "key = (match.group(1), match.group(2))", "rule": "R1"},
    {"name": "revert-unsorted-listing", "file": F, "old": "    return [filename for _key, filename in sorted(files)]", "new": "    return [filename for _key, filename in files]", "rule": "R1"},
    {"name": "moved-per-file", "file": F, "old": "def _process_updates(sequence, filename, mods, moved):\n", "new": "def _process_updates(sequence, filename, mods, moved=None):\n    if moved is None:\n        moved = {}\n", "rule": "R2"},
    {"name": "link-existing-tail", "file": F, "old": "            d = deque()\n            mods[src.key][1].extend([(\"move\", src, trg), d])\n            # start essentially a new checkpoint in the trg\n            mods[trg.key][1].append(d)\n            mods[trg.key][1] = d\n", "new": "            mods[src.key][1].extend([(\"move\", src, trg), mods[trg.key][1]])\n", "rule": "R3"},
    {"name": "target-tail-not-advanced", "file": F, "old": "            mods[trg.key][1].append(d)\n            mods[trg.key][1] = d\n", "new": "            mods[trg.key][1].append(d)\n", "rule": "R3"},
    {"name": "redundant-slotmove-recorded", "file": F, "old": "                    f\"{src} was already moved to {moved[src.key]}, \"\n                    \"this line is redundant\"\n                )\n                continue\n            elif src.slot is not None:", "new": "                    f\"{src} was already moved to {moved[src.key]}, \"\n                    \"this line is redundant\"\n                )\n            elif src.slot is not None:", "rule": "R4"},
    {"name": "revert-malformed-raises", "file": F, "old": "            try:\n                src, trg = atom(line[1]), atom(line[2])\n            except MalformedAtom as e:\n                logger.error(\n                    f\"file {filename!r}: {raw_line!r} on line {lineno}: {e}\"\n                )\n                continue\n", "new": "            src, trg = atom(line[1]), atom(line[2])\n", "rule": "R5"},
    {"name": "bad-move-form-processed", "file": F, "old": "                    f\"file {filename!r}: {raw_line!r} on line {lineno}: bad move form\"\n                )\n                continue\n", "new": "                    f\"file {filename!r}: {raw_line!r} on line {lineno}: bad move form\"\n                )\n", "rule": "R5"},
]
TWINS = []
