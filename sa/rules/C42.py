"""C42 — package move updates follow move chains in file order."""
import ast
import re as _re

from ..core import astutil as A
from ..core.model import dotted

META = {
    "technique": "constant evaluation of the sort-key guard against the group counts of the EAPI update_regex literals (parsed, not run), object-lifetime rule for the cross-file `moved` map (created once, passed to every per-file call, never rebound), freshness rule for the checkpoint linked into a move source's chain (a deque constructed for this move, never an existing tail), guard-precedes-effect rule for redundant moves, error-discipline rule (every atom construction in the line parser is under a MalformedAtom -> log + continue), flattening shape",
    "level": "Decides the structural clauses: quarter-named files are ordered by (year, quarter) exactly for the regex that has those two groups, and by name otherwise; the already-moved bookkeeping spans all files; a move links the source's chain to a NEW checkpoint opened in the target, so only commands recorded for the target afterwards are picked up; a move/slotmove of an already moved name changes nothing; lines with a wrong field count, a versioned or malformed atom, a slotted slotmove source or an unknown command are skipped without effect; the per-name command list is the flattening of its chain from its start point. Does NOT decide concrete update sets.",
    "note": "",
}
MOD = "pkgcore.ebuild.pkg_updates"
OPS = {ast.GtE: lambda a, b: a >= b, ast.Gt: lambda a, b: a > b, ast.Eq: lambda a, b: a == b, ast.NotEq: lambda a, b: a != b, ast.Lt: lambda a, b: a < b, ast.LtE: lambda a, b: a <= b}


def run(ctx):
    P = ctx.program
    ctx.explanation = META["level"]
    sd = P.func(MOD, "_scan_directory")
    # ---- R1 ordering key ---------------------------------------------------------------------------
    regs = set()
    em = P.module("pkgcore.ebuild.eapi")
    for n in ast.walk(ast.parse(em.src)):
        if isinstance(n, ast.Dict):
            for k, v in zip(n.keys, n.values):
                if isinstance(k, ast.Constant) and k.value == "update_regex" and isinstance(v, ast.Call) and dotted(v.func) == "re.compile" and isinstance(v.args[0], ast.Constant):
                    regs.add(v.args[0].value)
    ctx.require(regs, "eapi.py: update_regex literals not found")
    keys = [(t, v) for t, v, _ in A.assignments(sd.node, "key")]
    has_key = ctx.check("R1", sd, len(keys) == 1 and isinstance(keys[0][1], ast.IfExp), "chronological-key-present", "update files get a (year, quarter) sort key",
                        "_scan_directory computes no chronological sort key: quarter-named update files are applied in listing / plain name order (1Q-2020 before 4Q-2019)", node=sd.node)
    if has_key:
        _key_rules(ctx, sd, keys, regs)
    t = A.unparse(sd.node)
    ctx.check("R1", sd, "files.append((key, filename))" in t and "return [filename for _key, filename in sorted(files)]" in t.replace("(_key, filename)", "_key, filename"), "sorted-by-key", "files are returned sorted by (key, name): listing order cannot matter")
    ctx.check("R1", sd, "if match is not None" in t and "logger.error" in t, "misnamed-skipped", "files not matching the regex are skipped")
    ctx.floor("R1", 6)

    # ---- R2 moved map spans files ----------------------------------------------------------------------
    ru = P.func(MOD, "read_updates")
    pu = P.func(MOD, "_process_updates")
    mv = [st for t_, v, st in A.assignments(ru.node, "moved")]
    loops = [n for n in A.body_walk(ru.node) if isinstance(n, ast.For)]
    ctx.require(loops, "read_updates: file loop not found")
    calls = [c for c in A.calls(loops[0]) if dotted(c.func) == "_process_updates"]
    ctx.require(len(calls) == 1, "read_updates: _process_updates call not found")
    ok = len(mv) == 1 and mv[0] in ru.node.body and mv[0].lineno < loops[0].lineno and len(calls[0].args) == 4 and A.unparse(calls[0].args[3]) == "moved" and A.unparse(calls[0].args[2]) == "mods"
    ctx.check("R2", ru, ok, "moved-created-once-passed-always", "one `moved` map (and one `mods` table) is created before the file loop and handed to every file",
              "read_updates no longer shares one `moved` map across files: a redundant move in a LATER file than the original move is applied again", node=calls[0])
    rebound = [st for t_, v, st in A.assignments(pu.node, "moved")]
    dflt = pu.node.args.defaults
    ctx.check("R2", pu, not rebound and not dflt, f"moved-never-rebound:{len(rebound)}+{len(dflt)}", "_process_updates neither defaults nor rebinds `moved`",
              "_process_updates creates its own `moved` map (default/rebinding): the bookkeeping is reset for every update file", node=pu.node)
    ctx.floor("R2", 2)

    # ---- R3 fresh checkpoint -----------------------------------------------------------------------------
    mvif = [n for n in A.body_walk(pu.node) if isinstance(n, ast.If) and A.unparse(n.test) == "line[0] == 'move'"]
    ctx.require(len(mvif) == 1, "_process_updates: move branch not found")
    mb = mvif[0].body
    ext = [c for s in mb for c in A.calls(s) if A.call_attr(c) == "extend" and A.unparse(c.func.value) == "mods[src.key][1]"]
    ctx.require(len(ext) == 1 and isinstance(ext[0].args[0], ast.List) and len(ext[0].args[0].elts) == 2, "_process_updates: chain extension of the move source not found")
    link = ext[0].args[0].elts[1]
    fresh = isinstance(link, ast.Name) and any(isinstance(s, ast.Assign) and A.unparse(s.targets[0]) == link.id and A.unparse(s.value) == "deque()" and s.lineno < ext[0].lineno for s in mb)
    ctx.check("R3", pu, fresh, f"links-fresh-checkpoint:{A.unparse(link)[:30]}", "the source's chain continues in a deque created for this move",
              f"the move source's chain is linked to `{A.unparse(link)}`, an existing deque of the target: the source also picks up commands recorded for the target BEFORE it became a move target (and move cycles make the structure self-referential)", node=ext[0])
    ctx.check("R3", pu, A.unparse(ext[0].args[0].elts[0]) == "('move', src, trg)", "move-recorded", "the move itself is recorded in the source's chain")
    if fresh:
        seq = [A.unparse(s) for s in mb]
        i1 = next((i for i, s in enumerate(seq) if s == f"mods[trg.key][1].append({link.id})"), None)
        i2 = next((i for i, s in enumerate(seq) if s == f"mods[trg.key][1] = {link.id}"), None)
        ctx.check("R3", pu, i1 is not None and i2 is not None and i1 < i2, "checkpoint-opened-in-target", "the same deque is appended to the target's tail and becomes the target's new tail (later target commands land in it)",
                  "the new checkpoint is not installed as the target's tail: commands recorded for the target after the move are not seen through the source", node=mvif[0])
    ctx.floor("R3", 3)

    # ---- R4 redundant moves -------------------------------------------------------------------------------
    sm = mvif[0].orelse[0] if mvif[0].orelse and isinstance(mvif[0].orelse[0], ast.If) else None
    ctx.require(sm is not None and A.unparse(sm.test) == "line[0] == 'slotmove'", "_process_updates: slotmove branch not found")
    for name, body in (("move", mb), ("slotmove", sm.body)):
        guards = [s for s in A.walk(ast.Module(body=body, type_ignores=[])) if isinstance(s, ast.If) and A.unparse(s.test) == "src.key in moved"]
        effects = [c for s in body for c in A.calls(s) if A.call_attr(c) in ("extend", "append") and "mods[" in A.unparse(c.func)]
        ok = len(guards) == 1 and isinstance(guards[0].body[-1], ast.Continue) and effects and all(guards[0].lineno < c.lineno for c in effects)
        ctx.check("R4", pu, ok, f"redundant-skipped:{name}", f"{name}: an already-moved source is skipped before anything is recorded",
                  f"{name} of an already-moved name is no longer skipped before recording", node=body[0])
    st = [s for s in mb if isinstance(s, ast.Assign) and A.unparse(s.targets[0]) == "moved[src.key]"]
    ctx.check("R4", pu, len(st) == 1 and A.unparse(st[0].value) == "trg" and not any(A.unparse(t_) == "moved[src.key]" for t_, v, _ in A.assignments(ast.Module(body=sm.body, type_ignores=[]))), "moved-recorded-by-moves-only", "only a move marks its source as moved")
    ctx.floor("R4", 3)

    # ---- R5 malformed lines skipped -----------------------------------------------------------------------------
    n_at = 0
    for c in A.calls(pu.node):
        if dotted(c.func) != "atom":
            continue
        n_at += 1
        tr = next((p for p in A.parents(c) if isinstance(p, ast.Try) and any(A.contains_node(s, c) for s in p.body)), None)
        ok = tr is not None and any(h.type is not None and "MalformedAtom" in A.unparse(h.type) and isinstance(h.body[-1], ast.Continue) for h in tr.handlers)
        ctx.check("R5", pu, ok, f"malformed-atom-skipped:{A.unparse(c)[:30]}", f"`{A.unparse(c)[:40]}`: a malformed atom logs and skips the line",
                  f"`{A.unparse(c)}` is not under a MalformedAtom handler: a malformed atom in an updates file raises out of read_updates instead of the line being skipped", node=c)
    ctx.check("R5", pu, n_at >= 5, f"atom-sites:{n_at}", f"{n_at} atom constructions inspected")
    for cond, what in (("len(line) != 3", "move field count"), ("len(line) != 4", "slotmove field count"), ("src.fullver is not None", "versioned move source"), ("trg.fullver is not None", "versioned move target"), ("src.slot is not None", "slotted slotmove source"), ("not line", "empty line")):
        ifs = [n for n in A.walk(pu.node) if isinstance(n, ast.If) and A.unparse(n.test) == cond]
        ctx.check("R5", pu, len(ifs) == 1 and isinstance(ifs[0].body[-1], ast.Continue), f"bad-line-skipped:{cond}", f"{what}: logged and skipped", f"a line with {what} is no longer skipped", node=pu.node)
    els = sm.orelse
    ctx.check("R5", pu, len(els) == 1 and "unknown command" in A.unparse(els[0]) and not any(A.call_attr(c) in ("append", "extend") for c in A.calls(els[0])), "unknown-command-ignored", "an unknown command is logged and has no effect")
    ctx.floor("R5", 12)

    # ---- R6 flattening ---------------------------------------------------------------------------------------------
    t = A.unparse(ru.node)
    ctx.check("R6", ru, "{k: list(iflatten_instance(v[0], tuple)) for k, v in mods.items()}" in t.replace("(k, v)", "k, v"), "flatten-from-start", "a name's commands are the flattening of its chain from its start point")
    ctx.check("R6", ru, "{k: v for k, v in commands.items() if v}" in t.replace("(k, v)", "k, v"), "empty-dropped", "names without commands are dropped")
    ctx.check("R6", ru, "return [d, d]" in t and "mods = defaultdict(f)" in t, "start-equals-tail-initially", "a new name starts with start == tail")
    ctx.check("R6", pu, "mods[src.key][1].append(('slotmove', src_slot, line[3]))" in A.unparse(pu.node), "slotmove-recorded", "a slotmove is recorded at the source's tail")
    ctx.floor("R6", 4)


def _key_rules(ctx, sd, keys, regs):
    ife = keys[0][1]
    test = ife.test
    ctx.require(isinstance(test, ast.Compare) and A.unparse(test.left) == "match.re.groups" and isinstance(test.comparators[0], ast.Constant) and type(test.ops[0]) in OPS, f"_scan_directory: sort key guard `{A.unparse(test)}` not understood")
    for rx_ in sorted(regs):
        g = _re.compile(rx_).groups  # group count of a literal: compiling a constant pattern, nothing of pkgcore runs
        taken = OPS[type(test.ops[0])](g, test.comparators[0].value)
        quarter = g >= 2
        used = sorted({int(c.args[0].value) for c in A.calls(ife.body) if A.call_attr(c) == "group" and c.args and isinstance(c.args[0], ast.Constant)})
        ctx.check("R1", sd, taken == quarter and (not taken or max(used, default=0) <= g), f"key-guard:{rx_}:{'taken' if taken else 'skipped'}", f"regex {rx_!r} ({g} groups): chronological key {'used' if taken else 'not used (plain name order)'}",
                  f"for update_regex {rx_!r} ({g} groups) the guard `{A.unparse(test)}` is {taken}: " + ("quarter-named files get no (year, quarter) key and are applied in plain filename order (1Q-2020 before 4Q-2019)" if quarter else "group(2) does not exist for this regex"), node=ife)
    q = [r for r in regs if _re.compile(r).groups >= 2]
    ctx.check("R1", sd, len(q) == 1 and q[0] == "^([1-4])Q-(\\d{4})$", "quarter-regex", "the quarter form is <quarter>Q-<year>: group 1 quarter, group 2 year")
    ctx.check("R1", sd, A.unparse(ife.body) == "(match.group(2), match.group(1))", "year-then-quarter", "the key is (year, quarter)", f"the chronological key is `{A.unparse(ife.body)}`, not (year, quarter)", node=ife)


F = "src/pkgcore/ebuild/pkg_updates.py"
MUTANTS = [
    {"name": "groups-off-by-one", "file": F, "old": "if match.re.groups >= 2 else ()", "new": "if match.re.groups > 2 else ()", "rule": "R1"},
    {"name": "quarter-then-year", "file": F, "old": "key = (match.group(2), match.group(1))", "new": "key = (match.group(1), match.group(2))", "rule": "R1"},
    {"name": "revert-unsorted-listing", "file": F, "old": "    return [filename for _key, filename in sorted(files)]", "new": "    return [filename for _key, filename in files]", "rule": "R1"},
    {"name": "moved-per-file", "file": F, "old": "def _process_updates(sequence, filename, mods, moved):\n", "new": "def _process_updates(sequence, filename, mods, moved=None):\n    if moved is None:\n        moved = {}\n", "rule": "R2"},
    {"name": "link-existing-tail", "file": F, "old": "            d = deque()\n            mods[src.key][1].extend([(\"move\", src, trg), d])\n            # start essentially a new checkpoint in the trg\n            mods[trg.key][1].append(d)\n            mods[trg.key][1] = d\n", "new": "            mods[src.key][1].extend([(\"move\", src, trg), mods[trg.key][1]])\n", "rule": "R3"},
    {"name": "target-tail-not-advanced", "file": F, "old": "            mods[trg.key][1].append(d)\n            mods[trg.key][1] = d\n", "new": "            mods[trg.key][1].append(d)\n", "rule": "R3"},
    {"name": "redundant-slotmove-recorded", "file": F, "old": "                    f\"{src} was already moved to {moved[src.key]}, \"\n                    \"this line is redundant\"\n                )\n                continue\n            elif src.slot is not None:", "new": "                    f\"{src} was already moved to {moved[src.key]}, \"\n                    \"this line is redundant\"\n                )\n            elif src.slot is not None:", "rule": "R4"},
    {"name": "revert-malformed-raises", "file": F, "old": "            try:\n                src, trg = atom(line[1]), atom(line[2])\n            except MalformedAtom as e:\n                logger.error(\n                    f\"file {filename!r}: {raw_line!r} on line {lineno}: {e}\"\n                )\n                continue\n", "new": "            src, trg = atom(line[1]), atom(line[2])\n", "rule": "R5"},
    {"name": "bad-move-form-processed", "file": F, "old": "                    f\"file {filename!r}: {raw_line!r} on line {lineno}: bad move form\"\n                )\n                continue\n", "new": "                    f\"file {filename!r}: {raw_line!r} on line {lineno}: bad move form\"\n                )\n", "rule": "R5"},
]
TWINS = []
