"""C33 — install helpers create exactly the requested image entries (placement/mode tables, ordering and guard rules)."""
import ast
import os
import re

from ..core import generic as G
from ..core import astutil as A
from ..core import bashlex as B
from ..core import match as M
from ..core.model import dotted

META = {
    "technique": "cross-language table agreement (helper scripts' destination/option tables vs a frozen PMS table; every IPC helper script has a Python handler; every option a script passes exists in the Python parser), ordering rule (chown before chmod), guard rule on destination replacement (no symlink-following existence test in front of the unlink; copy does not follow symlinks), contradiction rule on the `rsplit(sep,1)[0]` directory idiom (must be guarded for the no-separator case, as its sibling is), presence of the PMS rejections, EAPI-gate agreement",
    "level": "Decides the structural clauses: each do*/new* helper script sends the PMS destination (into/insinto/exeinto/docinto roots, fixed /usr/share/... roots, /etc/{conf.d,init.d,env.d}, /usr/include) and option variables; default modes are the PMS ones (0644 docs/man/info/mo/html/static libs, 0755 bin/sbin/shared libs/dirs); ownership is applied before the mode so set-id bits survive; an existing destination (dangling symlink included) is removed unconditionally before copying and the copy never writes through a symlink; the link directory of `dosym -r` is os.path.dirname (no-slash names resolve against '/'); directories without -r, a missing link name and man pages without a section are rejected; -r/dodoc -r/doman language handling are gated by the EAPI options PMS names. Does NOT decide the resulting trees for concrete inputs.",
    "note": "",
}
META["technique"] += "; " + 'class-level write ban on the helper implementations'
META["level"] += " Added after the second round of independent changes: " + "(R6) no helper call edits a class-level default (dohtml's extension list, option tables)."
META["technique"] += "; " + 'generic pack G on the anchored files (optional-flag shift, closures outliving a loop iteration, single-pass iterables consumed twice, %-templates built from data, in-place writes to class-level / memoised objects, generators mutating what they yielded, memo keys that are projections)'
MOD = "pkgcore.ebuild.ebd_ipc"
HELPERS = "data/lib/pkgcore/ebd/helpers"
# helper -> (--dest expression as written in the script, PMS source)
PMS_DEST = {
    "dobin": '${PKGCORE_DESTTREE}/bin', "dosbin": '${PKGCORE_DESTTREE}/sbin', "doins": '${PKGCORE_INSDESTTREE}', "doexe": '${PKGCORE_EXEDESTTREE}',
    "dodoc": '/usr/share/doc/${PF}/${PKGCORE_DOCDESTTREE}', "dohtml": '/usr/share/doc/${PF}/${PKGCORE_DOCDESTTREE:-html}', "doman": "/usr/share/man", "doinfo": "/usr/share/info",
    "dolib": '${PKGCORE_DESTTREE}/$(__get_libdir lib)',
}
PMS_REDIRECT = {"doconfd": ("PKGCORE_INSDESTTREE", "/etc/conf.d", "doins"), "doenvd": ("PKGCORE_INSDESTTREE", "/etc/env.d", "doins"), "doinitd": ("PKGCORE_EXEDESTTREE", "/etc/init.d", "doexe"),
                "doheader": ("PKGCORE_INSDESTTREE", "/usr/include", "doins")}
PMS_OPTVARS = {"doins": {"insoptions": "${INSOPTIONS}", "diroptions": "${DIROPTIONS}"}, "doexe": {"insoptions": "${EXEOPTIONS}"}, "dodir": {"diroptions": "${DIROPTIONS}"}, "keepdir": {"diroptions": "${DIROPTIONS}"},
               "dolib": {"insoptions": "${LIBOPTIONS}"}}
PY_DEFAULT_MODES = {"Dodoc": ("insoptions_default", "-m0644"), "Doinfo": ("insoptions_default", "-m0644"), "Doman": ("insoptions_default", "-m0644"), "Domo": ("insoptions_default", "-m0644"),
                    "Dohtml": ("insoptions_default", "-m0644"), "Dodir": ("diroptions_default", "-m0755")}


def helper_files(P):
    out = {}
    for rel, bf in P.bash.items():
        if rel.startswith(HELPERS + "/") and not bf.src.startswith("#!symlink"):
            out[rel] = bf
    return out


def options_of(src):
    """--name=value words of the (last) OPTIONS=( ... ) array assignment."""
    body = None
    for c in B.commands(src):
        for w in c.assigns + c.words:
            if w.startswith("OPTIONS=("):
                body = w[len("OPTIONS=("):-1]
    if body is None:
        return None
    out = {}
    for kind, w, _ in B.tokens(body):
        if kind != "word":
            continue
        if w.startswith('"') and w.endswith('"'):
            w = w[1:-1]
        m = re.match(r"--([a-z]+)=(.*)$", w, re.S)
        if m:
            out[m.group(1)] = m.group(2).replace('\\"', "")
    return out


def run(ctx):
    P = ctx.program
    ctx.explanation = META["level"]
    IW = P.cls(MOD, "_InstallWrapper")
    # ---- R1 placement / option tables ---------------------------------------------------------------
    hf = helper_files(P)
    ctx.require(len(hf) >= 40, f"only {len(hf)} helper scripts found under {HELPERS}")
    by_name = {}
    for rel, bf in hf.items():
        by_name.setdefault(os.path.basename(rel), []).append((rel, bf))
    ipc = {n: v for n, v in by_name.items() if any(bf.src.startswith("#!/usr/bin/env pkgcore-ipc-helper") for _, bf in v)}
    py_opts = set()
    for st in IW.node.body:
        for c in A.calls(st):
            if A.unparse(c.func) == "parser.add_argument" and c.args and isinstance(c.args[0], ast.Constant):
                py_opts.add(c.args[0].value.lstrip("-"))
    ctx.check("R1", IW, py_opts == {"dest", "insoptions", "diroptions"}, f"python-options:{sorted(py_opts)}", "the Python side accepts --dest, --insoptions, --diroptions")
    for name, want in sorted(PMS_DEST.items()):
        files = [x for x in ipc.get(name, []) if "0/src_install" in x[0]]
        ctx.require(files, f"helper script {name} not found")
        rel, bf = files[0]
        o = options_of(bf.src) or {}
        ctx.check("R1", rel, o.get("dest") == want, f"dest:{name}={o.get('dest')}", f"{name} installs into {want}",
                  f"helper script {name} sends --dest={o.get('dest')!r}; PMS places {name} under {want}", node=1)
    domo = [x for x in ipc.get("domo", []) if "0/src_install" in x[0]]
    ctx.require(domo, "helper script domo not found")
    ctx.check("R1", domo[0][0], '--dest=\\"${PKGCORE_DESTTREE}/share/locale\\"' in domo[0][1].src and "--dest=/usr/share/locale" in domo[0][1].src and "PKGCORE_HAS_DESTREE" in domo[0][1].src, "dest:domo", "domo installs into DESTTREE/share/locale (or /usr/share/locale where DESTTREE is gone)")
    for name, (var, val, cmd) in sorted(PMS_REDIRECT.items()):
        files = ipc.get(name, [])
        ctx.require(files, f"helper script {name} not found")
        rel, bf = sorted(files)[0]
        cs = {c.assigns[0] if c.assigns else " ".join(c.words) for c in B.commands(bf.src)}
        ctx.check("R1", rel, f"{var}={val}" in cs and f"IPC_CMD={cmd}" in cs, f"redirect:{name}", f"{name} = {cmd} into {val}", f"helper script {name} no longer maps to `{cmd}` into {val}", node=1)
    for name, want in sorted(PMS_OPTVARS.items()):
        rel, bf = [x for x in ipc[name] if "0/src_install" in x[0]][0]
        o = options_of(bf.src) or {}
        for k, v in want.items():
            ctx.check("R1", rel, o.get(k) == v, f"optvar:{name}.{k}={o.get(k)}", f"{name} passes {v} as --{k}", f"helper script {name} passes --{k}={o.get(k)!r}, PMS uses {v}", node=1)
    n_opt = 0
    for name, files in sorted(ipc.items()):
        for rel, bf in files:
            o = options_of(bf.src)
            if o:
                n_opt += 1
                ctx.check("R1", rel, set(o) <= py_opts, f"options-known:{name}:{sorted(set(o) - py_opts)}", f"{name}: every option it sends exists on the Python side", node=1)
    dl = [x for x in ipc["dolib"] if "0/src_install" in x[0]][0][1].src
    ctx.check("R1", "dolib", re.search(r'dolib\.so" \]\];\s*then\s*LIBOPTIONS="-m0755"', dl) is not None and re.search(r'dolib\.a" \]\];\s*then\s*LIBOPTIONS="-m0644"', dl) is not None, "libmodes", "dolib.so 0755, dolib.a 0644")
    # every ipc helper name (after IPC_CMD redirects) has a Python handler
    reg = None
    for m in P.cls("pkgcore.ebuild.ebd", "ebd").methods.values():
        for t_, v, _ in A.assignments(m.node):
            if A.unparse(t_) == "self._ipc_helpers" and isinstance(v, ast.Dict):
                reg = {k.value: A.unparse(val.func) for k, val in zip(v.keys, v.values)}
    ctx.require(reg, "ebd._ipc_helpers registry not found")
    for name, files in sorted(ipc.items()):
        if name in ("pkgcore-ipc-helper", "_generic_new"):
            continue
        tgt = name
        for rel, bf in files:
            m = re.search(r"^IPC_CMD=(\S+)$", bf.src, re.M)
            if m:
                tgt = m.group(1)
        ctx.check("R1", files[0][0], tgt in reg, f"handler:{name}->{tgt}", f"helper {name} is served by {reg.get(tgt)}", f"helper script {name} sends IPC command {tgt!r}, which has no Python handler", node=1)
    for cn, (attr, val) in sorted(PY_DEFAULT_MODES.items()):
        c = P.cls(MOD, cn)
        got = A.try_literal(c.assigns.get(attr), default=None) if c.assigns.get(attr) is not None else None
        ctx.check("R1", c, got == val, f"default-mode:{cn}={got}", f"{cn}: default {attr.split('_')[0]} {val}", f"{cn}.{attr} is {got!r}; PMS default is {val}", node=c.node)
    db = P.func(MOD, "Dobin.parse_install_options")
    ctx.check("R1", db, M.has(db.node, "self.opts.insoptions = ['-m0755', f'-g{os_data.root_gid}', f'-o{os_data.root_uid}']\nreturn super().parse_install_options(...)"), "dobin-mode-owner", "dobin/dosbin: 0755 root:root")
    ipd = [c for st in IW.node.body for c in A.calls(st) if M.pat("install_parser.add_argument(..., '--mode', ...)").matches(c)]
    ctx.check("R1", IW, len(ipd) == 1 and M.pat("install_parser.add_argument(..., default=493)").matches(ipd[0]) is not None, "install-default-mode", "`install` default mode 0755")
    ctx.floor("R1", 45)

    # ---- R2 ownership before mode ----------------------------------------------------------------------------
    sa = IW.methods["_set_attributes"]
    ch = [c for c in A.calls(sa.node) if dotted(c.func) in ("os.lchown", "os.chown")]
    cm = [c for c in A.calls(sa.node) if dotted(c.func) == "os.chmod"]
    ctx.require(ch and cm, "_set_attributes: chown/chmod not found")
    ctx.check("R2", sa, all(a.lineno < b.lineno for a in ch for b in cm), "chown-before-chmod", "ownership is set before the mode (chown clears set-uid/set-gid bits)",
              "_set_attributes applies chmod BEFORE chown: chown(2) clears set-uid/set-gid bits, so a requested 04711 with -o/-g ends up 0711", node=cm[0])
    ctx.check("R2", sa, all(dotted(c.func) == "os.lchown" for c in ch) and all(_under_if(c, "not os.path.islink(path)") for c in cm), "no-follow", "ownership does not follow symlinks; mode is not applied to symlinks")
    ctx.floor("R2", 2)

    # ---- R3 destination replacement ------------------------------------------------------------------------------
    ins = IW.methods["_install"]
    ul = [c for c in A.calls(ins.node) if dotted(c.func) == "os.unlink"]
    ctx.require(len(ul) == 1, "_install: removal of an existing destination not found")
    guards = [A.unparse(p.test) for p in A.parents(ul[0]) if isinstance(p, (ast.If, ast.While)) and p is not ins.node]
    bad = [g_ for g_ in guards if re.search(r"os\.path\.(exists|isfile|isdir)\(", g_)]
    ctx.check("R3", ins, not bad, f"unconditional-removal:{bad[0][:30] if bad else ''}", "an existing destination is removed without a symlink-following existence test in front",
              f"_install removes the destination only under `{bad[0] if bad else ''}`: os.path.exists follows symlinks, so a dangling symlink at the destination stays and the copy is written through it (outside the requested entry)", node=ul[0])
    cp = [c for c in A.calls(ins.node) if dotted(c.func) == "shutil.copyfile"]
    ctx.check("R3", ins, len(cp) == 1 and any(k.arg == "follow_symlinks" and A.is_const(k.value, False) for k in cp[0].keywords), "copy-no-follow", "the copy does not follow symlinks")
    # the (source, dest) pair of one request, named by role: loop variables over the prefixed targets
    loop = M.one(ins.node, "for $src, $dst in self._prefix_targets($_):\n    ...")
    E = dict(loop.env) if loop else {}
    same_dest = bool(loop) and cp and M.pat("os.unlink($dst)").matches(ul[0], E) is not None and M.pat("shutil.copyfile($src, $dst, ...)").matches(cp[0], E) is not None
    ctx.check("R3", ins, bool(same_dest) and ul[0].lineno < cp[0].lineno, "remove-before-copy", "removal precedes the copy")
    allowed = M.one(loop.node, "try:\n    $st = os.stat($src)\nexcept OSError as $e:\n    raise IpcCommandError($_)\nself._is_install_allowed($src, $st, $dst)", E) if loop else None
    gate = [c for c in A.calls(ins.node) if A.unparse(c.func) == "self._is_install_allowed"]
    ctx.check("R3", ins, allowed is not None and len(gate) == 1 and A.stmt_of(gate[0]) in loop.node.body and gate[0].lineno < ul[0].lineno, "identical-rejected", "installing a file onto itself is rejected first")
    ctx.floor("R3", 4)

    # ---- R4 directory-of idiom -------------------------------------------------------------------------------------
    rd = P.func("pkgcore.ebuild.misc", "get_relative_dosym_target")
    n_idiom = 0
    n_idiom_rd = 0
    for fn in [rd] + [m for c in P.all_classes() if c.module.name == MOD for m in c.methods.values()]:
        for n in A.walk(fn.node):
            if isinstance(n, ast.Subscript) and A.is_const(n.slice, 0) and isinstance(n.value, ast.Call) and A.call_attr(n.value) == "rsplit" and len(n.value.args) == 2 and A.unparse(n.value.args[0]) in ("os.path.sep", "'/'"):
                n_idiom += 1
                n_idiom_rd += fn is rd
                subj = A.unparse(n.value.func.value)
                st = A.stmt_of(n)
                nm = A.unparse(st.targets[0]) if isinstance(st, ast.Assign) else None
                guarded = nm is not None and any(isinstance(x, ast.Compare) and {A.unparse(x.left), A.unparse(x.comparators[0])} == {nm, subj} for x in A.walk(fn.node))
                ctx.check("R4", fn, guarded, f"rsplit-dir-guarded:{subj}", f"`{A.unparse(n)}` (directory part) is guarded for names without a separator",
                          f"`{A.unparse(n)}` is used as the directory of `{subj}` with no guard for names without a separator (then it IS the whole name): a link name given without the initial slash gets one '..' too many", node=n)
    ctx.check("R4", rd, n_idiom >= 1, f"idiom-sites:{n_idiom}", f"{n_idiom} `rsplit(sep, 1)[0]` directory idioms inspected")
    ret = A.returns(rd.node)[-1]
    if not n_idiom_rd:
        ctx.check("R4", rd, M.pat("os.path.relpath(source, os.path.join('/', os.path.dirname(target)))").matches(ret.value) is not None, "relative-target", "dosym -r: relpath(source, '/' + dirname(link))",
                  f"get_relative_dosym_target returns `{A.unparse(ret.value)[:80]}`", node=ret)
    ds = P.func(MOD, "Dosym.run")
    tgt = M.one(ds.node.body, "$t = args.target")
    ctx.require(tgt is not None, "Dosym.run: read of the link name (args.target) not found")
    T = dict(tgt.env)
    ctx.check("R4", ds, M.has(ds.node.body, "$t = args.target\nif self.opts.relative:\n    args.source = get_relative_dosym_target(args.source, $t)\nsuper().run(args)", T), "relative-applied", "Dosym -r replaces the source by the relative target")
    ctx.floor("R4", 3)

    # ---- R5 rejections / EAPI gates ------------------------------------------------------------------------------------------
    ctx.check("R5", ds, M.has(ds.node.body, "$t = args.target\nif $t.endswith(os.path.sep) or (os.path.isdir($t) and (not os.path.islink($t))):\n    raise IpcCommandError($_)\nsuper().run(args)", T), "dosym-missing-name", "dosym rejects a target that is a directory / ends in a slash")
    ctx.check("R5", ds, M.has(ds.node.body, "if self.opts.relative:\n    if not self.dosym_relative:\n        raise IpcCommandError($_)\n    if not os.path.isabs(args.source):\n        raise IpcCommandError($_)\n    args.source = get_relative_dosym_target(...)"), "dosym-r-gated", "dosym -r: only where the EAPI allows it, only with an absolute source")
    dsi = P.func(MOD, "Dosym.__init__")
    ctx.check("R5", dsi, M.has(dsi.node, "self.dosym_relative = self.eapi.options.dosym_relative"), "dosym-r-option", "the gate reads EAPI option dosym_relative")
    SPLIT = "$files, $dirs = partition(targets, predicate=os.path.isdir)\n"
    dd = P.func(MOD, "Dodoc._install_targets")
    ctx.check("R5", dd, M.has(dd.node.body, SPLIT + "$dirs = list($dirs)\nif $dirs:\n    if self.opts.recursive and self.allow_recursive:\n        self.install_from_dirs($dirs)\n    else:\n        raise IpcCommandError($_)") and _only_under(dd, "self.install_from_dirs", "self.opts.recursive and self.allow_recursive"),
              "dodoc-dir-needs-r", "dodoc: a directory needs -r and an EAPI that allows it")
    ddi = P.func(MOD, "Dodoc.__init__")
    ctx.check("R5", ddi, M.has(ddi.node, "self.allow_recursive = self.eapi.options.dodoc_allow_recursive"), "dodoc-r-option", "the gate reads EAPI option dodoc_allow_recursive")
    di = P.func(MOD, "Doins._install_targets")
    ctx.check("R5", di, M.has(di.node.body, SPLIT + "if self.opts.recursive:\n    self.install_from_dirs($dirs)") and _only_under(di, "self.install_from_dirs", "self.opts.recursive"), "doins-r", "doins installs directories only with -r")
    dh = P.func(MOD, "Dohtml._install_targets")
    ctx.check("R5", dh, M.has(dh.node.body, SPLIT + "$dirs = list($dirs)\nif $dirs:\n    if self.opts.recursive:\n        self.install_from_dirs($_)\n    else:\n        raise IpcCommandError($_)\nself.install((($f, os.path.basename($f)) for $f in $files if self._allowed_file($f)))")
              and _only_under(dh, "self.install_from_dirs", "self.opts.recursive") and len([c for c in A.calls(dh.node) if A.unparse(c.func) == "self.install"]) == 1,
              "dohtml-dir-needs-r", "dohtml: directories need -r; only allowed files are installed")
    dm = P.func(MOD, "Doman._install_targets")
    sect = M.one(dm.node.body, "for $x in targets:\n    if self.valid_mandir_re.match(os.path.basename($mandir)):\n        self.install([($x, pjoin($mandir, $_))])\n    else:\n        raise IpcCommandError($_)")
    sect_if = next((st for st in sect.node.body if isinstance(st, ast.If) and M.has(st.test, "self.valid_mandir_re.match(os.path.basename($mandir))", sect.env)), None) if sect else None
    installs = [c for c in A.calls(dm.node) if A.unparse(c.func) in ("self.install", "self.install_dirs")]
    ctx.check("R5", dm, sect_if is not None and installs and all(any(A.contains_node(st, c) for st in sect_if.body) for c in installs), "doman-needs-section", "doman rejects pages without a valid section")
    dmi = P.func(MOD, "Doman.__init__")
    ctx.check("R5", dmi, M.has(dmi.node, "self.eapi.options.doman_language_detect") and M.has(dmi.node, "self.eapi.options.doman_language_override"), "doman-lang-options", "language handling is gated by the EAPI options")
    vm = P.cls(MOD, "Doman").assigns.get("valid_mandir_re")
    ctx.check("R5", dm, vm is not None and A.try_literal(vm.args[0]) == "man[0-9n](f|p|pm)?$", "doman-section-regex", "sections: man[0-9n] with optional f/p/pm")
    ctx.floor("R5", 10)

    # ---- R6 one helper call leaves nothing behind for the next: class-level defaults are never edited ------------------
    G.no_shared_default_writes(ctx, "R6", ["src/pkgcore/ebuild/ebd_ipc.py"])
    ctx.floor("R6", 1)

    # ---- R7 a mode the python implementation cannot apply goes to install(1); option state is per request ---------------
    pio = P.func("pkgcore.ebuild.ebd_ipc", "_InstallWrapper._parse_install_options")
    fb = [n for n in A.body_walk(pio.node) if isinstance(n, ast.If) and any(isinstance(r, ast.Return) and isinstance(r.value, ast.Constant) and r.value.value is False for b_ in n.body for r in ast.walk(b_))]
    ctx.check("R7", pio, bool(fb), "fallback-present", "_parse_install_options can hand the request to the external install command")
    for n in fb:
        asks_mode = any(isinstance(c, ast.Compare) and isinstance(c.left, ast.Attribute) and c.left.attr == "mode" and isinstance(c.ops[0], (ast.Is, ast.Eq)) and A.is_const(c.comparators[0], None) for c in ast.walk(n.test))
        ctx.check("R7", pio, asks_mode, "unparsed-mode-falls-back",
                  "a -m value that could not be parsed as octal (mode is None) falls back to install(1)",
                  f"the fallback test `{A.unparse(n.test)[:70]}` no longer looks at `mode is None`: a symbolic mode (-m u=rwx,go=rx) is accepted by the python implementation, which then "
                  f"skips chmod — files keep the umask default, an invalid mode is reported as success", node=n)
    ic = P.func("pkgcore.ebuild.ebd_ipc", "IpcCommand.__call__")
    from ..core.cfg import cfg_of
    g7 = cfg_of(ic.node)
    resets = [g7.node_of(st) for t, v, st in A.assignments(ic.node) if A.self_attr(t) == "opts" and isinstance(v, ast.Call)]
    parses = [g7.node_of(c) for c in A.calls(ic.node) if A.unparse(c.func) == "self.parse_args"]
    ok = bool(resets) and bool(parses) and g7.find_path([g7.entry], lambda n: n in parses, avoid=lambda n: n in resets) is None
    ctx.check("R7", ic, ok, "options-fresh-per-request", "every request starts from a fresh option namespace (self.opts = Namespace() before parse_args)",
              "IpcCommand.__call__ no longer creates a fresh `self.opts` before parsing: the helper object is reused for the whole operation and argparse only fills in attributes that "
              "are missing, so a flag of an earlier request (-r) stays set for later ones")
    ctx.floor("R7", 3)


def _conjuncts(test):
    return list(test.values) if isinstance(test, ast.BoolOp) and isinstance(test.op, ast.And) else [test]


def _under_if(call, cond):
    """the call sits in the TRUE branch of an `if` one of whose conjuncts is `cond`"""
    child = call
    for p in A.parents(call):
        if isinstance(p, ast.If) and any(child is st for st in p.body) and any(M.pat(cond).matches(c) for c in _conjuncts(p.test)):
            return True
        if isinstance(p, (ast.FunctionDef, ast.AsyncFunctionDef)):
            return False
        child = p
    return False


def _only_under(fn, callee, cond):
    """every call of `callee` in fn sits in the true branch of `if <cond>` (whole test, or all of cond's conjuncts among the test's)"""
    want = [A.unparse(c) for c in _conjuncts(ast.parse(cond, mode="eval").body)]
    cs = [c for c in A.calls(fn.node) if A.unparse(c.func) == callee]

    def ok(call):
        child = call
        for p in A.parents(call):
            if isinstance(p, ast.If) and any(child is st for st in p.body) and set(want) <= {A.unparse(c) for c in _conjuncts(p.test)}:
                return True
            if p is fn.node:
                return False
            child = p
        return False
    return bool(cs) and all(ok(c) for c in cs)


F = "src/pkgcore/ebuild/ebd_ipc.py"
H0 = "data/lib/pkgcore/ebd/helpers/0/src_install/"
MUTANTS = [
    {"name": "dosbin-into-bin", "file": H0 + "dosbin", "old": "${PKGCORE_DESTTREE}/sbin", "new": "${PKGCORE_DESTTREE}/bin", "rule": "R1"},
    {"name": "doexe-uses-insoptions", "file": H0 + "doexe", "old": "${EXEOPTIONS}", "new": "${INSOPTIONS}", "rule": "R1"},
    {"name": "doenvd-to-confd", "file": H0 + "doenvd", "old": "PKGCORE_INSDESTTREE=/etc/env.d", "new": "PKGCORE_INSDESTTREE=/etc/conf.d", "rule": "R1"},
    {"name": "doman-default-mode", "file": F, "old": "class Doman(_InstallWrapper):\n    \"\"\"Python wrapper for doman.\"\"\"\n\n    insoptions_default = \"-m0644\"", "new": "class Doman(_InstallWrapper):\n    \"\"\"Python wrapper for doman.\"\"\"\n\n    insoptions_default = \"-m0755\"", "rule": "R1"},
    {"name": "unknown-option", "file": H0 + "dodir", "old": "--diroptions=", "new": "--dirmode=", "rule": "R1"},
    {"name": "chmod-before-chown", "file": F, "old": "            if opts.owner != -1 or opts.group != -1:\n                os.lchown(path, opts.owner, opts.group)\n            if opts.mode is not None and not os.path.islink(path):\n                os.chmod(path, opts.mode)", "new": "            if opts.mode is not None and not os.path.islink(path):\n                os.chmod(path, opts.mode)\n            if opts.owner != -1 or opts.group != -1:\n                os.lchown(path, opts.owner, opts.group)", "rule": "R2"},
    {"name": "copy-follows-symlinks", "file": F, "old": "shutil.copyfile(source, dest, follow_symlinks=False)", "new": "shutil.copyfile(source, dest)", "rule": "R3"},
    {"name": "rsplit-dirname", "file": "src/pkgcore/ebuild/misc.py", "old": "    return os.path.relpath(source, os.path.join(\"/\", os.path.dirname(target)))", "new": "    dest_dir = target.rsplit(os.path.sep, 1)[0]\n    return os.path.relpath(source, os.path.join(\"/\", dest_dir))", "rule": "R4"},
    {"name": "doman-no-section-check", "file": F, "old": "            else:\n                raise IpcCommandError(f\"invalid man page: {x}\")", "new": "            else:\n                self.install([(x, pjoin(mandir, name))])", "rule": "R5"},
    {"name": "dosym-r-ungated", "file": F, "old": "            if not self.dosym_relative:\n                raise IpcCommandError(f\"-r not permitted in EAPI {self.eapi}\")\n", "new": "", "rule": "R5"},
]
TWINS = []
