"""C29 — package database updates are crash-consistent (publish/remove discipline)."""
import ast

from ..core import generic as G
from ..core import astutil as A
from ..core import match as M
from ..core.model import dotted

META = {
    "technique": "effect/ownership rule (every file created by a vdb/binpkg install lands under the hidden staging path; the only operations touching a LISTED path are single renames), hidden-name agreement between the writers' staging names and the repository listing filters, ordering rule over replace.finalize_data (new entry visible before the old one is dropped; removal = atomic hide then wipe), who-may-remove rule for binpkg replace",
    "level": "Decides the structural clauses: installs stage everything under a '.tmp.'-prefixed sibling of the final path and publish by one os.rename; rmtree is applied only to hidden paths (a listed entry is first renamed to a hidden name); the vdb and binpkg listings skip exactly the hidden prefix the writers use; replace publishes the new entry before dropping a differently-versioned old one, and binpkg replace is the single atomic rename (nothing unlinked first). Reports as a known finding the residual same-version vdb replace window (two renames: between them neither entry is listed — directories cannot be swapped atomically with rename()). Does NOT decide the binpkg Packages-index staleness clause (depends on whole-second mtimes at run time).",
    "note": "",
}
META["technique"] += "; " + 'filesystem-effect summaries (transitive through self.method calls): the publishing rename is the last write to the entry'
META["level"] += " Added after the second round of independent changes: " + '(R6) nothing is written or created below the live entry after the rename that lists it, nothing deletes it before (vdb install / replace, binpkg install).'
META["technique"] += "; " + 'generic pack G on the anchored files (optional-flag shift, closures outliving a loop iteration, single-pass iterables consumed twice, %-templates built from data, in-place writes to class-level / memoised objects, generators mutating what they yielded, memo keys that are projections)'
V = "pkgcore.vdb.repo_ops"
B = "pkgcore.binpkg.repo_ops"
HIDDEN = ".tmp."


def attr_defs(P, modname, clsname, attr):
    """value expressions assigned to self.<attr> in clsname.__init__ / add_data"""
    out = []
    c = P.cls(modname, clsname)
    for m in c.methods.values():
        for t, v, _ in A.assignments(m.node):
            targets = t.elts if isinstance(t, ast.Tuple) else [t]
            vals = v.elts if isinstance(t, ast.Tuple) and isinstance(v, ast.Tuple) else [v] * len(targets)
            for tt, vv in zip(targets, vals):
                if A.unparse(tt) == f"self.{attr}":
                    out.append((m, vv))
    return out


def resolve_local(fn, e):
    if isinstance(e, ast.Name):
        vs = [v for t, v, _ in A.assignments(fn.node, e.id)]
        if len(vs) == 1:
            return vs[0]
    return e


def hidden_sibling(fn, e):
    """(is hidden, dir expr text) for pjoin(<dir>, f'.tmp.…')"""
    e = resolve_local(fn, e)
    if isinstance(e, ast.Call) and dotted(e.func) == "pjoin" and len(e.args) >= 2:
        last = e.args[-1]
        pre = A.fstring_prefix(last) if isinstance(last, ast.JoinedStr) else (last.value if isinstance(last, ast.Constant) else None)
        return bool(pre) and pre.startswith(HIDDEN), ", ".join(A.unparse(a) for a in e.args[:-1])
    return False, None


def under_root(path, rootvar):
    """path is <root> or pjoin(<root>, ...), <root> = the local alias of the staging directory or self.tmp_write_path itself"""
    r = path.args[0] if isinstance(path, ast.Call) and dotted(path.func) == "pjoin" and path.args else path
    return (isinstance(r, ast.Name) and r.id == rootvar) or A.unparse(r) == "self.tmp_write_path"


def raises_always(handler):
    """the handler cannot complete normally: a bare `raise` at its top level, not preceded by another top-level exit"""
    for st in handler.body:
        if isinstance(st, ast.Raise):
            return st.exc is None
        if isinstance(st, (ast.Return, ast.Continue, ast.Break)):
            return False
    return False


META["technique"] += "; who-may-write rule for the binary repository's Packages index (AtomicWriteFile only)"
META["level"] += " (R8) every write of binpkg/remote.py's index location goes through AtomicWriteFile."


def run(ctx):
    P = ctx.program
    ctx.explanation = META["level"]
    # ---- R1 vdb staging + publish ---------------------------------------------------------------------
    vi = P.cls(V, "install")
    tmpd = attr_defs(P, V, "install", "tmp_write_path")
    insd = attr_defs(P, V, "install", "install_path")
    ctx.require(len(tmpd) == 1 and len(insd) == 1, "vdb install: tmp_write_path/install_path definitions not found")
    hid, tdir = hidden_sibling(*tmpd[0])
    _, idir = hidden_sibling(*insd[0])
    ctx.check("R1", tmpd[0][0], hid, "staging-hidden", f"vdb install stages under a `{HIDDEN}*` name", "vdb install's staging directory name does not start with '.tmp.': a fresh listing sees the half-written entry", node=tmpd[0][1])
    ctx.check("R1", tmpd[0][0], tdir == idir and tdir is not None, "staging-sibling", "the staging directory is a sibling of the final one (rename is atomic)")
    ad = vi.methods["add_data"]
    # the local write root is found by its role (the alias of self.tmp_write_path), not by its spelling
    root = M.find(ad.node, "$d = self.tmp_write_path")
    rootvar = root[0]["d"] if len(root) == 1 else None
    ctx.check("R1", ad, rootvar is not None and len(A.assignments(ad.node, rootvar)) == 1, "writes-rooted-at-staging", "add_data's write root is the staging directory")
    n = 0
    for c in A.calls(ad.node):
        d = dotted(c.func) or ""
        path = None
        if d == "open" and len(c.args) > 1 and "w" in str(A.try_literal(c.args[1], default="")):
            path = c.args[0]
        elif d == "ContentsFile":
            path = c.args[0]
        elif A.call_attr(c) == "transfer_to_path":
            path = c.args[0]
        elif d in ("ensure_dirs", "os.mkdir", "os.makedirs"):
            path = c.args[0]
        if path is None:
            continue
        n += 1
        t = A.unparse(path)
        ctx.check("R1", ad, under_root(path, rootvar), f"write-under-staging:{t[:40]}", f"`{t[:50]}` is under the staging directory",
                  f"vdb install.add_data writes `{t}` outside the hidden staging directory: a crash leaves it visible", node=c)
    ctx.check("R1", ad, n >= 7, f"write-sites:{n}", f"{n} file creations in add_data inspected")
    fi = vi.methods["finalize_data"]
    rn = [c for c in A.calls(fi.node) if dotted(c.func) == "os.rename"]
    ctx.check("R1", fi, len(rn) == 1 and A.unparse(rn[0].args[0]) == "self.tmp_write_path" and A.unparse(rn[0].args[1]) == "self.install_path", "publish-by-rename", "the entry is published by one rename of the staging directory onto the final path")
    others = [c for c in A.calls(fi.node) if (dotted(c.func) or "").startswith(("shutil.", "os.")) and c not in rn]
    ctx.check("R1", fi, not others, "publish-only-renames", "publishing does nothing else to the filesystem tree")
    ctx.floor("R1", 12)

    # ---- R2 vdb removal: hide, then wipe -----------------------------------------------------------------------
    vu = P.cls(V, "uninstall")
    hidd = attr_defs(P, V, "uninstall", "tmp_remove_path")
    remd = attr_defs(P, V, "uninstall", "remove_path")
    ctx.require(remd, "vdb uninstall: remove_path definition not found")
    hid_ok = False
    if ctx.check("R2", vu, len(hidd) == 1, "has-hidden-removal-name", "uninstall has a hidden name to move the entry to before wiping it",
                 "vdb uninstall has no hidden staging name: the entry is wiped in place", node=vu.node):
        hid_ok, hdir = hidden_sibling(*hidd[0])
        _, rdir = hidden_sibling(*remd[0])
        ctx.check("R2", vu, hid_ok, "removal-name-hidden", f"the removal staging name starts with `{HIDDEN}`")
        ctx.check("R2", vu, hdir == rdir, "removal-name-sibling", "and is a sibling of the entry")
        t1, t2 = A.unparse(tmpd[0][1]), A.unparse(hidd[0][1])
        ctx.check("R2", vu, A.fstring_prefix(resolve_local(hidd[0][0], hidd[0][1]).args[-1]) != A.fstring_prefix(resolve_local(tmpd[0][0], tmpd[0][1]).args[-1]), "removal-name-distinct", "it cannot collide with an install's staging directory of the same package")
    hidden_attrs = {"self.tmp_remove_path"} if hid_ok else set()
    n_rm = 0
    for cname in ("install", "uninstall", "replace"):
        for m in P.cls(V, cname).methods.values():
            for c in A.calls(m.node):
                if dotted(c.func) in ("shutil.rmtree", "os.unlink", "os.remove", "os.rmdir"):
                    n_rm += 1
                    a = A.unparse(c.args[0])
                    ctx.check("R2", m, a in hidden_attrs, f"removes-hidden-only:{a}", f"`{A.unparse(c)[:50]}` wipes a hidden path",
                              f"vdb {cname}.{m.name} wipes the LISTED path `{a}` in place: a crash mid-rmtree leaves a partially removed package listed as installed", node=c)
    ctx.check("R2", vu, n_rm >= 2, f"removal-sites:{n_rm}", f"{n_rm} removal sites inspected")
    he = vu.methods.get("_hide_entry")
    if ctx.check("R2", vu, he is not None, "has-hide-step", "uninstall hides the entry by rename", "vdb uninstall has no rename-to-hidden step", node=vu.node):
        rn = [c for c in A.calls(he.node) if dotted(c.func) == "os.rename"]
        ctx.check("R2", he, len(rn) == 1 and A.unparse(rn[0].args[0]) == "self.remove_path" and A.unparse(rn[0].args[1]) == "self.tmp_remove_path", "hide-is-rename", "hide = one rename of the entry to the hidden name")
    uf = vu.methods["finalize_data"]
    seq = [A.unparse(c.func) for c in A.calls(uf.node) if A.unparse(c.func).startswith(("self._", "shutil.", "os."))]
    seq = sorted(seq, key=lambda s: [c.lineno for c in A.calls(uf.node) if A.unparse(c.func) == s][0])
    ctx.check("R2", uf, seq == ["self._hide_entry", "self._wipe_hidden_entry"], f"uninstall-order:{'>'.join(seq)}", "uninstall: hide, then wipe",
              f"vdb uninstall.finalize_data runs {seq}: the entry is not hidden before it is wiped", node=uf.node)
    ctx.floor("R2", 7)

    # ---- R3 vdb replace ordering ------------------------------------------------------------------------------------
    vr = P.func(V, "replace.finalize_data")
    ifs = [n_ for n_ in vr.node.body if isinstance(n_, ast.If)]
    diff = [n_ for n_ in ifs if A.unparse(n_.test) in ("self.install_path != self.remove_path", "self.remove_path != self.install_path")]
    if ctx.check("R3", vr, len(diff) == 1, "distinguishes-same-version", "replace treats a differently-versioned old entry separately from a same-version swap",
                 "vdb replace.finalize_data no longer distinguishes upgrade from same-version replacement", node=vr.node):
        body = diff[0].body
        calls = [A.unparse(c.func) for st in body for c in A.calls(st)]
        ok = "install.finalize_data" in calls and "uninstall.finalize_data" in calls and calls.index("install.finalize_data") < calls.index("uninstall.finalize_data")
        ctx.check("R3", vr, ok, f"upgrade-order:{'>'.join(calls)}", "upgrade: the new entry is published before the old one is dropped (never neither)",
                  f"vdb replace (different versions) runs {calls}: the old entry is removed before the new one is published — a crash in between leaves neither listed", node=diff[0])
        ctx.check("R3", vr, any(isinstance(s, ast.Return) for s in body), "upgrade-returns", "the upgrade arm does not fall through to the swap")
        rest = [A.unparse(c.func) for st in vr.node.body if st is not diff[0] for c in A.calls(st) if A.unparse(c.func).startswith(("self._", "install.", "uninstall.", "shutil.", "os."))]
        ctx.check("R3", vr, rest == ["self._hide_entry", "install.finalize_data", "self._wipe_hidden_entry"], f"swap-order:{'>'.join(rest)}", "same version: hide old, publish new, wipe old",
                  f"vdb same-version replace runs {rest}", node=vr.node)
        if rest[:2] == ["self._hide_entry", "install.finalize_data"]:
            ctx.fail("R3", vr, "neither-window:same-version-swap-by-two-renames", "vdb replace of a package by the same version: between `_hide_entry` (rename old away) and `install.finalize_data` (rename new in) a crash leaves neither entry listed; rename() cannot swap two non-empty directories atomically", node=vr.node)
    else:
        calls = [A.unparse(c.func) for c in A.calls(vr.node)]
        if "uninstall.finalize_data" in calls and "install.finalize_data" in calls:
            ctx.check("R3", vr, calls.index("install.finalize_data") < calls.index("uninstall.finalize_data"), f"upgrade-order:{'>'.join(calls)}", "new entry published before the old one is dropped",
                      f"vdb replace runs {calls}: the old entry is removed before the new one is published — a crash in between leaves neither listed", node=vr.node)
    ctx.floor("R3", 2)

    # ---- R4 listing filters ------------------------------------------------------------------------------------------------
    for modname, qual, lister in (("pkgcore.vdb.ondisk", "tree._get_packages", "listdir_dirs"), ("pkgcore.binpkg.repository", "tree._get_packages", "listdir_files")):
        f = P.func(modname, qual)
        loops = [n_ for n_ in A.body_walk(f.node) if isinstance(n_, ast.For) and isinstance(n_.iter, ast.Call) and dotted(n_.iter.func) == lister]
        ctx.require(len(loops) == 1, f"{modname}:{qual}: listing loop not found")
        lv = A.unparse(loops[0].target)
        skip = [n_ for n_ in loops[0].body if isinstance(n_, ast.If) and any(isinstance(s, ast.Continue) for s in n_.body)]
        pref = set()
        for s in skip:
            for c in A.calls(s.test):
                if A.call_attr(c) == "startswith" and A.unparse(c.func.value) == lv:
                    lit = A.try_literal(c.args[0], default=None)
                    pref |= set(lit) if isinstance(lit, tuple) else {lit}
        first_use = min((n_.lineno for n_ in A.walk(loops[0]) if isinstance(n_, ast.Call) and dotted(n_.func) == "VersionedCPV"), default=None)
        ctx.check("R4", f, HIDDEN in pref, f"skips-hidden:{modname.split('.')[1]}", f"{modname}: entries named `{HIDDEN}*` are skipped",
                  f"{modname} {qual} no longer skips '{HIDDEN}*' entries: an in-progress or crashed install's staging entry is parsed as a package (InvalidCPV takes the whole category down)", node=loops[0])
        ctx.check("R4", f, bool(skip) and first_use is not None and skip[0].lineno < first_use, f"skip-before-parse:{modname.split('.')[1]}", "the skip precedes any parsing of the name")
    ctx.floor("R4", 4)

    # ---- R5 binpkg ----------------------------------------------------------------------------------------------------------------
    bi = P.cls(B, "install")
    ad = bi.methods["add_data"]
    G.staged_publication_class(ctx, "R5", B, "install", "the binary package")
    # the staged file is the local the tarball is written to; the final path is the local published as self.final_path
    tw = M.one(ad.node, "tar.write_set($_, $tmp, ...)")
    ctx.require(tw is not None, "binpkg install.add_data: tarball write to a local staging path not found")
    tmpv = tw["tmp"]
    tp = [v for t, v, _ in A.assignments(ad.node, tmpv)]
    ctx.require(len(tp) == 1, "binpkg install.add_data: tmp_path not found")
    e = tp[0]
    sm = M.pat("pjoin(os.path.dirname($final), $$name)").matches(e)
    ok = sm is not None and (A.fstring_prefix(sm["$name"]) or "").startswith(HIDDEN) and M.has(sm["$name"], "os.path.basename($final)", {"final": sm["final"]})
    pubs = {a: [A.unparse(v) for _, v in attr_defs(P, B, "install", a)] for a in ("tmp_path", "final_path")}
    ok = ok and pubs["tmp_path"] == [tmpv] and pubs["final_path"] == [sm["final"]]
    ctx.check("R5", ad, ok, "binpkg-staging", "the tarball is staged as a hidden sibling of the final path", f"binpkg staging path is `{A.unparse(e)}`", node=e)
    ws = [c for c in A.calls(ad.node) if dotted(c.func) in ("tar.write_set", "xpak.Xpak.write_xpak", "os.chmod")]
    ctx.check("R5", ad, len(ws) == 3 and all(A.unparse(c.args[1] if dotted(c.func) == "tar.write_set" else c.args[0]) == tmpv for c in ws), "binpkg-writes-staged", "tarball, xpak and chmod all operate on the staged file")
    hs = [h for n_ in A.body_walk(ad.node) if isinstance(n_, ast.Try) for h in n_.handlers]
    ctx.check("R5", ad, any(M.has(h.body, "unlink_if_exists($tmp)", {"tmp": tmpv}) and raises_always(h) for h in hs), "binpkg-failure-cleans", "a failed build removes the staged file and re-raises")
    fi = bi.methods["finalize_data"]
    rn = [c for c in A.calls(fi.node) if dotted(c.func) == "os.rename"]
    ctx.check("R5", fi, len(rn) == 1 and A.unparse(rn[0].args[0]) == "self.tmp_path" and A.unparse(rn[0].args[1]) == "self.final_path", "binpkg-publish-by-rename", "published by one rename")
    br = P.func(B, "replace.finalize_data")
    calls = [A.unparse(c.func) for c in A.calls(br.node)]
    ctx.check("R5", br, calls == ["install.finalize_data"], f"binpkg-replace-single-rename:{'>'.join(calls)}", "binpkg replace is exactly the atomic rename (a same-version tarball is overwritten in one step)",
              f"binpkg replace.finalize_data runs {calls}: anything removed before the rename opens a window in which neither the old nor the new package is listed", node=br.node)
    bu = P.func(B, "uninstall.finalize_data")
    ctx.check("R5", bu, [A.unparse(c.func) for c in A.calls(bu.node) if dotted(c.func) != "discern_loc"] == ["os.unlink"], "binpkg-uninstall-single-unlink", "binpkg uninstall is one unlink")
    ctx.floor("R5", 6)

    # ---- R6 the rename that lists the package is the last thing written to its entry -------------------------------
    for q in ("install.finalize_data", "replace.finalize_data"):
        G.publication(ctx, "R6", "pkgcore.vdb.repo_ops", q, {"self:install_path"}, "the installed-package entry")
    G.publication(ctx, "R6", B, "install.finalize_data", {"self:final_path"}, "the binary package")
    ctx.floor("R6", 3)

    # ---- R7 which finalisation order is used depends on whether old and new entry are the same directory ------------------
    rf = P.func("pkgcore.vdb.repo_ops", "replace.finalize_data")
    tests = [n for n in A.body_walk(rf.node) if isinstance(n, ast.If)]
    ctx.check("R7", rf, bool(tests), "order-decision-present", "replace.finalize_data chooses between publish-then-remove and the same-directory swap")
    if tests:
        t0 = tests[0].test
        attrs = {n.attr for n in ast.walk(t0) if isinstance(n, ast.Attribute)}
        ctx.check("R7", rf, {"install_path", "remove_path"} <= attrs, "order-decided-by-paths:" + ",".join(sorted(attrs))[:60],
                  "the decision compares the entry being published with the entry being removed (install_path vs remove_path)",
                  f"replace.finalize_data picks the finalisation order by `{A.unparse(t0)[:70]}` instead of comparing the two vdb directories: a replace whose directories differ "
                  f"although that test says 'same' (a revision bump when only .version is compared) hides the old entry BEFORE the new one is listed — a crash in between lists neither", node=tests[0])
    ctx.floor("R7", 2)

    # ---- R8 the binary repository's index is replaced, never rewritten in place ----------------------------------------
    # tree.notify_add_package -> cache.commit() -> _write_data is the last step of every binpkg install / replace; a fresh view
    # reads that file.  Every write of the index location goes through AtomicWriteFile (temp + rename, discard on error).
    from ..core import fsfx
    rm = P.module("pkgcore.binpkg.remote")
    writers = [(f_, s_) for f_ in rm.funcs.values() for s_ in fsfx.engine(P).direct(f_) if s_.op in ("write", "create", "rename") and "self:_location" in s_.srcs]
    # `open(loc, "wb").close()` only empties the file (one step: old index or the complete index of an empty repository)
    writers = [(f_, s_) for f_, s_ in writers if not (isinstance(getattr(s_.node, "_parent", None), ast.Attribute) and s_.node._parent.attr == "close")]
    ctx.require(writers, "binpkg/remote.py: no write of the index location (self._location) found")
    for f_, s_ in writers:
        atomic = isinstance(s_.node, ast.Call) and (dotted(s_.node.func) or "").split(".")[-1] == "AtomicWriteFile"
        ctx.check("R8", f_, atomic, f"index-written-atomically:{f_.name}", f"{f_.qual} writes the index through AtomicWriteFile",
                  f"{f_.qual} writes the index location with `{A.unparse(s_.node)[:60]}`: the Packages index is truncated and rewritten in place, so a crash (or a serialisation error) "
                  f"in the middle leaves a fresh view of the repository with a partial index", node=s_.node)
    ctx.floor("R8", 1)


FV = "src/pkgcore/vdb/repo_ops.py"
FB = "src/pkgcore/binpkg/repo_ops.py"
MUTANTS = [
    {"name": "staging-visible", "file": FV, "old": "        self.tmp_write_path = pjoin(base, f\".tmp.{dirname}\")", "new": "        self.tmp_write_path = pjoin(base, f\"-tmp-{dirname}\")", "rule": "R1"},
    {"name": "counter-written-to-final", "file": FV, "old": "        with open(pjoin(dirpath, \"COUNTER\"), \"w\") as f:", "new": "        with open(pjoin(self.install_path, \"COUNTER\"), \"w\") as f:", "rule": "R1"},
    {"name": "revert-wipe-in-place", "file": FV, "old": "        self._hide_entry()\n        self._wipe_hidden_entry()\n        update_mtime(self.repo.location)", "new": "        shutil.rmtree(self.remove_path)\n        update_mtime(self.repo.location)", "rule": "R2"},
    {"name": "revert-remove-before-publish", "file": FV, "old": "            install.finalize_data(self)\n            uninstall.finalize_data(self)\n            return True", "new": "            uninstall.finalize_data(self)\n            install.finalize_data(self)\n            return True", "rule": "R3"},
    {"name": "vdb-filter-dropped", "file": "src/pkgcore/vdb/ondisk.py", "old": "x.startswith((\".tmp.\", \"-MERGING-\"))", "new": "x.startswith(\"-MERGING-\")", "rule": "R4"},
    {"name": "binpkg-filter-dropped", "file": "src/pkgcore/binpkg/repository.py", "old": "                    or x.startswith(\".tmp.\")\n", "new": "", "rule": "R4"},
    {"name": "binpkg-unlink-first", "file": FB, "old": "        # transfers the new pkg in\n        install.finalize_data(self)", "new": "        # transfers the new pkg in\n        uninstall.finalize_data(self)\n        install.finalize_data(self)", "rule": "R5"},
    {"name": "binpkg-stage-elsewhere", "file": FB, "old": "            os.path.dirname(final_path),\n            f\".tmp.", "new": "            \"/var/tmp\",\n            f\".tmp.", "rule": "R5"},
]
TWINS = []

MUTANTS += [
    {"name": "packages-index-rewritten-in-place", "file": "src/pkgcore/binpkg/remote.py", "old": "                handler = AtomicWriteFile(self._location)\n", "new": "                handler = open(self._location, \"w\")\n", "rule": "R8"},
]
