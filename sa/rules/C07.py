"""C07 — restrictions that compare equal are interchangeable (structural clauses)."""
import ast

from ..core import astutil as A
from ..core.eqhash import Engine
from ..core.model import ClassInfo, FuncInfo, dotted

META = {
    "technique": "equality/hash/match field-set analysis over every restriction class (resolved MRO, snakeoil GenericEquality modelled): identity hash with structural eq, hash fields outside eq fields, non-injective normaliser on one side only, attributes read by match/force_* but not compared; decision rule on _VersionMatch negation; cache-key site enumeration; memoised-hash typestate (a cached_hash never covers a field that is still mutated in place unless the hash refuses such instances); combination rule (fields that equality identifies only through a normalising helper are read together by every match return)",
    "level": "Decides necessary conditions of 'equal => same matches and same hash' per class: (R1) no structural __eq__ paired with identity hash; (R2) hash reads only compared attributes and applies the same non-injective normaliser (set(), _convert_ops) equality applies; (R3) every instance attribute read by match/force_True/force_False is compared by equality or derived from the same constructor input as a compared attribute; (R4) negation of a version restriction changes what equality sees; (R5) the restriction-keyed caches are keyed by the restriction object itself. Does NOT decide match equality on concrete values. (R6) a memoised __hash__ refuses instances whose hashed fields can still change; (R7) match never depends on a strict subset of a field combination that equality folds together (negate/operator set).",
    "note": "attributes are assumed to vary independently; snakeoil GenericEquality/WeaklyCachedABC semantics are library facts; classes whose equality is identity are trivially consistent",
}
META["technique"] += "; " + 'proxy-object rule (GetAttrProxy): what equality compares must identify what the proxy serves'
META["level"] += " Added after the second round of independent changes: " + '(R8) a class that serves attributes through a proxy object compares the text the proxy was built from, or compares the proxy by an equality as fine as that text (CPV.__eq__ is ver_cmp based, =* matching is textual).'
META["technique"] += "; " + 'generic pack G on the anchored files (optional-flag shift, closures outliving a loop iteration, single-pass iterables consumed twice, %-templates built from data, in-place writes to class-level / memoised objects, generators mutating what they yielded, memo keys that are projections)'

NONINJECTIVE = {"set", "frozenset", "sorted", "len", ".lower", "via:_convert_ops", "ver_cmp", "cpv.ver_cmp", "stable_unique"}
MATCH_METHODS = ("match", "force_True", "force_False")
# attributes that match-like methods read without influencing the result (one line of reason each)
M1_EXEMPT = {
    ("PackageRestriction", "ignore_missing"): "only selects whether a missing attribute is logged; the result is the same",
}

QUICK_MODULES = (
    "pkgcore.restrictions.values",
    "pkgcore.restrictions.packages",
    "pkgcore.restrictions.boolean",
    "pkgcore.restrictions.restriction",
    "pkgcore.restrictions.delegated",
    "pkgcore.restrictions.util",
    "pkgcore.ebuild.restricts",
    "pkgcore.ebuild.atom",
    "pkgcore.ebuild.conditionals",
    "pkgcore.ebuild.misc",
    "pkgcore.fs.contents",
    "pkgcore.fs.fs",
    "pkgcore.resolver.plan",
)


def instance_attrs(P, K):
    """Names that are instance state: __slots__ along the MRO + attributes assigned on self in any method."""
    out = set()
    for c in P.mro(K):
        if not isinstance(c, ClassInfo):
            continue
        for nm in ("__slots__", "___slots__"):
            sl = A.try_literal(c.assigns.get(nm)) if c.assigns.get(nm) is not None else None
            if isinstance(sl, (tuple, list)):
                out |= set(sl)
            elif isinstance(sl, str):
                out.add(sl)
        for m in c.methods.values():
            ps = m.params()
            if not ps:
                continue
            for n in A.body_walk(m.node):
                if isinstance(n, (ast.Assign, ast.AugAssign, ast.AnnAssign)):
                    tg = n.targets if isinstance(n, ast.Assign) else [n.target]
                    for t in tg:
                        for x in ast.walk(t):
                            a = A.self_attr(x, ps[0])
                            if a:
                                out.add(a)
    return out


def class_constant(P, K, name):
    """True when ``name`` is a class-level constant of K that no __init__ between K and the constant's owner overrides."""
    for c in P.mro(K):
        if not isinstance(c, ClassInfo):
            return False
        if name in c.assigns and A.try_literal(c.assigns[name], default=P) is not P:
            return True
        init = c.methods.get("__init__")
        if init is not None:
            me = init.params()[0]
            vals = [v for t, v, _ in A.assignments(init.node) if A.self_attr(t, me) == name]
            if vals:
                pset = set(init.params())
                # assigned from input-free expressions only (literals / module constants)
                return all(not (A.names_in(v) & pset) for v in vals)
            sup = [x for x in A.calls(init.node) if "__init__" in (A.unparse(x.func))]
            if not sup:
                # does not chain to a parent initialiser: attributes set further up are never assigned
                nxt = [d for d in P.mro(c)[1:] if isinstance(d, ClassInfo) and name in d.assigns]
                return bool(nxt) and A.try_literal(nxt[0].assigns[name], default=P) is not P
    return False


def derivations(P, K):
    """attr -> (function fq, frozenset(source names)) for every ``self.attr = expr`` in the class hierarchy."""
    out = {}
    for c in P.mro(K):
        if not isinstance(c, ClassInfo):
            continue
        for m in c.methods.values():
            ps = m.params()
            if not ps:
                continue
            for t, v, st in A.assignments(m.node):
                a = A.self_attr(t, ps[0])
                if a and a not in out and not isinstance(v, ast.AugAssign):
                    pset = set(ps[1:])
                    bag = {x.arg for x in (m.node.args.vararg, m.node.args.kwarg) if x is not None}
                    srcs = {x.id for x in ast.walk(v) if isinstance(x, ast.Name) and x.id in pset} | {"self." + z for z in A.attrs_of(v, ps[0])}
                    if srcs & bag:
                        srcs = srcs | {"<bag:%s>" % a}  # a *args/**kwargs bag is too coarse to prove derivation
                    out[a] = (m.fq, frozenset(srcs))
    return out


def derived_from_compared(der, f, eqf):
    if f not in der:
        return False
    fq, srcs = der[f]
    srcs = {x for x in srcs if not (x.startswith("self.") and x[5:] in eqf)}
    cmp_srcs = set()
    for g in eqf:
        if g in der and der[g][0] == fq:
            cmp_srcs |= der[g][1]
    return srcs <= cmp_srcs and bool(der[f][1])


def expand_properties(P, E, K, fields):
    """equality attributes that are properties stand for the instance attributes they read"""
    out = set(fields)
    for f in list(fields):
        _, tgt = P.lookup_attr(K, f)
        if isinstance(tgt, FuncInfo):
            out |= set(E.self_reads(tgt, K))
    return out


def run(ctx):
    P = ctx.program
    E = Engine(P)
    ctx.explanation = META["level"]
    rbase = P.cls("pkgcore.restrictions.restriction", "base")
    classes = []
    for c in P.all_classes():
        if ctx.tier == "quick" and c.module.name not in QUICK_MODULES:
            continue
        classes.append(c)
    n_struct = 0
    for K in sorted(classes, key=lambda c: c.fq):
        eq = E.eq_spec(K)
        if eq["kind"] == "identity":
            continue
        hs = E.hash_spec(K)
        is_restriction = any(x is rbase for x in P.mro(K))
        if eq["kind"] == "unknown" or hs["kind"] in ("unknown",):
            if is_restriction:
                ctx.require(False, f"{K.fq}: equality/hash idiom not understood (eq={eq['kind']} hash={hs['kind']})")
            continue
        n_struct += 1
        eqf = expand_properties(P, E, K, eq["fields"])
        # ---- R1 --------------------------------------------------------------
        ctx.check("R1", K, hs["kind"] != "identity", "identity-hash",
                  f"structural equality over {sorted(eqf)} is not paired with object.__hash__",
                  f"{K.qual}: __eq__ compares {sorted(eqf)} but __hash__ is object.__hash__ (identity): equal instances hash differently")
        if hs["kind"] in ("identity", "unhashable", "external"):
            pass
        else:
            # ---- R2: hash fields subset of eq fields, same normalisers ------------
            hf = set(hs["fields"]) - {"__class__"}
            if hs["kind"] == "stored":
                hf |= set()
            der = derivations(P, K)
            for f in sorted(hf):
                covered = f in eqf or class_constant(P, K, f)
                if not covered:
                    # derived from the same inputs as compared attributes in the same function
                    covered = derived_from_compared(der, f, eqf)
                if not covered and f in K.module.classes.get(K.qual, K).methods:
                    covered = True
                owner_, tgt = P.lookup_attr(K, f)
                if not covered and isinstance(tgt, FuncInfo):
                    covered = True  # property followed by the engine; method object otherwise
                ctx.check("R2", K, covered, f"hash-extra:{f}", f"hash attribute {f!r} is compared by equality",
                          f"{K.qual}.__hash__ reads {f!r} which equality does not compare ({sorted(eqf)})")
            for f in sorted(eqf & hf):
                ew = eq["wrappers"].get(f, set()) & NONINJECTIVE
                hw = hs["wrappers"].get(f, set()) & NONINJECTIVE
                ctx.check("R2", K, not (ew - hw), f"normaliser:{f}", f"attribute {f!r}: hash applies the normalisers equality applies ({sorted(ew)})",
                          f"{K.qual}: equality compares {f!r} through {sorted(ew - hw)} but the hash reads it raw: values equal after normalisation hash differently")
        # ---- R3: match fields subset of eq fields ------------------------------------
        if is_restriction or any(m in K.methods for m in MATCH_METHODS):
            inst = instance_attrs(P, K)
            reads = E.reads(K, MATCH_METHODS)
            der = derivations(P, K)
            for f in sorted(set(reads) & inst):
                if f in eqf or f.startswith("__") or class_constant(P, K, f):
                    ok = True
                elif (K.name, f) in M1_EXEMPT or any((c.name, f) in M1_EXEMPT for c in P.mro(K) if isinstance(c, ClassInfo)):
                    ok = True
                else:
                    ok = derived_from_compared(der, f, eqf)
                ctx.check("R3", K, ok, f"match-reads-uncompared:{f}", f"match/force_* attribute {f!r} is compared by equality (or derived from a compared input)",
                          f"{K.qual}: match/force_* read {f!r}, which equality ({sorted(eqf)}) ignores: equal instances can match differently")
    # the exemptions above are claims about the code ("only the logging differs"): check them on every run
    for (cname, attr), why in sorted(M1_EXEMPT.items()):
        K = next((c for c in P.all_classes() if c.name == cname), None)
        ctx.require(K is not None, f"exempted class {cname} not found")
        n_g = 0
        for m in K.methods.values():
            me = m.params()[0] if m.params() else "self"
            for n in A.body_walk(m.node):
                if isinstance(n, ast.If) and any(isinstance(x, ast.Attribute) and x.attr == attr and isinstance(x.value, ast.Name) and x.value.id == me for x in ast.walk(n.test)):
                    n_g += 1
                    def inert(stmts):
                        return all(isinstance(st, ast.Pass) or (isinstance(st, ast.Expr) and (isinstance(st.value, ast.Constant) or (isinstance(st.value, ast.Call) and (dotted(st.value.func) or "").startswith(("logger.", "logging.", "warnings."))))) for st in stmts)
                    ctx.check("R3", m, inert(n.body) and inert(n.orelse), f"exempt-attr-decides:{cname}.{attr}",
                              f"{cname}.{attr} (not compared by equality: {why}) only switches logging in {m.name}",
                              f"{cname}.{m.name}: `{attr}`, which equality and hash ignore, now decides more than logging (`{A.unparse(n.test)[:40]}` guards "
                              f"{'a return / raise / assignment'}): two equal, equally hashed restrictions behave differently and a cache keyed by the restriction serves one the other's answer", node=n)
        ctx.check("R3", K, n_g >= 1, f"exempt-attr-still-read:{cname}.{attr}", f"{cname}.{attr} is still read under a test (exemption not stale)")
    ctx.require(n_struct >= 15, f"only {n_struct} classes with structural equality analysed; expected >= 15")
    ctx.floor("R1", 15)
    ctx.floor("R3", 20)

    # ---- R4: negation of a version restriction is visible to equality --------------
    VM = P.cls("pkgcore.ebuild.restricts", "_VersionMatch")
    eqm = VM.methods.get("__eq__")
    ctx.require(eqm is not None, "_VersionMatch.__eq__ not found")
    direct = any(
        isinstance(n, ast.Compare) and "self.negate" in A.unparse(n) and "other.negate" in A.unparse(n) for n in A.body_walk(eqm.node)
    )
    co = VM.methods.get("_convert_ops")
    helper_ok = False
    detail = "no _convert_ops helper"
    if co is not None:
        p0 = co.params()[0]
        plain, negs = [], []
        for r in A.returns(co.node):
            conds = [A.unparse(p.test) for p in A.parents(r) if isinstance(p, ast.If)]
            (negs if any(f"{p0}.negate" in c for c in conds) else plain).append(r)
        ptxt = {A.unparse(r.value) for r in plain}
        same = [r for r in negs if A.unparse(r.value) in ptxt]
        helper_ok = bool(negs) and not same
        detail = f"negated arms returning the un-negated value: {[A.unparse(r) for r in same]}"
    ctx.check("R4", eqm, direct or helper_ok, "negate-visible",
              "a negated version restriction never compares equal to the plain one (negate compared directly or every negated arm of _convert_ops differs)",
              f"_VersionMatch: equality does not see `negate` on some arm ({detail}): a negated '~' restriction equals the plain one but matches the complement")
    ctx.check("R4", VM, "negate" in E.reads(VM, ("match",)), "match-uses-negate", "match() reads negate")

    # ---- R5: cache sites keyed by the restriction itself ------------------------------
    cm = P.func("pkgcore.repository.misc", "caching_repo.match")
    p = cm.params()[1]
    subs = [n for n in A.body_walk(cm.node) if isinstance(n, ast.Subscript) and "__cache__" in A.unparse(n.value)]
    gets = [c for c in A.calls(cm.node) if A.call_attr(c) == "get" and "__cache__" in A.unparse(c.func)]
    ctx.require(subs or gets, "caching_repo.match: cache access not found")
    for n in subs:
        ctx.check("R5", cm, A.unparse(n.slice) == p, "cache-key", f"query cache is keyed by the restriction argument `{p}`", node=n)
    for c in gets:
        ctx.check("R5", cm, c.args and A.unparse(c.args[0]) == p, "cache-key-get", f"query cache lookup is keyed by `{p}`", node=c)
    im = [c for c in A.calls(cm.node) if A.call_attr(c) == "itermatch"]
    ctx.check("R5", cm, bool(im) and all(A.unparse(c.args[0]) == p for c in im if c.args), "cache-fill", "the cached iterator is produced from the same restriction", node=cm.node)
    cc = P.func("pkgcore.restrictions.required_use", "_compiled_constraints")
    deco = [A.unparse(d) for d in cc.node.decorator_list]
    ctx.check("R5", cc, any("lru_cache" in d for d in deco) and len(cc.params()) == 1, "lru-key", "compiled REQUIRED_USE is memoised on the single restriction argument")
    ctx.floor("R5", 3)

    # ---- R6: a memoised hash never covers state that can still change --------------------------------
    MUTATORS = {"append", "extend", "add", "update", "insert", "remove", "pop", "clear", "discard", "sort"}
    n6 = 0
    for K in sorted(P.all_classes(), key=lambda c: c.fq):
        hm = K.methods.get("__hash__")
        if hm is None or not any("cached_hash" in A.unparse(d) for d in hm.node.decorator_list):
            continue
        n6 += 1
        hfields = set(E.self_reads(hm, K))
        txt = A.unparse(hm.node)
        if "__attr_comparison__" in txt:
            ac = E.attr_comparison(K)[1] or ()
            hfields |= {f for f in ac if not f.startswith("__")}
        mutated = {}
        for mname, m in K.methods.items():
            if mname in ("__init__", "__hash__"):
                continue
            for c in A.calls(m.node):
                if isinstance(c.func, ast.Attribute) and c.func.attr in MUTATORS and isinstance(c.func.value, ast.Attribute) and A.unparse(c.func.value.value) == "self":
                    mutated.setdefault(c.func.value.attr, set()).add(mname)
        at_risk = sorted(hfields & set(mutated))
        if not at_risk:
            ctx.ob("R6", K, f"{K.qual}: memoised hash over {sorted(hfields)}; none of them is mutated in place")
            continue
        for f in at_risk:
            guard = [n for n in A.body_walk(hm.node) if isinstance(n, ast.If) and f"self.{f}" in A.unparse(n.test) and "isinstance(" in A.unparse(n.test) and any(isinstance(x, ast.Raise) for x in n.body)]
            first_ret = min((r.lineno for r in A.returns(hm.node)), default=10**9)
            ctx.check("R6", K, bool(guard) and guard[0].lineno < first_ret, f"memoised-hash-refuses-mutable:{f}", f"{K.qual}.__hash__ (memoised) refuses to hash while `{f}` can still be changed by {sorted(mutated[f])}",
                      f"{K.qual}.__hash__ is memoised (cached_hash) and covers `{f}`, which {sorted(mutated[f])} mutates in place, but no longer refuses unfinalised instances: a tree hashed while being assembled keeps the hash of its earlier, shorter self — equal trees hash differently and restriction-keyed caches return results of the earlier query", node=hm.node)
    ctx.check("R6", P.cls("pkgcore.restrictions.boolean", "base"), n6 >= 2, f"memoised-hash-classes:{n6}", f"{n6} classes with a memoised __hash__ inspected")
    ctx.floor("R6", 2)

    # ---- R7: fields identified by equality only in combination are read in combination by match ------------------
    n7 = 0
    for K in sorted(P.all_classes(), key=lambda c: c.fq):
        eqm_ = K.methods.get("__eq__")
        mm = K.methods.get("match")
        if eqm_ is None or mm is None:
            continue
        helpers = {}
        for c in A.calls(eqm_.node):
            if isinstance(c.func, ast.Attribute) and A.unparse(c.func.value) == "self" and c.func.attr in K.methods and c.args and A.unparse(c.args[0]) in ("self", "other"):
                h = K.methods[c.func.attr]
                p0 = h.params()[0]
                grp = {n.attr for n in A.walk(h.node) if isinstance(n, ast.Attribute) and A.unparse(n.value) == p0}
                if len(grp) >= 2:
                    helpers[c.func.attr] = grp
        for hname, grp in sorted(helpers.items()):
            direct = {n.left.attr for n in A.walk(eqm_.node) if isinstance(n, ast.Compare) and isinstance(n.left, ast.Attribute) and A.unparse(n.left.value) == "self" and len(n.comparators) == 1 and isinstance(n.comparators[0], ast.Attribute) and A.unparse(n.comparators[0].value) == "other" and n.comparators[0].attr == n.left.attr and not any(isinstance(p, ast.If) and p.test is not n and A.contains_node(p.test, n) and isinstance(p.test, ast.BoolOp) and isinstance(p.test.op, ast.And) for p in A.parents(n))}
            combined = grp - direct
            if len(combined) < 2:
                continue
            for r in A.returns(mm.node):
                if r.value is None or isinstance(r.value, ast.Constant):
                    continue
                n7 += 1
                reads = _return_reads(mm, r)
                sub = reads & combined
                ok = not sub or sub >= {f for f in combined if f in ("negate", "vals")} or sub == combined
                ctx.check("R7", mm, ok, f"combined-fields-read-together:{','.join(sorted(sub))}", f"`return {A.unparse(r.value)[:50]}` reads {sorted(sub) or 'none'} of the fields equality only identifies in combination ({sorted(combined)} via {hname})",
                          f"{K.qual}.match has `return {A.unparse(r.value)[:60]}`, whose outcome depends on {sorted(sub)} alone, while equality identifies instances by the combination {hname}({sorted(combined)}) (a negated '>' equals '<='): two equal, equally hashed restrictions can answer differently", node=r)
    ctx.check("R7", P.cls("pkgcore.ebuild.restricts", "_VersionMatch"), n7 >= 1, f"combined-field-returns:{n7}", f"{n7} match returns of classes whose equality normalises a field combination inspected")
    ctx.floor("R7", 2)

    # ---- R8: attributes served by a proxy object are identified by what equality compares ------------------------------
    # (atom serves fullver / version / revision from self._cpv; the =* restriction matches on that *text*)
    from ..core import effects
    eng = effects.engine(P)
    n8 = 0
    for K in sorted(P.all_classes(), key=lambda c: c.fq):
        ga = K.assigns.get("__getattr__")
        if not (isinstance(ga, ast.Call) and (dotted(ga.func) or "").endswith("GetAttrProxy") and ga.args and isinstance(A.const(ga.args[0]), str)):
            continue
        eq = E.eq_spec(K)
        if eq["kind"] not in ("fields", "custom"):
            continue
        proxy = A.const(ga.args[0])
        eqf = expand_properties(P, E, K, eq["fields"])
        init = K.methods.get("__init__")
        if init is None:
            continue
        fx = eng.fx(init)
        stores = [(t, v, st) for t, v, st in A.assignments(init.node) if A.self_attr(t, fx.selfname) == proxy]
        for c in A.calls(init.node):
            if (dotted(c.func) or "") in ("sf", "object.__setattr__") and len(c.args) == 3 and A.const(c.args[1]) == proxy:
                stores.append((None, c.args[2], c))
        if not stores:
            continue
        n8 += 1
        if proxy in eqf:
            # the proxy object itself is compared: fine only if *its* equality is as fine as the text it serves
            T = None
            for _, v, _st in stores:
                if isinstance(v, ast.Call):
                    r = P.resolve_name(K.module, dotted(v.func) or "")
                    if isinstance(r, ClassInfo):
                        T = r
            coarse = None
            if T is not None:
                teq = E.eq_spec(T)
                via = teq.get("via")
                if via is not None and any((dotted(c.func) or "").split(".")[-1] in ("ver_cmp", "cmp") or A.call_attr(c) in ("lower", "casefold") for c in A.calls(via.node)):
                    coarse = f"{T.name}.__eq__ decides through ver_cmp (1.0 == 1.00, -r1 == -r01)"
            ctx.check("R8", K, coarse is None, f"proxy-compared-coarsely:{proxy}",
                      f"{K.name}: the proxy `{proxy}` is compared by an equality as fine as the attributes it serves",
                      f"{K.name} compares its proxy `{proxy}` itself, and {coarse}; the attributes it serves (fullver, revision ...) are matched as text "
                      f"by the =* restriction: equal, equally hashed atoms match different packages", node=K.node)
        else:
            for _, v, st in stores:
                srcs = {t_[5:] for t_ in fx.sources(v, st) if t_.startswith("self:")}
                missing = sorted(x for x in srcs if x not in eqf and not class_constant(P, K, x))
                ctx.check("R8", K, not missing, f"proxy-inputs-uncompared:{','.join(missing)}",
                          f"{K.name}: `{proxy}` is built from {sorted(srcs)}, all compared by equality",
                          f"{K.name}: the proxy `{proxy}` (serving the attributes the restrictions read) is built from {missing}, which equality "
                          f"({sorted(eqf)}) does not compare", node=st)
    ctx.require(n8 >= 1, "no class with a GetAttrProxy and structural equality found (atom expected)")
    ctx.floor("R8", 1)


def _return_reads(fn, ret):
    """self attributes a return's value depends on: in the expression, in the definitions of the names it uses, and in
    the tests of the ifs those definitions (or the return) sit under"""
    out = set()
    seen = set()

    def expr(e):
        for n in A.walk(e):
            if isinstance(n, ast.Attribute) and A.unparse(n.value) == "self":
                out.add(n.attr)
            if isinstance(n, ast.Name) and n.id not in seen:
                seen.add(n.id)
                for t_, v, st in A.assignments(fn.node, n.id):
                    expr(v)
                    for p in A.parents(st):
                        if isinstance(p, ast.If):
                            expr(p.test)
    expr(ret.value)
    return out


MUTANTS = [
    {"name": "containment-hash-drops-negate", "file": "src/pkgcore/restrictions/values.py", "old": '    __slots__ = __attr_comparison__ = ("vals", "all", "negate")', "new": '    __slots__ = ("vals", "all", "negate")\n    __attr_comparison__ = ("vals", "all")', "rule": "R3"},
    {"name": "strexact-eq-drops-case", "file": "src/pkgcore/restrictions/values.py", "old": '    __slots__ = __attr_comparison__ = ("exact", "case_sensitive", "negate")', "new": '    __slots__ = ("exact", "case_sensitive", "negate")\n    __attr_comparison__ = ("exact", "negate")', "rule": "R3"},
    {"name": "pkgrestriction-eq-drops-negate", "file": "src/pkgcore/restrictions/packages.py", "old": '    __attr_comparison__ = ("__class__", "negate", "_attr_split", "restriction")', "new": '    __attr_comparison__ = ("__class__", "_attr_split", "restriction")', "rule": "R3"},
    {"name": "conditional-hash-identity", "file": "src/pkgcore/restrictions/packages.py", "old": "        return hash((self.attr, self.negate, self.restriction, self.payload))", "new": "        return hash((self.attr, self.negate, self.restriction, self.payload, self.ignore_missing))", "rule": "R2"},
    {"name": "cache-key-str", "file": "src/pkgcore/repository/misc.py", "old": "        v = self.__cache__.get(restrict)", "new": "        v = self.__cache__.get(str(restrict))", "rule": "R5"},
    {"name": "boolean-eq-drops-negate", "file": "src/pkgcore/restrictions/boolean.py", "old": '"__class__", "negate", "type", "restrictions"', "new": '"__class__", "type", "restrictions"', "rule": "R3"},
]
TWINS = []
MUTANTS += [
    {"name": "hash-unfinalised", "file": "src/pkgcore/restrictions/boolean.py", "old": "        if not isinstance(self.restrictions, tuple):\n            raise TypeError(f\"{self!r} isn't finalized\")\n        return hash(tuple(getattr(self, x) for x in self.__attr_comparison__))", "new": "        return hash((self.__class__, self.negate, self.type, tuple(self.restrictions)))", "rule": "R6"},
    {"name": "unversioned-returns-negate", "file": "src/pkgcore/ebuild/restricts.py", "old": "        if pkg.version is None:\n            return False\n\n        return (cpv.ver_cmp(", "new": "        if pkg.version is None:\n            return self.negate\n\n        return (cpv.ver_cmp(", "rule": "R7"},
]
