"""C04 — an atom matches a package exactly as PMS dependency semantics say (structural clauses)."""
import ast

from ..core import astutil as A
from ..core import boolx
from ..core import generic as G
from ..core import match as M
from ..core.mirror import alpha_canon, clone
from ..core.model import dotted

META = {
    "technique": "table extraction: constraint->restriction table of atom.restrictions (callee, argument attributes, guard), attribute literal of each *Dep restriction class, (negate, match_all) semantics table of ContainmentMatch vs the forms built for enabled/disabled USE flags, decision table of _parse_nontransitive_use, sibling case-split agreement of _UseDepDefaultContainment.match/force_True/force_False; raw-string-prefix idiom detector for the =* operator",
    "level": "Decides: (R1) every atom constraint (package, category, repository, version, slot, sub-slot only with a slot, USE) produces the restriction of that kind from the atom's own field under a guard on that field, and blockers add nothing; (R2) the =* operator is not matched by a raw string prefix; (R3) USE deps: (+)/(-) suffix and leading '-' are routed to the right default/sign bucket, enabled flags are matched as 'all present', disabled flags as 'none present', and the three methods of the default-aware containment share one case split; (R4) see C01.R3 for the operator table. Does NOT decide matching for concrete packages.",
    "note": "the (negate, all) meaning table is extracted from values.ContainmentMatch.match in the same run; StrGlobMatch is a raw string prefix matcher (read from its match method)",
}
META["technique"] += "; " + 'equality-covers-match field analysis for the *Dep restriction classes; optional-flag shift lint at resolved constructor calls; operand-verbatim rule'
META["level"] += " Added after the second round of independent changes: " + "(R4) every attribute a restriction's match() consults is compared by its equality (equal restrictions are merged by the boolean instance cache); (R5) no constructor call in restricts.py/atom.py passes a variable named like one optional parameter positionally into another; (R6) _VersionMatch keeps the version/revision operands as given (no str()/strip re-spelling: Revision objects compare numerically, strings do not)."
META["technique"] += "; " + 'generic pack G on the anchored files (optional-flag shift, closures outliving a loop iteration, single-pass iterables consumed twice, %-templates built from data, in-place writes to class-level / memoised objects, generators mutating what they yielded, memo keys that are projections)'

EXPECT = [
    # callee suffix, argument attributes, guard attributes (subset), position
    ("PackageDep", ["package"], []),
    ("CategoryDep", ["category"], []),
    ("RepositoryDep", ["repo_id"], ["repo_id"]),
    ("VersionMatch", ["op", "version", "revision", "negate_vers"], ["fullver"]),
    ("SlotDep", ["slot"], ["slot"]),
    ("SubSlotDep", ["subslot"], ["slot", "subslot"]),
    ("_parse_nontransitive_use", ["use"], ["use"]),
]
DEP_ATTR = {"PackageDep": "package", "CategoryDep": "category", "SlotDep": "slot", "SubSlotDep": "subslot",
            "RepositoryDep": "repo.repo_id"}


def guards_of(node, fn):
    out = set()
    for p in A.parents(node):
        if p is fn:
            break
        if isinstance(p, ast.If):
            out |= A.attrs_of(p.test, "self")
    return out


def run(ctx):
    P = ctx.program
    ctx.explanation = META["level"]
    rf = P.func("pkgcore.ebuild.atom", "atom.restrictions")
    fn = rf.node
    # ---- R1 ---------------------------------------------------------------
    built = []
    for c in A.calls(fn):
        nm = dotted(c.func) or ""
        short = nm.split(".")[-1]
        if short in {e[0] for e in EXPECT} or short in ("PackageRestriction",):
            built.append((short, c))
    for short, args, guard in EXPECT:
        hits = [c for s, c in built if s == short]
        if not ctx.check("R1", rf, len(hits) == 1, f"builds:{short}", f"atom.restrictions builds exactly one {short}",
                         f"atom.restrictions builds {len(hits)} {short} restriction(s)"):
            continue
        c = hits[0]
        got = [a for x in list(c.args) + [k.value for k in c.keywords] for a in sorted(A.attrs_of(x, "self"))]
        ctx.check("R1", rf, got == args, f"args:{short}", f"{short} is built from self.{', self.'.join(args)}",
                  f"{short} is built from {got}, expected {args}", node=c)
        g = guards_of(c, fn)
        ctx.check("R1", rf, set(guard) <= g, f"guard:{short}", f"{short} is added under a guard on {guard or 'nothing'}",
                  f"{short} is guarded by {sorted(g)}, expected a guard on {guard}", node=c)
        # ... and by nothing else: once the guarded attributes are set, the restriction is always added
        fixed = {f"self.{x} is None": False for x in guard}
        if short == "VersionMatch":
            fixed["self.op == '=*'"] = False
        forced = True
        child = c
        for par in A.parents(c):
            if par is fn:
                break
            if isinstance(par, ast.If):
                in_body = any(child is x or A.contains_node(x, child) for x in par.body)
                out = boolx.forced_outcome(par.test, {k: v for k, v in fixed.items() if k in boolx.atoms(par.test)})
                if out is None or out != in_body:
                    forced = False
                    why = A.unparse(par.test)
            child = par
        ctx.check("R1", rf, forced, f"guard-only:{short}", f"{short} is added whenever {guard or 'the atom'} is set (no further condition)",
                  f"{short} is skipped under an extra condition (`{why if not forced else ''}`): the atom stops constraining that field for some inputs", node=c)
    vm = [c for s, c in built if s == "VersionMatch"]
    if vm:
        kws = {k.arg: A.unparse(k.value) for k in vm[0].keywords}
        pos = [A.unparse(a) for a in vm[0].args]
        ctx.check("R1", rf, pos == ["self.op", "self.version", "self.revision"] and kws == {"negate": "self.negate_vers"}, "versionmatch-call",
                  "VersionMatch(self.op, self.version, self.revision, negate=self.negate_vers)", node=vm[0])
    reads = A.attrs_of(fn, "self")
    for b in ("blocks", "blocks_strongly"):
        ctx.check("R1", rf, b not in reads, f"blocker-independent:{b}", f"restrictions do not depend on {b} (a blocker matches like its plain form)")
    rmod = P.module("pkgcore.ebuild.restricts")
    for cname, attr in DEP_ATTR.items():
        K = P.cls("pkgcore.ebuild.restricts", cname)
        init = K.methods.get("__init__")
        ctx.require(init is not None, f"restricts.{cname}.__init__ not found")
        sup = [c for c in A.calls(init.node) if "__init__" in A.unparse(c.func)]
        ctx.require(sup, f"restricts.{cname}: no super().__init__ call")
        a0 = A.try_literal(sup[0].args[0]) if sup[0].args else None
        ctx.check("R1", init, a0 == attr, f"dep-attr:{cname}", f"{cname} restricts package attribute {attr!r}", f"{cname} restricts attribute {a0!r}, expected {attr!r}", node=sup[0])
        # the value matcher is an exact string match on the constructor argument
        sm = [c for c in A.calls(init.node) if (dotted(c.func) or "").endswith("StrExactMatch")]
        p1 = init.params()[1]
        ctx.check("R1", init, len(sm) == 1 and sm[0].args and A.unparse(sm[0].args[0]) == p1, f"dep-exact:{cname}", f"{cname} compares with an exact string match of `{p1}`", node=init.node)
    VMc = P.cls("pkgcore.ebuild.restricts", "VersionMatch")
    vinit = VMc.methods["__init__"]
    sup = [c for c in A.calls(vinit.node) if "__init__" in A.unparse(c.func)]
    ctx.check("R1", vinit, bool(sup) and A.try_literal(sup[0].args[0]) == "fullver", "dep-attr:VersionMatch", "VersionMatch restricts 'fullver'")
    ctx.floor("R1", 28)

    # ---- R2 raw prefix for =* ----------------------------------------------------
    glob_ifs = [n for n in A.body_walk(fn) if isinstance(n, ast.If) and M.pat("self.op == '=*'").matches(n.test)]
    ctx.require(glob_ifs, "atom.restrictions: no `self.op == '=*'` arm")
    arm = glob_ifs[0].body
    raw = [c for s in arm for c in A.calls(s) if (dotted(c.func) or "").split(".")[-1] in ("StrGlobMatch",) or A.call_attr(c) == "startswith"]
    # StrGlobMatch is a plain prefix matcher unless its match method looks at component boundaries
    sg = P.cls("pkgcore.restrictions.values", "StrGlobMatch")
    sgm = sg.methods.get("match")
    ctx.require(sgm is not None, "values.StrGlobMatch.match not found")
    boundary_aware = any(isinstance(n, ast.Constant) and n.value in (".", "_", "-r") for n in ast.walk(sgm.node))
    for c in raw:
        ctx.check("R2", rf, boundary_aware, "glob-raw-prefix",
                  "the =* operator matches on version-component boundaries",
                  f"the =* arm hands `{A.unparse(c.args[0]) if c.args else '?'}` to the plain string-prefix matcher {dotted(c.func)}: =cat/pkg-1* matches cat/pkg-10", node=c)
    pr = [c for s_ in arm for c in A.calls(s_) if (dotted(c.func) or "").endswith("PackageRestriction")]
    if pr:
        a0 = A.try_literal(pr[0].args[0]) if pr[0].args else None
        inner = [A.unparse(x) for c in raw for x in c.args]
        ctx.check("R2", rf, a0 == "fullver" and inner == ["self.fullver"], "glob-operands",
                  "the =* arm compares the package's fullver with the atom's own fullver",
                  f"the =* arm compares attribute {a0!r} with {inner}: a revision written in the glob atom (=cat/pkg-1.2-r1*) is ignored or the wrong field is matched", node=pr[0])
    ctx.require(raw or any("VersionMatch" in A.unparse(s) or "Glob" in A.unparse(s) for s in arm), "atom.restrictions: =* arm builds no recognisable matcher")
    ctx.floor("R2", 1) if raw else None

    # ---- R3 USE deps ---------------------------------------------------------------
    # (a) meaning table of ContainmentMatch.match for iterables
    CM = P.cls("pkgcore.restrictions.values", "ContainmentMatch")
    cm = CM.methods["match"]
    sem = {}
    for r in A.returns(cm.node):
        v = r.value
        if isinstance(v, ast.Compare) and isinstance(v.left, ast.Call) and isinstance(v.left.func, ast.Attribute) and "negate" in A.unparse(v.comparators[0]):
            meth = v.left.func.attr
            eq = isinstance(v.ops[0], ast.Eq)
            in_all = any(isinstance(p, ast.If) and A.unparse(p.test) == "self.all" and any(A.contains_node(s, r) for s in p.body) for p in A.parents(r))
            sem[(meth, in_all)] = eq
    ctx.require(("issubset", True) in sem and ("isdisjoint", False) in sem, "ContainmentMatch.match: issubset/isdisjoint returns not recognised")
    # issubset != negate  (all):  negate F -> all present ; negate T -> not all present
    # isdisjoint == negate (any): negate F -> some present ; negate T -> none present
    ctx.check("R3", cm, sem[("issubset", True)] is False and sem[("isdisjoint", False)] is True, "containment-semantics",
              "ContainmentMatch: all => issubset != negate, any => isdisjoint == negate")

    def meaning(negate, all_):
        return {(False, True): "all present", (False, False): "some present", (True, True): "not all present", (True, False): "none present"}[(bool(negate), bool(all_))]

    def cm_call_meaning(call, env, cls_init=None):
        """(negate, all) of a ContainmentMatch(...) / _UseDepDefaultContainment(...) construction"""
        kws = {k.arg: k.value for k in call.keywords}
        neg = A.try_literal(kws["negate"], env, default=None) if "negate" in kws else False
        if cls_init is None:
            al = A.try_literal(kws["match_all"], env, default=None) if "match_all" in kws else False
        else:
            # follow the subclass initialiser: super().__init__(vals, negate=negate, match_all=<expr>)
            sup = [c for c in A.calls(cls_init.node) if "__init__" in A.unparse(c.func)]
            skw = {k.arg: k.value for k in sup[0].keywords} if sup else {}
            al = A.try_literal(skw.get("match_all"), {"negate": neg}, default=None) if "match_all" in skw else False
        return neg, al

    sud = P.func("pkgcore.ebuild.restricts", "StaticUseDep.__init__")
    udd = P.func("pkgcore.ebuild.restricts", "UseDepDefault.__init__")
    udc_init = P.func("pkgcore.ebuild.restricts", "_UseDepDefaultContainment.__init__")
    for f, ctor, sub in ((sud, "ContainmentMatch", None), (udd, "_UseDepDefaultContainment", udc_init)):
        calls = [c for c in A.calls(f.node) if (dotted(c.func) or "").split(".")[-1] in (ctor, "ContainmentMatch2")]
        ctx.require(len(calls) == 2, f"{f.qual}: expected two {ctor} constructions")
        for c in calls:
            srcs = {n.id for a in c.args for n in ast.walk(a) if isinstance(n, ast.Name)}
            neg, al = cm_call_meaning(c, {}, sub)
            ctx.require(neg is not None and al is not None, f"{f.qual}: cannot evaluate negate/match_all of {A.unparse(c)[:60]}")
            if "false_use" in srcs:
                ctx.check("R3", f, meaning(neg, al) == "none present", "disabled-flags-none-present",
                          "disabled USE flags are matched as 'none of them present'",
                          f"{f.qual}: disabled flags are matched as '{meaning(neg, al)}' (negate={neg}, all={al}): a[-x,-y] matches a package with x enabled", node=c)
            elif "true_use" in srcs:
                ctx.check("R3", f, meaning(neg, al) == "all present", "enabled-flags-all-present",
                          "enabled USE flags are matched as 'all of them present'",
                          f"{f.qual}: enabled flags are matched as '{meaning(neg, al)}' (negate={neg}, all={al})", node=c)
            else:
                ctx.require(False, f"{f.qual}: containment built from neither false_use nor true_use")
        ps = f.params()
        ctx.check("R3", f, ps.index("false_use") < ps.index("true_use"), "param-order", f"{f.qual} takes (false_use, true_use) in that order")
    # (b) decision table of _parse_nontransitive_use.  The three buckets are local variables: they are identified by
    # their ROLE (what is finally built from them), never by their spelling.
    pn = P.func("pkgcore.ebuild.restricts", "_parse_nontransitive_use")
    loop = [n for n in pn.node.body if isinstance(n, ast.For)]
    ctx.require(loop, "_parse_nontransitive_use: token loop not found")
    lp = loop[0]
    ctx.require(isinstance(lp.target, ast.Name), "_parse_nontransitive_use: the token loop variable is not a plain name")
    tok = lp.target.id
    sc = [c for c in A.calls(pn.node) if dotted(c.func) == "StaticUseDep"]
    m_plain = M.pat("StaticUseDep(*$normal)").matches(sc[0]) if len(sc) == 1 else None
    ctx.check("R3", pn, m_plain is not None, "static-call", "plain flags build StaticUseDep(*<plain bucket>)")
    ud = [c for c in A.calls(pn.node) if dotted(c.func) == "UseDepDefault"]
    m_on = [m for m in (M.pat("UseDepDefault(True, *$on)").matches(c) for c in ud) if m]
    m_off = [m for m in (M.pat("UseDepDefault(False, *$off)").matches(c) for c in ud) if m]
    udcalls = [[A.unparse(a) for a in c.args] for c in ud]
    ctx.check("R3", pn, len(ud) == 2 and len(m_on) == 1 and len(m_off) == 1, "default-calls",
              "defaults build UseDepDefault(False, *<default-off bucket>) and UseDepDefault(True, *<default-on bucket>)", f"UseDepDefault calls are {udcalls}")
    # what is handed to the constructors is the bucket filled by the loop, possibly frozen slot by slot in between
    E = {"tok": tok}
    bucket_ok, bucket_why = True, []
    for role, mm in (("normal", m_plain), ("on", m_on[0] if len(m_on) == 1 else None), ("off", m_off[0] if len(m_off) == 1 else None)):
        if mm is None:
            continue  # reported above; the routing patterns below then accept any name in that role
        final = mm[role]
        src = final
        for a in [x for x in M.find(pn.node, "$b = $_", {"b": final}) if x.node.lineno > lp.end_lineno]:
            fz = M.pat("$b = (tuple($src[0]), tuple($src[1]))").matches(a.node, {"b": final})
            if fz is None:
                bucket_ok = False
                bucket_why.append(f"`{A.unparse(a.node)}` does not keep (disabled, enabled) slot by slot")
            else:
                src = fz["src"]
        init = [x for x in M.find(pn.node, "$b = [[], []]", {"b": src}) if x.node.lineno < lp.lineno]
        if len(init) != 1:
            bucket_ok = False
            bucket_why.append(f"`{src}` is not initialised once as a fresh pair of lists before the loop")
        E[role] = src
    roles = [E[k] for k in ("normal", "on", "off") if k in E]
    if len(set(roles)) != len(roles):
        bucket_ok = False
        bucket_why.append(f"the plain/default-on/default-off buckets are not three different variables ({roles})")
    ctx.check("R3", pn, bucket_ok, "buckets", "each of the three buckets starts as its own [[], []] and reaches its constructor with slot 0 (disabled) and slot 1 (enabled) in place",
              "_parse_nontransitive_use: " + "; ".join(bucket_why))
    ifs = [n for n in ast.walk(lp) if isinstance(n, ast.If)]
    dflt = [i for i in ifs if M.pat("$tok[-1] == ')'").matches(i.test, E)]
    ctx.require(dflt, "_parse_nontransitive_use: ')' test not found")
    plus = [i for i in ifs if M.pat("$tok[-2] == '+'").matches(i.test, E)]
    ctx.require(plus, "_parse_nontransitive_use: '(+)' test not found")
    sign = [i for i in ifs if M.pat("$tok[0] == '-'").matches(i.test, E)]
    ctx.require(sign, "_parse_nontransitive_use: sign test not found")
    nested = any(s_ is plus[0] or A.contains_node(s_, plus[0]) for s_ in dflt[0].body)
    sr = M.pat("if $tok[-2] == '+':\n    $trg = $on\nelse:\n    $trg = $off").matches(plus[0], E)
    once = sr is not None and len(M.find(plus[0].body, "$trg = $_", sr.env)) == 1 and len(M.find(plus[0].orelse, "$trg = $_", sr.env)) == 1
    ctx.check("R3", pn, nested and once, "suffix-routing", "(+) routes to the default-on bucket, (-) to default-off", node=plus[0])
    if sr is not None:
        E = dict(sr.env)
    pr_ = M.pat("if $tok[-1] == ')':\n    ...\nelse:\n    $trg = $normal").matches(dflt[0], E)
    ctx.check("R3", pn, pr_ is not None and len(M.find(dflt[0].orelse, "$trg = $_", pr_.env)) == 1, "plain-routing", "a flag without a default suffix goes to the plain bucket", node=dflt[0])
    if pr_ is not None:
        E = dict(pr_.env)
    # the suffix is looked at before it is cut off, and cut off before the sign is looked at
    strip = M.pat("if $tok[-1] == ')':\n    if $tok[-2] == '+':\n        ...\n    $tok = $tok[:-3]").matches(dflt[0], E)
    restore = [x for x in M.find(dflt[0].body, "$tok = $_", E) if not M.pat("$tok = $tok[:-3]").matches(x.node, E)]
    ctx.check("R3", pn, strip is not None and not restore, "suffix-strip", "the three-character (+)/(-) suffix is stripped", node=dflt[0])
    sg_ = M.pat("if $tok[0] == '-':\n    $trg[0].append($tok[1:])\nelse:\n    $trg[1].append($tok)").matches(sign[0], E)
    ctx.check("R3", pn, sg_ is not None and sign[0] in lp.body and sign[0].lineno > dflt[0].end_lineno, "sign-routing",
              "'-flag' goes to slot 0 (disabled) without its sign, 'flag' to slot 1 (enabled)", node=sign[0])
    # (c) sibling agreement of _UseDepDefaultContainment.match / force_True / force_False (modulo local names)
    UDC = P.cls("pkgcore.ebuild.restricts", "_UseDepDefaultContainment")
    forms = {}
    for name in ("match", "force_True", "force_False"):
        m = UDC.methods.get(name)
        ctx.require(m is not None, f"_UseDepDefaultContainment.{name} not found")
        deleg = [c for c in A.calls(m.node) if isinstance(c.func, ast.Attribute) and c.func.attr in ("match", "force_True", "force_False") and "ContainmentMatch" in A.unparse(c.func)]
        ctx.check("R3", m, deleg and all(c.func.attr == name for c in deleg), f"delegates-same:{name}", f"{name} delegates to ContainmentMatch.{name}", node=m.node)
        # normalise: the delegation call (whatever its extra arguments) becomes <delegate>(override?)
        class _D(ast.NodeTransformer):
            def visit_Expr(self, node):
                # a bare constant or a logging line is not part of the case split
                if isinstance(node.value, ast.Constant) or (isinstance(node.value, ast.Call) and (dotted(node.value.func) or "").startswith(("logger.", "logging."))):
                    return ast.Pass()
                return self.generic_visit(node)

            def visit_Call(self, node):
                self.generic_visit(node)
                if isinstance(node.func, ast.Attribute) and node.func.attr == name and "ContainmentMatch" in A.unparse(node.func.value):
                    ov = [a for a in node.args[1:] if isinstance(a, ast.Name) and not (isinstance(a, ast.Name) and a.id in ("self", "pkg"))]
                    ov += [k.value for k in node.keywords if k.arg == "_values_override"]
                    names = sorted({x.id for a in ov for x in ast.walk(a) if isinstance(x, ast.Name)} - set(m.params()) | {x.id for k in node.keywords if k.arg == "_values_override" for x in ast.walk(k.value) if isinstance(x, ast.Name)})
                    return ast.Call(func=ast.Name(id="DELEGATE", ctx=ast.Load()), args=[ast.Name(id=n_, ctx=ast.Load()) for n_ in names], keywords=[])
                return node
        body = [_D().visit(clone(st)) for st in m.node.body]
        for holder in [h for st in body for h in ast.walk(st)]:
            for fld in ("body", "orelse", "finalbody"):
                sts = getattr(holder, fld, None)
                if isinstance(sts, list) and any(isinstance(x, ast.Pass) for x in sts):
                    setattr(holder, fld, [x for x in sts if not isinstance(x, ast.Pass)] or ([ast.Pass()] if fld == "body" else []))
        body = [st for st in body if not isinstance(st, ast.Pass)]
        fake = ast.FunctionDef(name=name, args=ast.arguments(posonlyargs=[], args=[ast.arg(arg="self"), ast.arg(arg="val")], kwonlyargs=[], kw_defaults=[], defaults=[]), body=body, decorator_list=[])
        forms[name] = alpha_canon(fake)
    ref = forms["match"]
    for name in ("force_True", "force_False"):
        ctx.check("R3", UDC.methods[name], forms[name] == ref, f"sibling-case-split:{name}", f"{name} has the same case split and reduction as match (modulo local names)",
                  f"_UseDepDefaultContainment.{name} and .match disagree:\n      {name}: {forms[name]}\n      match: {ref}")
    # the case split itself (roles, not names): unpack val -> (iuse, use); all wanted in iuse -> plain; default contradicts -> False;
    # reduce wanted by iuse; something left -> delegate on it; nothing left -> True
    m = UDC.methods["match"]
    unpack = [n for n in m.node.body if isinstance(n, ast.Assign) and isinstance(n.targets[0], ast.Tuple) and len(n.targets[0].elts) == 2 and A.unparse(n.value) == m.params()[1]]
    ctx.require(unpack, "_UseDepDefaultContainment.match: `iuse, use = val` unpacking not found")
    iuse_v, use_v = (A.unparse(e) for e in unpack[0].targets[0].elts)
    inter = [c for c in A.calls(m.node) if A.call_attr(c) == "intersection"]
    ctx.check("R3", m, len(inter) == 1 and [A.unparse(a) for a in inter[0].args] == [iuse_v], "default-reduction",
              "flags missing from IUSE are dropped by intersecting the wanted flags with IUSE (first element of the value pair)",
              f"the wanted flags are reduced with {[A.unparse(a) for c in inter for a in c.args]} instead of the IUSE set `{iuse_v}`: flags in IUSE but disabled drop out of the check", node=inter[0] if inter else m.node)
    sub = [c for c in A.calls(m.node) if A.call_attr(c) == "issubset"]
    ctx.check("R3", m, len(sub) == 1 and [A.unparse(a) for a in sub[0].args] == [iuse_v], "default-all-known", "the plain path is taken when every wanted flag is in IUSE")
    tests = [A.unparse(n.test) for n in m.node.body if isinstance(n, ast.If)]
    rets = []
    for n in m.node.body:
        if isinstance(n, ast.If):
            r = [x for x in n.body if isinstance(x, ast.Return)]
            rets.append("<delegate>" if r and "ContainmentMatch.match" in A.unparse(r[0]) else (A.unparse(r[0].value) if r else None))
        elif isinstance(n, ast.Return):
            rets.append(A.unparse(n.value))
    ctx.check("R3", m, len(tests) == 3 and tests[1] in ("self.if_missing == self.negate", "self.negate == self.if_missing") and rets == ["<delegate>", "False", "<delegate>", "True"], "default-case-split",
              "match: all flags known -> plain; default contradicts the request -> False; remaining known flags -> match those; none left -> True",
              f"_UseDepDefaultContainment.match case split is tests={tests} returns={rets}")
    ctx.floor("R3", 16)

    # ---- R4 equality of a restriction covers everything its match() consults ---------------------------------------
    # (equal restrictions are interchangeable: boolean.AndRestriction hands out one cached instance per equal child tuple)
    from ..core import eqhash
    EQ = eqhash.Engine(P)
    DERIVED_OK = {
        "_pull_attr_func": "lazily built from _attr_split, which equality compares",
        "ignore_missing": "never passed by the *Dep constructors: constant for every restriction an atom builds (checked below)",
        "_attr_split": "Conditional compares `attr`, from which _attr_split is built",
    }
    rmod = P.module("pkgcore.ebuild.restricts")
    n_cls = 0
    for K in rmod.classes.values():
        owner, mt = P.lookup_attr(K, "match")
        if not hasattr(mt, "node"):
            continue
        spec = EQ.eq_spec(K)
        if spec["kind"] not in ("fields", "custom"):
            continue
        n_cls += 1
        eqf = set(spec["fields"]) - {"__class__"}
        der = EQ.init_derivations(K)
        cov = set(eqf)
        for fld in eqf:
            cov |= der.get(fld, set())
        reads = set(EQ.self_reads(mt, K)) - {"__class__"}
        for a in sorted(reads - eqf):
            d = der.get(a)
            if d and d <= cov | {"self"}:
                continue  # computed in __init__ from compared fields only
            ctx.check("R4", K, a in DERIVED_OK, f"match-reads-uncompared:{K.name}.{a}",
                      f"{K.name}.match consults `{a}`: {DERIVED_OK.get(a, '')}",
                      f"{K.name}.match consults `self.{a}` but equality ({'__attr_comparison__' if spec['kind'] == 'fields' else '__eq__'} = {sorted(eqf)}) "
                      f"does not compare it: two restrictions that differ only in `{a}` are equal, hash alike and are merged by the instance cache of "
                      f"boolean restrictions, so an atom can receive the restriction of another atom", node=K.node)
        ctx.ob("R4", K, f"{K.name}: match() reads {sorted(reads)}; equality compares {sorted(eqf)}")
    ctx.require(n_cls >= 8, f"only {n_cls} restriction classes with match() and field equality found in ebuild/restricts.py")
    for K in rmod.classes.values():
        init = K.methods.get("__init__")
        if init is None:
            continue
        for c in A.calls(init.node):
            if any(k.arg == "ignore_missing" for k in c.keywords):
                ctx.fail("R4", init, f"ignore_missing-passed:{K.name}", f"{K.name}.__init__ passes ignore_missing, which equality does not compare", node=c)
    ctx.floor("R4", 8)

    # ---- R5 constructor flags reach the parameter they are named after ----------------------------------------------
    n_calls = G.arg_binding(ctx, "R5", ["src/pkgcore/ebuild/restricts.py", "src/pkgcore/ebuild/atom.py"])
    ctx.require(n_calls >= 20, f"only {n_calls} resolved call sites in restricts.py/atom.py")

    # ---- R6 the version operands reach ver_cmp as given (Revision objects compare numerically, strings do not) ------
    vm_init = P.func("pkgcore.ebuild.restricts", "_VersionMatch.__init__")
    for fld in ("ver", "rev"):
        st = [(t, v, s_) for t, v, s_ in A.assignments(vm_init.node) if A.self_attr(t) == fld]
        ctx.check("R6", vm_init, len(st) >= 1, f"operand-stored:{fld}", f"_VersionMatch stores `{fld}`")
        for t, v, s_ in st:
            RESPELL = {"str", "int", "repr", "format", "float"}
            STRM = {"strip", "lstrip", "rstrip", "zfill", "replace", "lower", "upper", "split", "partition", "removeprefix", "removesuffix", "join", "format"}
            respelled = [n for n in ast.walk(v) if (isinstance(n, ast.Call) and ((isinstance(n.func, ast.Name) and n.func.id in RESPELL) or (isinstance(n.func, ast.Attribute) and n.func.attr in STRM)))
                         or isinstance(n, (ast.JoinedStr, ast.BinOp)) or (isinstance(n, ast.Subscript) and isinstance(n.slice, ast.Slice))]
            from_param = any(isinstance(n, ast.Name) and n.id in vm_init.params() for n in ast.walk(v))
            ctx.check("R6", vm_init, from_param and not respelled, f"operand-verbatim:{fld}",
                      f"_VersionMatch keeps the `{fld}` operand as given",
                      f"_VersionMatch stores `{A.unparse(v)}` as its `{fld}` operand: the object handed to ver_cmp is no longer the atom's own "
                      f"version / Revision (a str revision compares as text: -r9 > -r10)", node=s_)
    ctx.floor("R6", 4)


MUTANTS = [
    {"name": "slotdep-from-subslot", "file": "src/pkgcore/ebuild/atom.py", "old": "            r.append(restricts.SlotDep(self.slot))", "new": "            r.append(restricts.SlotDep(self.subslot or self.slot))", "rule": "R1"},
    {"name": "subslot-unguarded", "file": "src/pkgcore/ebuild/atom.py", "old": "            if self.subslot is not None:\n                r.append(restricts.SubSlotDep(self.subslot))", "new": "            r.append(restricts.SubSlotDep(self.subslot))", "rule": "R1"},
    {"name": "disabled-all-match", "file": "src/pkgcore/ebuild/restricts.py", "old": "            v.append(values.ContainmentMatch(false_use, negate=True))", "new": "            v.append(values.ContainmentMatch(false_use, negate=True, match_all=True))", "rule": "R3"},
    {"name": "default-on-off-swapped", "file": "src/pkgcore/ebuild/restricts.py", "old": '            if token[-2] == "+":\n                trg = default_on\n            else:\n                trg = default_off', "new": '            if token[-2] == "+":\n                trg = default_off\n            else:\n                trg = default_on', "rule": "R3"},
    {"name": "force_true-missing-default-flipped", "file": "src/pkgcore/ebuild/restricts.py", "old": '            return values.ContainmentMatch.force_True(self, pkg, "use", use)\n        if self.if_missing == self.negate:', "new": '            return values.ContainmentMatch.force_True(self, pkg, "use", use)\n        if self.if_missing != self.negate:', "rule": "R3"},
    {"name": "categorydep-attr", "file": "src/pkgcore/ebuild/restricts.py", "old": 'super().__init__("category", values.StrExactMatch(category, negate=negate))', "new": 'super().__init__("key", values.StrExactMatch(category, negate=negate))', "rule": "R1"},
    {"name": "blocker-adds-restriction", "file": "src/pkgcore/ebuild/atom.py", "old": "        if self.use is not None:\n            r.extend(restricts._parse_nontransitive_use(self.use))", "new": "        if self.use is not None and not self.blocks:\n            r.extend(restricts._parse_nontransitive_use(self.use))", "rule": "R1"},
]
MUTANTS += [
    {"name": "revision-canonicalised-as-text", "file": "src/pkgcore/ebuild/restricts.py", "old": "        self.rev = rev\n", "new": "        self.rev = str(rev).lstrip('0') if rev else rev\n", "rule": "R6"},
    {"name": "if-missing-not-compared", "file": "src/pkgcore/ebuild/restricts.py", "old": '    __attr_comparison__ = ("vals", "all", "negate", "if_missing")\n', "new": '    __attr_comparison__ = ("vals", "all", "negate")\n', "rule": "R4"},
    {"name": "negate-lands-on-case-flag", "file": "src/pkgcore/ebuild/restricts.py", "old": "        v = values.StrExactMatch(slot)\n", "new": "        negate = kwds.get('negate', False)\n        v = values.StrExactMatch(slot, negate)\n", "rule": "R5"},
]
TWINS = [
    {"name": "revision-retyped-not-respelled", "file": "src/pkgcore/ebuild/restricts.py", "old": "        self.rev = rev\n", "new": "        self.rev = cpv.Revision(rev) if rev is not None and not isinstance(rev, cpv.Revision) else rev\n"},
]
