"""C15 — successful resolutions produce dependency-closed, slot-consistent plans (structural clauses)."""
import ast

from ..core import astutil as A
from ..core import match as M
from ..core.cfg import cfg_of
from ..core.model import ClassInfo, dotted

META = {
    "technique": "constructibility rules (instance-cached restriction classes never receive unhashable live state; arity of calls through locally bound strategy functions), five-row dependency-class table on choice_point (property -> slot -> source attribute -> reduction loop -> state tuple), CFG must-pass rule on merge_plan._rec_add_atom (every success return after insertion passed all dependency classes), rollback-target rule on every failure path, blocker-registration and slot-conflict rules",
    "level": "Decides: (R1) a resolver can be constructed: restriction classes fed live mutable state are not instance-cached and locally bound strategy callables are called with their arity; (R2) each of BDEPEND/DEPEND/RDEPEND/PDEPEND/IDEPEND has its own slot on choice_point, filled from the package attribute of the same name, initialised, reduced together with the others and part of the state tuple; (R3) _rec_add_atom reports success for a newly inserted package only after rdepend, idepend, (depend, bdepend unless built) were processed before insertion and pdepend after it; (R4) every failure continues/returns only after backtracking the plan state to the frame's start point; (R5) blockers are registered through state.add_blocker with installed packages loaded first, the installed packages are loaded unless something matching the restriction is already tracked, and a slot is conflicting when a limiter matches or the same key+slot is occupied. Does NOT decide that a concrete returned plan is closed/consistent - that is the search's semantics.",
    "note": "snakeoil WeaklyCachedABC rejects unhashable constructor arguments unless caching=False (library fact); dependency processing itself recurses through the same function",
}
META["technique"] += "; " + 're-check rule for weak blockers'
META["level"] += " Added after the second round of independent changes: " + '(R5) a blocker that hit a package is passed over only after state.match_atom(blocker) was asked again and found nothing.'
META["level"] += " R5 also: un-slotting removes exactly the given package object (identity filter, shared with C17.R6)."
META["technique"] += "; " + 'generic pack G on the anchored files (optional-flag shift, closures outliving a loop iteration, single-pass iterables consumed twice, %-templates built from data, in-place writes to class-level / memoised objects, generators mutating what they yielded, memo keys that are projections)'
PL = "pkgcore.resolver.plan"
CP = "pkgcore.resolver.choice_point"
ST = "pkgcore.resolver.state"
DEPS = {"bdepend": "_bdeps", "depend": "_deps", "rdepend": "_rdeps", "pdepend": "_prdeps", "idepend": "_ideps"}


def run(ctx):
    P = ctx.program
    ctx.explanation = META["level"]
    # ---- R1 constructibility ----------------------------------------------------------
    rbase = P.cls("pkgcore.restrictions.restriction", "base")
    mutable_state = {}
    ps = P.func(ST, "plan_state.__init__")
    for t, v, _ in A.assignments(ps.node):
        a = A.self_attr(t)
        if a and (isinstance(v, (ast.Dict, ast.List, ast.Set)) or (isinstance(v, ast.Call) and dotted(v.func) in ("set", "dict", "list"))):
            mutable_state[a] = A.unparse(v)
    ctx.require("vdb_filter" in mutable_state, "plan_state.__init__: vdb_filter not initialised to a mutable container")
    n_sites = 0
    for mod in ("pkgcore.resolver.plan", "pkgcore.resolver.state", "pkgcore.resolver.choice_point", "pkgcore.ebuild.resolver"):
        mi = P.module(mod)
        for f in mi.funcs.values():
            for c in A.calls(f.node):
                tgt = P.resolve_name(mi, dotted(c.func) or "")
                if isinstance(tgt, ClassInfo) and any(x is rbase for x in P.mro(tgt)):
                    unhashable = [A.unparse(a) for a in c.args if any(A.unparse(a).endswith("." + m) for m in mutable_state) or isinstance(a, (ast.Set, ast.List, ast.Dict, ast.ListComp, ast.SetComp))]
                    if not unhashable:
                        continue
                    n_sites += 1
                    cached = True
                    for k in P.mro(tgt):
                        if isinstance(k, ClassInfo):
                            if A.try_literal(k.keywords.get("caching"), default=None) is False or A.try_literal(k.assigns.get("__inst_caching__"), default=None) is False:
                                cached = False
                    disabled_here = any(kw.arg == "disable_inst_caching" and A.try_literal(kw.value) is True for kw in c.keywords)
                    ctx.check("R1", f, (not cached) or disabled_here, f"cached-class-gets-unhashable:{tgt.name}", f"{tgt.name}({', '.join(unhashable)}) is not instance-cached (its argument is live, unhashable state)",
                              f"{f.qual} constructs the instance-cached restriction class {tgt.name} with the unhashable argument {unhashable}: snakeoil's caching metaclass raises TypeError, no resolver can be built", node=c)
    ctx.require(n_sites >= 1, "no construction site of a restriction class with live mutable state found")
    init = P.func(PL, "merge_plan.__init__")
    bound = {}
    for t, v, _ in A.assignments(init.node):
        if isinstance(t, ast.Name) and isinstance(v, ast.Attribute) and A.unparse(v.value) == "self":
            tgt = P.func_opt(PL, f"merge_plan.{v.attr}")
            if tgt is not None:
                bound.setdefault(t.id, []).append(tgt)
    for c in A.calls(init.node):
        if isinstance(c.func, ast.Name) and c.func.id in bound:
            for tgt in bound[c.func.id]:
                deco = [dotted(d) for d in tgt.node.decorator_list]
                params = tgt.params()
                if "staticmethod" not in deco:
                    params = params[1:]
                required = len(params) - len(tgt.node.args.defaults)
                ok = required <= len(c.args) <= len(params)
                ctx.check("R1", init, ok, f"arity:{c.func.id}->{tgt.name}", f"`{A.unparse(c)}` matches the arity of its default {tgt.name}({', '.join(params)})",
                          f"merge_plan.__init__ calls `{A.unparse(c)}` with {len(c.args)} argument(s), but its default {tgt.name} takes ({', '.join(params)}): constructing a resolver without that strategy raises TypeError", node=c)
    ctx.floor("R1", 2)

    # ---- R2 five-class table -----------------------------------------------------------------
    K = P.cls(CP, "choice_point")
    ri = K.methods["_reset_iters"]
    init_cp = K.methods["__init__"]
    red = K.methods["reduce_atoms"]
    stt = K.methods["state"]
    cur = [t.id for t, v, _ in A.assignments(ri.node) if isinstance(t, ast.Name) and A.unparse(v) == "self.matches_cur"]
    filled = {A.self_attr(t): A.unparse(v) for t, v, _ in A.assignments(ri.node) if A.self_attr(t)}
    inited = {A.self_attr(t) for t, v, _ in A.assignments(init_cp.node) if A.self_attr(t)}
    red_tuple = set()
    for n in A.body_walk(red.node):
        if isinstance(n, ast.For) and isinstance(n.iter, ast.Tuple):
            red_tuple |= {A.try_literal(e) for e in n.iter.elts}
    state_attrs = A.attrs_of(stt.node, "self")
    slots = A.try_literal(K.assigns.get("__slots__")) or ()
    for dep, slot in DEPS.items():
        prop = K.methods.get(dep)
        rets = A.returns(prop.node) if prop is not None else []
        ctx.check("R2", K, bool(rets) and A.unparse(rets[-1].value) == f"self.{slot}", f"property:{dep}", f"choice_point.{dep} returns self.{slot}")
        ctx.check("R2", ri, filled.get(slot) in ([f"{c}.{dep}.cnf_solutions()" for c in cur] + [f"self.matches_cur.{dep}.cnf_solutions()"]), f"source:{dep}", f"{slot} is filled from the package's own {dep}",
                  f"choice_point._reset_iters fills {slot} from `{filled.get(slot)}`: {dep.upper()} of the chosen package is never resolved (another class's dependencies are resolved in its place)")
        ctx.check("R2", init_cp, slot in inited, f"initialised:{dep}", f"{slot} is initialised in __init__")
        ctx.check("R2", red, slot in red_tuple, f"reduced:{dep}", f"{slot} takes part in reduce_atoms", f"choice_point.reduce_atoms filters {sorted(map(str, red_tuple))}; {slot} is left out, so insoluble {dep.upper()} alternatives are never pruned")
        ctx.check("R2", stt, slot in state_attrs, f"state:{dep}", f"{slot} is part of the state tuple")
        ctx.check("R2", K, slot in slots, f"slotted:{dep}", f"{slot} is declared in __slots__")
    ctx.floor("R2", 30)

    # ---- R3 all classes processed before success ----------------------------------------------
    ra = P.func(PL, "merge_plan._rec_add_atom")
    g = cfg_of(ra.node)
    def pdb_nodes(attr):
        return [g.node_of(c) for c in A.calls(ra.node) if A.unparse(c.func) == "self.process_dependencies_and_blocks" and len(c.args) >= 3 and A.try_literal(c.args[2]) == attr]
    ins = [g.node_of(c) for c in A.calls(ra.node) if A.unparse(c.func) == "self.insert_choice"]
    ctx.require(len(ins) == 1, "_rec_add_atom: insert_choice call not found")
    succ = [n for n in g.nodes if n.kind == "return" and A.try_literal(n.ast.value, default="x") is None and any(isinstance(p, ast.While) for p in A.parents(n.ast))]
    ctx.require(succ, "_rec_add_atom: success returns inside the choice loop not found")
    loop = [n for n in A.body_walk(ra.node) if isinstance(n, ast.While)]
    head = g.node_of(loop[0])
    for dep in ("rdepend", "idepend"):
        nodes = pdb_nodes(dep)
        if not ctx.check("R3", ra, bool(nodes), f"processed:{dep}", f"{dep.upper()} is processed by _rec_add_atom", f"_rec_add_atom never processes {dep.upper()}: a plan can be reported successful with that dependency class unsatisfied"):
            continue
        ok, path = g.must_pass([head], lambda n: n is ins[0], lambda n: n in nodes, edge_ok=lambda a, b, lab: not (b is head))
        ctx.check("R3", ra, ok, f"before-insert:{dep}", f"{dep.upper()} is processed on every path from the top of the choice loop to insert_choice",
                  f"_rec_add_atom can insert the chosen package without having processed its {dep.upper()} ({g.fmt_path(path, ra.relpath) if path else ''})", node=ins[0].ast)
    for dep in ("depend", "bdepend"):
        nodes = pdb_nodes(dep)
        if not ctx.check("R3", ra, bool(nodes), f"processed:{dep}", f"{dep.upper()} is processed by _rec_add_atom", f"_rec_add_atom never processes {dep.upper()}"):
            continue
        guard = [p for p in A.parents(nodes[0].ast) if isinstance(p, ast.If)]
        # the package whose build dependencies are skipped is the one the call processes: its `choices` argument (a local here)
        call = next((c for c in A.calls(nodes[0].ast) if A.unparse(c.func) == "self.process_dependencies_and_blocks"), None)
        ok = bool(guard) and call is not None and M.pat("not $$c.current_pkg.built or self.process_built_depends").matches(guard[0].test, {"$c": call.args[1]}) is not None
        ctx.check("R3", ra, ok, f"build-deps-guard:{dep}", f"{dep.upper()} is skipped only for built packages when built depends are not processed", node=nodes[0].ast)
    pd = pdb_nodes("pdepend")
    if not ctx.check("R3", ra, bool(pd), "processed:pdepend", "PDEPEND is processed by _rec_add_atom", "_rec_add_atom never processes PDEPEND"):
        pd = [ins[0]]
    final_succ = [n for n in succ if ins[0] in g.reach([head]) and n in g.reach([pd[0]])]
    ok, path = g.must_pass([ins[0]], lambda n: n in succ and n.line > pd[0].line, lambda n: n in pd)
    ctx.check("R3", ra, ok and bool(final_succ), "after-insert:pdepend", "after a successful insertion PDEPEND is processed before success is reported",
              f"_rec_add_atom reports success after inserting without processing PDEPEND ({g.fmt_path(path, ra.relpath) if path else ''})")
    ctx.check("R3", ra, pd[0] in g.reach([ins[0]]) and ins[0] not in g.reach([pd[0]], edge_ok=lambda a, b, lab: b is not head), "pdepend-after-insert", "PDEPEND is processed after the package itself was inserted")
    ctx.floor("R3", 6)

    # ---- R4 failure paths roll back ---------------------------------------------------------------
    pdab = P.func(PL, "merge_plan.process_dependencies_and_blocks")
    bts = [c for c in A.calls(pdab.node) if A.unparse(c.func) == "self.state.backtrack"]
    # the failure branch: the result of process_dependencies (whatever the local is called) has length 1
    fail_if = []
    res = M.one(pdab.node, "$l = self.process_dependencies(...)")
    if res is not None:
        fail_if = [n for n in A.body_walk(pdab.node) if isinstance(n, ast.If) and M.pat("len($l) == 1").matches(n.test, res.env) and n.lineno > res.node.lineno]
    ok = len(bts) == 1 and bool(fail_if) and any(A.contains_node(s, bts[0]) for s in fail_if[0].body) and A.unparse(bts[0].args[0]) == "stack.current_frame.start_point"
    ctx.check("R4", pdab, ok, "dependency-failure-target", "a failed dependency class rolls the plan back to the FRAME's start point (everything this candidate added, not just this class)",
              f"process_dependencies_and_blocks backtracks to `{A.unparse(bts[0].args[0]) if bts else None}`: dependencies resolved for earlier classes of the rejected candidate stay in the plan when the next candidate is tried", node=bts[0] if bts else pdab.node)
    conts = [n for n in g.nodes if n.kind == "continue"]
    bt_nodes = {g.node_of(c) for c in A.calls(ra.node) if A.unparse(c.func) == "self.state.backtrack"}
    pdab_nodes = {g.node_of(c) for c in A.calls(ra.node) if A.unparse(c.func) == "self.process_dependencies_and_blocks"}
    for c in conts:
        # each `continue` in the choice loop follows either a failing process_dependencies_and_blocks (which backtracked) or an explicit backtrack
        st = c.ast
        par = getattr(st, "_parent", None)
        ok = False
        if isinstance(par, ast.If):
            # `if <failures>: continue` where <failures> is (whatever it is called) the failure result of the
            # process_dependencies_and_blocks call that was made last before the test, or an explicit rollback in the branch
            ok = (isinstance(par.test, ast.Name) and _last_binding_is_pdab(par, par.test.id)) or \
                 (st in par.body and M.has(par.body, "self.state.backtrack(stack.current_frame.start_point)\ncontinue"))
        ctx.check("R4", ra, ok, f"continue-after-rollback@{par.lineno - ra.node.lineno if par is not None else 0}", "the next candidate is tried only after the plan state was rolled back to the frame start", node=st)
    endbt = [c for c in A.calls(ra.node) if A.unparse(c.func) == "self.state.backtrack" and not any(isinstance(p, ast.While) for p in A.parents(c))]
    ctx.check("R4", ra, len(endbt) == 1 and A.unparse(endbt[0].args[0]) == "stack.current_frame.start_point", "exhausted-rolls-back", "running out of candidates rolls back to the frame start before reporting failure")
    ctx.floor("R4", 5)

    # ---- R5 blockers / slots ------------------------------------------------------------------------
    ib = P.func(PL, "merge_plan.insert_blockers")
    ab = [c for c in A.calls(ib.node) if A.unparse(c.func) == "self.state.add_blocker"]
    ok = len(ab) == 1 and A.unparse(ab[0].args[0]) == ib.params()[2] and any(k.arg == "key" for k in ab[0].keywords)
    ctx.check("R5", ib, ok, "blocker-registered", "every blocker is registered through state.add_blocker under the blocker's key")
    lp = [n for n in ib.node.body if isinstance(n, ast.For)]
    ctx.require(lp, "insert_blockers: loop not found")
    first_cont = [n for n in ast.walk(lp[0]) if isinstance(n, ast.Continue)]
    ctx.check("R5", ib, all(n.lineno > ab[0].lineno for n in first_cont), "registered-before-skip", "a blocker is registered before any early continue")
    el = [c for c in A.calls(ib.node) if A.unparse(c.func) == "self._ensure_livefs_is_loaded"]
    ctx.check("R5", ib, len(el) == 1 and el[0].lineno < ab[0].lineno, "vdb-loaded-before-blocker", "installed packages the blocker may hit are loaded into the plan state first")
    ell = P.func(PL, "merge_plan._ensure_livefs_is_loaded")
    r0 = ell.params()[1]
    tests = [n for n in A.body_walk(ell.node) if isinstance(n, ast.If)]
    src = {t.id: A.unparse(v) for t, v, _ in A.assignments(ell.node) if isinstance(t, ast.Name)}
    ok = bool(tests) and isinstance(tests[0].test, ast.UnaryOp) and isinstance(tests[0].test.operand, ast.Name) and src.get(tests[0].test.operand.id) == f"self.state.match_atom({r0})"
    ok = ok or (bool(tests) and A.unparse(tests[0].test) == f"not self.state.match_atom({r0})")
    ctx.check("R5", ell, ok, "vdb-load-condition", "installed packages are loaded unless something MATCHING the restriction (slot included) is already tracked",
              f"_ensure_livefs_is_loaded skips loading on `{A.unparse(tests[0].test) if tests else None}`: with another slot of the same package already planned, the installed package in this slot is not loaded, so the new version is added next to it (two packages in one slot) or a blocker on it goes unnoticed", node=tests[0] if tests else ell.node)
    ctx.check("R5", ell, M.has(ell.node, f"for $p in self.livefs_dbs.itermatch({r0}):\n    state.add_op(..., force=True).apply(self.state)"), "vdb-load-forced", "installed packages are inserted (forced) from the installed-package repositories")
    ic = P.func(PL, "merge_plan.insert_choice")
    cp = ic.params()[2]
    loaded = M.find(ic.node, f"self._ensure_livefs_is_loaded({cp}.current_pkg.slotted_atom)")
    adds = [c for c in A.calls(ic.node) if A.unparse(c.func) == "state.add_op"]
    ctx.check("R5", ic, bool(loaded) and bool(adds) and loaded[0].node.lineno < min(c.lineno for c in adds), "vdb-loaded-before-insert", "before inserting a non-installed package the installed occupant of its slot is loaded")
    fs = P.func("pkgcore.resolver.pigeonholes", "PigeonHoledSlots.fill_slotting")
    conflict_def = ("$l = self.check_limiters(obj)\n$key = obj.key\n$dslot = obj.slot\n"
                    "$l.extend(($x for $x in self.slot_dict.get($key, ()) if $x.slot == $dslot))\n"
                    "if not $l or force:\n    self.slot_dict.setdefault($key, []).append(obj)\nreturn $l")
    ctx.check("R5", fs, M.has(fs.node, conflict_def), "slot-conflict-definition", "a conflict is a matching limiter or an occupant of the same key and slot; insertion happens only without conflicts (or forced)")
    from .C17 import slot_primitive_exact   # un-slotting one package must not vacate entries of others (slot occupancy is what "one package per slot" is judged on)
    slot_primitive_exact(ctx, "R5")
    inc = P.func(ST, "incref_forward_block_op.apply")
    ra_ = [c for c in A.calls(inc.node) if A.unparse(c.func).endswith(".blockers_refcnt.add")]
    ctx.check("R5", inc, len(ra_) == 1 and not any(isinstance(p, ast.If) for p in A.parents(ra_[0])), "blocker-refcount-unconditional", "every registration of a blocker takes a reference (also when the limiter already exists)",
              "incref_forward_block_op.apply only counts the first registration of a blocker: when a second package with the same blocker is backed out the limiter is removed although the first still needs it", node=ra_[0] if ra_ else inc.node)
    # a blocker that hit something is passed over only after asking the plan state again whether it still hits
    bx = lp[0].target.id if isinstance(lp[0].target, ast.Name) else None
    hit_ifs = [n for n in lp[0].body if isinstance(n, ast.If) and ab and any(isinstance(x, ast.Name) and x.id in {t.id for st_ in lp[0].body if isinstance(st_, ast.Assign) and st_.value is ab[0] for t in st_.targets if isinstance(t, ast.Name)} for x in ast.walk(n.test))]
    ctx.require(hit_ifs and bx, "insert_blockers: the `blocker hit something` arm not found")
    skips = [n for n in ast.walk(hit_ifs[0]) if isinstance(n, ast.Continue)]
    ctx.check("R5", ib, bool(skips), "hit-blocker-skip-present", "a weak blocker resolved by pulling in another version can be passed over")
    rechecked = {t.id for n in ast.walk(hit_ifs[0]) if isinstance(n, ast.Assign) and isinstance(n.value, ast.Call) and A.unparse(n.value) == f"self.state.match_atom({bx})"
                 for t in n.targets if isinstance(t, ast.Name)}
    for sk in skips:
        guards = [p for p in A.parents(sk) if isinstance(p, ast.If) and A.contains_node(hit_ifs[0], p)]
        innermost = guards[0] if guards else None
        ok = innermost is not None and (A.unparse(innermost.test) == f"not self.state.match_atom({bx})" or (
            isinstance(innermost.test, ast.UnaryOp) and isinstance(innermost.test.operand, ast.Name) and innermost.test.operand.id in rechecked
            and any(isinstance(st_, ast.Assign) and A.unparse(st_.value) == f"self.state.match_atom({bx})" and st_.lineno < innermost.lineno and st_.lineno > ab[0].lineno
                    for p_ in guards[1:2] for st_ in p_.body)))
        ctx.check("R5", ib, ok, "hit-blocker-rechecked", "a blocker that hit a package is passed over only after state.match_atom(blocker) was asked again and found nothing",
                  "insert_blockers passes over a blocker that hit a package as soon as another version could be added: if that version went into a different slot the blocked "
                  "package is still in the plan, and the result contains a package together with one it blocks", node=sk)
    ctx.floor("R5", 10)


def _last_binding_is_pdab(if_stmt, name):
    """the statement that last bound `name` before `if_stmt` (same block) is `_, name = self.process_dependencies_and_blocks(...)`"""
    holder = getattr(if_stmt, "_parent", None)
    for fld in ("body", "orelse", "finalbody"):
        body = getattr(holder, fld, None)
        if isinstance(body, list) and any(s is if_stmt for s in body):
            before = body[:[s is if_stmt for s in body].index(True)]
            for s in reversed(before):
                if any(isinstance(n, ast.Name) and isinstance(n.ctx, ast.Store) and n.id == name for n in ast.walk(s)):
                    return M.pat("$_, $f = self.process_dependencies_and_blocks(...)").matches(s, {"f": name}) is not None
    return False


MUTANTS = [
    {"name": "cached-mutable-restriction", "file": "src/pkgcore/resolver/plan.py", "old": "class MutableContainmentRestriction(values.base, caching=False):", "new": "class MutableContainmentRestriction(values.base):", "rule": "R1"},
    {"name": "ideps-from-pdepend", "file": "src/pkgcore/resolver/choice_point.py", "old": "        self._ideps = cur.idepend.cnf_solutions()", "new": "        self._ideps = cur.pdepend.cnf_solutions()", "rule": "R2"},
    {"name": "ideps-not-reduced", "file": "src/pkgcore/resolver/choice_point.py", "old": "(\"_bdeps\", \"_deps\", \"_rdeps\", \"_prdeps\", \"_ideps\")", "new": "(\"_bdeps\", \"_deps\", \"_rdeps\", \"_prdeps\")", "rule": "R2"},
    {"name": "idepend-skipped", "file": "src/pkgcore/resolver/plan.py", "old": "            new_additions, failures = self.process_dependencies_and_blocks(\n                stack, choices, \"idepend\", atom, depth\n            )\n            if failures:\n                continue\n            additions += new_additions\n", "new": "", "rule": "R3"},
    {"name": "local-revert-point", "file": "src/pkgcore/resolver/plan.py", "old": "            self.state.backtrack(stack.current_frame.start_point)\n            return [], l[0]", "new": "            self.state.backtrack(revert_point)\n            return [], l[0]", "rule": "R4"},
    {"name": "vdb-load-by-key", "file": "src/pkgcore/resolver/plan.py", "old": "        l = self.state.match_atom(restrict)\n        if not l:\n            # hmm. ok... no conflicts", "new": "        if not self.state.state.slot_dict.get(restrict.key):\n            # hmm. ok... no conflicts", "rule": "R5"},
    {"name": "insert-failure-no-rollback", "file": "src/pkgcore/resolver/plan.py", "old": "                self.state.backtrack(stack.current_frame.start_point)\n                choices.force_next_pkg()\n                continue", "new": "                choices.force_next_pkg()\n                continue", "rule": "R4"},
    {"name": "pdepend-before-insert", "file": "src/pkgcore/resolver/plan.py", "old": "            l = self.insert_choice(atom, choices)\n            if l is False:", "new": "            new_additions, failures = self.process_dependencies_and_blocks(\n                stack, choices, \"pdepend\", atom, depth\n            )\n            if failures:\n                continue\n            l = self.insert_choice(atom, choices)\n            if l is False:", "rule": "R3"},
]
TWINS = []
