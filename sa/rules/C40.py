"""C40 — keywording requests only name valid, narrowed, not-yet-present arches."""
import ast
import itertools

from ..core import astutil as A
from ..core import match as M
from ..core.model import dotted
from ..core.report import AnalysisError

META = {
    "technique": "flow-sensitive validation-barrier (taint) analysis over match_packages' loop body: every arch collection that can reach a yielded request must have passed `frozenset(X) - valid_arches -> raise` (filters keep the mark, concatenation needs it on both sides, element transformations drop it); must-pass rule for the prefix filter on every return of suggested_keywords; decision table of the only-new predicate over (arch stable here, ~arch here, stabilizing); guard-position rule for the stabilization spec check; shape rules for the narrowing filters",
    "level": "Decides the structural clauses: no arch reaches a request without having been checked against the repository's known arches — whatever its origin (written, '*' expansion, '^' copy, cc arches, all-arches candidates); suggestions never contain a prefix keyword; only-new drops exactly the arches already carried (stable arch when stabilizing, arch or ~arch when keywording); stabilization suggestions = stable on another version AND testing on this one; non-'=' or slotted specs are rejected before anything else when stabilizing; cc-arch and arch-filter narrowing are membership filters applied to every yielded line. Does NOT decide results on concrete repositories.",
    "note": "",
}
META["technique"] += "; " + 'generic pack G on the anchored files (optional-flag shift, closures outliving a loop iteration, single-pass iterables consumed twice, %-templates built from data, in-place writes to class-level / memoised objects, generators mutating what they yielded, memo keys that are projections)'
MOD = "pkgcore.ebuild.keywording"
PASS = {"list", "tuple", "sorted", "sort_keywords", "frozenset", "set"}


def eff(stmts):
    """statements that do something: no `pass`, bare constants (docstrings, no-ops), logging calls"""
    out = []
    for s in stmts:
        if isinstance(s, ast.Pass):
            continue
        if isinstance(s, ast.Expr):
            v = s.value
            if isinstance(v, ast.Constant):
                continue
            if isinstance(v, ast.Call) and (dotted(v.func) or "").startswith(("logger.", "logging.", "warnings.")):
                continue
        out.append(s)
    return out


class Taint:
    def __init__(self, ctx, fn, valid, carried):
        """valid: current spelling of the reference set (`frozenset(repo.known_arches)`), carried: loop-carried
        arch collections (what a '^' line copies) — both located by role in run()"""
        self.ctx, self.fn = ctx, fn
        self.valid, self.carried = valid, carried
        self.yields = []
        self.prev_ok = True
        self.barriers = 0

    def ev(self, e, st):
        if isinstance(e, ast.Name):
            return st.get(e.id, False)
        if isinstance(e, (ast.List, ast.Tuple)) and not e.elts:
            return True
        if isinstance(e, ast.BinOp) and isinstance(e.op, ast.Add):
            return self.ev(e.left, st) and self.ev(e.right, st)
        if isinstance(e, ast.Call) and (dotted(e.func) or "") in PASS and len(e.args) == 1:
            return self.ev(e.args[0], st)
        if isinstance(e, (ast.ListComp, ast.GeneratorExp, ast.SetComp)) and len(e.generators) == 1:
            g = e.generators[0]
            if any(isinstance(c, ast.Compare) and isinstance(c.ops[0], ast.In) and A.unparse(c.comparators[0]) == self.valid and A.unparse(c.left) == A.unparse(g.target) for c in g.ifs):
                return True
            if isinstance(e.elt, ast.Name) and isinstance(g.target, ast.Name) and e.elt.id == g.target.id:
                return self.ev(g.iter, st)
            return False  # elements are transformed: whatever was validated is not what comes out
        return False

    def block(self, stmts, st):
        """returns state at fall-through, or None when every path leaves (continue/raise/return)"""
        for s in stmts:
            if isinstance(s, (ast.Continue, ast.Raise, ast.Return, ast.Break)):
                return None
            if isinstance(s, ast.Assign) and len(s.targets) == 1 and isinstance(s.targets[0], ast.Name):
                v = self.ev(s.value, st)
                if s.targets[0].id in self.carried:
                    self.prev_ok = self.prev_ok and v
                    self.ctx.check("R1", self.fn, v, "previous-validated", "`previous` (what '^' copies) is only ever set from validated keywords", "`previous` is set from unvalidated keywords: a '^' line copies unchecked arches", node=s)
                    st[s.targets[0].id] = True
                else:
                    st[s.targets[0].id] = v
                continue
            if isinstance(s, ast.AnnAssign) and isinstance(s.target, ast.Name) and s.value is not None:
                st[s.target.id] = self.ev(s.value, st)
                continue
            if isinstance(s, ast.AugAssign) and isinstance(s.target, ast.Name):
                st[s.target.id] = st.get(s.target.id, False) and self.ev(s.value, st)
                continue
            if isinstance(s, ast.Expr) and isinstance(s.value, ast.Yield):
                y = s.value.value
                if isinstance(y, ast.Call) and dotted(y.func) == "KeywordRequest" and len(y.args) == 2:
                    self.yields.append((s, self.ev(y.args[1], st), A.unparse(y.args[1])))
                continue
            if isinstance(s, ast.If):
                t = s.test
                # validation barrier
                if isinstance(t, ast.NamedExpr) and isinstance(t.value, ast.BinOp) and isinstance(t.value.op, ast.Sub) and A.unparse(t.value.right) == self.valid and any(isinstance(x, ast.Raise) for x in s.body):
                    inner = t.value.left
                    if isinstance(inner, ast.Call) and dotted(inner.func) in ("frozenset", "set") and isinstance(inner.args[0], ast.Name):
                        st[inner.args[0].id] = True
                        self.barriers += 1
                        continue
                a, b = dict(st), dict(st)
                if isinstance(t, ast.UnaryOp) and isinstance(t.op, ast.Not) and isinstance(t.operand, ast.Name):
                    a[t.operand.id] = True  # empty collection
                ra = self.block(s.body, a)
                rb = self.block(s.orelse, b)
                if ra is None and rb is None:
                    return None
                if ra is None:
                    st.clear(); st.update(rb)
                elif rb is None:
                    st.clear(); st.update(ra)
                else:
                    keys = set(ra) | set(rb)
                    m = {k: ra.get(k, False) and rb.get(k, False) for k in keys}
                    st.clear(); st.update(m)
                continue
            if isinstance(s, ast.Expr):
                continue
            raise AnalysisError(f"validation analysis: statement form not understood: {A.unparse(s)[:60]}")
        return st


def only_new_table(fn, comp, pkg):
    """rows (A: k stable here, B: ~k here, S: stabilizing) -> kept?"""
    g = comp.generators[0]
    var = g.target.id
    locs = {t.id: v for t, v, _ in A.assignments(fn.node) if isinstance(t, ast.Name)}

    def strval(e, S):
        """render a string expression to 'k' / '~k' / None"""
        if isinstance(e, ast.Name) and e.id == var:
            return "k"
        if isinstance(e, ast.Constant) and isinstance(e.value, str):
            return e.value
        if isinstance(e, ast.Name) and e.id in locs:
            return strval(locs[e.id], S)
        if isinstance(e, ast.IfExp):
            c = boolval(e.test, None, None, S)
            return strval(e.body if c else e.orelse, S)
        if isinstance(e, ast.JoinedStr):
            out = ""
            for p in e.values:
                s = strval(p.value if isinstance(p, ast.FormattedValue) else p, S)
                if s is None:
                    return None
                out += s
            return out
        return None

    def boolval(e, Aq, Bq, S):
        if isinstance(e, ast.Name) and e.id == "stable":
            return S
        if isinstance(e, ast.BoolOp):
            vs = [boolval(x, Aq, Bq, S) for x in e.values]
            return all(vs) if isinstance(e.op, ast.And) else any(vs)
        if isinstance(e, ast.UnaryOp) and isinstance(e.op, ast.Not):
            return not boolval(e.operand, Aq, Bq, S)
        if isinstance(e, ast.Compare) and len(e.ops) == 1 and isinstance(e.ops[0], (ast.In, ast.NotIn)) and A.unparse(e.comparators[0]) == f"{pkg}.keywords":
            s = strval(e.left, S)
            if s == "k":
                m = Aq
            elif s == "~k":
                m = Bq
            else:
                raise AnalysisError(f"only-new predicate: membership of `{A.unparse(e.left)}` not understood")
            return m if isinstance(e.ops[0], ast.In) else not m
        raise AnalysisError(f"only-new predicate: `{A.unparse(e)}` not understood")

    rows = {}
    for Aq, Bq, S in itertools.product([False, True], repeat=3):
        rows[(Aq, Bq, S)] = all(boolval(c, Aq, Bq, S) for c in g.ifs)
    return rows


def run(ctx):
    P = ctx.program
    ctx.explanation = META["level"]
    mp = P.func(MOD, "match_packages")
    loops = [n for n in mp.node.body if isinstance(n, ast.For)]
    ctx.require(len(loops) == 1, "match_packages: request loop not found")
    lp = loops[0]
    ctx.require(isinstance(lp.target, ast.Tuple) and len(lp.target.elts) == 2 and all(isinstance(e, ast.Name) for e in lp.target.elts), "match_packages: request loop does not unpack (spec, written keywords)")
    dep = lp.target.elts[0].id
    # ---- R1 validation barrier ---------------------------------------------------------------------
    # the reference set, by what it is built from (its local name is free)
    vm = M.one(mp.node.body, "$va = frozenset(repo.known_arches)")
    valid = vm["va"] if vm else None
    # loop-carried arch collections (today: what '^' copies): set before the loop, re-set inside it from a non-constant
    pre = {}
    for s in mp.node.body:
        if s is lp:
            break
        if isinstance(s, ast.Assign):
            pre.update({t.id: s.value for t in s.targets if isinstance(t, ast.Name)})
        elif isinstance(s, ast.AnnAssign) and isinstance(s.target, ast.Name) and s.value is not None:
            pre[s.target.id] = s.value
    carried = {n.targets[0].id for n in A.walk(lp) if isinstance(n, ast.Assign) and len(n.targets) == 1 and isinstance(n.targets[0], ast.Name)
               and n.targets[0].id in pre and not isinstance(n.value, ast.Constant)}
    ta = Taint(ctx, mp, valid, carried)
    st = {"cc_arches": False}
    for c in carried:  # induction over the lines: holds before the first line iff it starts out empty
        st[c] = A.is_const(pre[c], None) or ta.ev(pre[c], {})
    ta.block(lp.body, st)
    ctx.check("R1", mp, len(ta.yields) >= 2, f"yield-sites:{len(ta.yields)}", f"{len(ta.yields)} yield sites of KeywordRequest")

    def on_empty_branch(s):
        """the yield sits under `if not <the yielded keywords>`"""
        kwarg = s.value.value.args[1]
        return any(isinstance(p, ast.If) and isinstance(p.test, ast.UnaryOp) and isinstance(p.test.op, ast.Not) and A.unparse(p.test.operand) == A.unparse(kwarg) for p in A.parents(s))

    for s, ok, txt in ta.yields:
        ctx.check("R1", mp, ok, f"yield-validated@{'empty' if on_empty_branch(s) else 'main'}", f"`yield KeywordRequest(pkg, {txt})`: every arch in it has been checked against the repo's known arches",
                  f"match_packages yields `{txt}` on a path where some of its arches were never checked against repo.known_arches (arches that enter through '*' expansion, '^' copy, cc arches or the all-arches candidates come from ebuild KEYWORDS and may name an arch the repository dropped)", node=s)
    ctx.check("R1", mp, ta.barriers >= 2, f"barriers:{ta.barriers}", f"{ta.barriers} validation barriers (`frozenset(X) - valid_arches` -> raise) recognised")
    ctx.check("R1", mp, vm is not None, "known-arches-source", "the reference set is the repository's known arches")
    ctx.floor("R1", 5)

    # the names the yielded request is built from (roles: the selected version, the arches of the line)
    main_y = [s for s, _, _ in ta.yields if not any(isinstance(p, ast.If) for p in A.parents(s) if p is not lp and isinstance(p, ast.If))]
    ys = [s.value.value for s in (main_y or [s for s, _, _ in ta.yields])]
    ctx.require(bool(ys) and all(isinstance(a, ast.Name) for a in ys[0].args), "match_packages: `yield KeywordRequest(<pkg>, <keywords>)` of plain locals not found")
    pkg, kw = ys[0].args[0].id, ys[0].args[1].id
    E = {"pkg": pkg, "kw": kw, "dep": dep}

    # ---- R2 prefix keywords never suggested ----------------------------------------------------------------
    sk = P.func(MOD, "suggested_keywords")
    for r in A.returns(sk.node):
        txt = A.unparse(r.value)
        ok = r.value is not None and bool(M.pat("frozenset(filter_prefix_keywords($_))").matches(r.value) or M.pat("filter_prefix_keywords($_)").matches(r.value))
        ctx.check("R2", sk, ok, f"return-filtered:{txt[:40]}", f"`return {txt[:50]}` passes everything through filter_prefix_keywords",
                  f"suggested_keywords returns `{txt}` without the prefix-keyword filter: keywording suggestions name prefix arches (x86-macos, amd64-linux)", node=r)
    fp = P.func(MOD, "filter_prefix_keywords")
    fr = A.returns(fp.node)
    ctx.check("R2", fp, len(fr) == 1 and fr[0] is eff(fp.node.body)[-1] and bool(M.pat("return [$x for $x in keywords if '-' not in $x]").matches(fr[0])), "prefix-is-dash", "a prefix keyword is one containing '-'")
    ctx.floor("R2", 2)

    # ---- R3 only-new decision table ----------------------------------------------------------------------------
    on = [n for n in A.walk(lp) if isinstance(n, ast.If) and A.unparse(n.test) == "only_new"]
    ctx.require(len(on) == 1, "match_packages: only_new branch not found")
    comps = [v for t_, v, _ in A.assignments(on[0], kw) if isinstance(v, ast.ListComp)]
    ctx.require(len(comps) == 1, "match_packages: only_new filter not found")
    rows = only_new_table(mp, comps[0], pkg)
    bad = []
    for (Aq, Bq, S), kept in sorted(rows.items()):
        present = Aq if S else (Aq or Bq)
        if kept != (not present):
            bad.append(f"{'stabilizing' if S else 'keywording'}: arch {'stable' if Aq else ''}{'+' if Aq and Bq else ''}{'~testing' if Bq else ''}{'absent' if not (Aq or Bq) else ''} here -> {'kept' if kept else 'dropped'}")
    ctx.check("R3", mp, not bad, f"only-new-table:{bad[0][:60] if bad else 'ok'}", "only-new keeps an arch iff the selected version does not carry it yet (stable arch when stabilizing; arch or ~arch when keywording) — all 8 rows",
              f"the only-new predicate is wrong for: {'; '.join(bad)}", node=comps[0])
    done = M.one(on[0].body, "if not $kw:\n    $flag = True\n    continue", E)
    ctx.check("R3", mp, done is not None and M.has(mp.node.body, "if $flag:\n    raise PackageListDoneAlready($_)", done.env), "all-present-reported", "a request whose arches are all present already is reported as done")
    ctx.floor("R3", 2)

    # ---- R4 stabilization spec check ----------------------------------------------------------------------------------
    first = eff(lp.body)[0]
    ok = bool(M.pat("if stable and ($dep.op != '=' or $dep.slot):\n    raise PackageInvalid($_)").matches(first, E)) and isinstance(eff(first.body)[0], ast.Raise)
    ctx.check("R4", mp, ok, "spec-rejected-first", "when stabilizing, a spec that is not a plain =cpv is rejected before anything is matched",
              "match_packages no longer rejects non-'=' / slotted specs first when stabilizing", node=first)
    ctx.check("R4", mp, M.has(lp.body, "$pkg = $m[0] if stable and $m else select_best_version($m)\nif $pkg is None:\n    raise PackageNoMatch($_)", E), "no-match-raises", "an unmatched spec raises PackageNoMatch")
    ctx.floor("R4", 2)

    # ---- R5 suggestion semantics ----------------------------------------------------------------------------------------
    cand = M.one(sk.node.body, "$dis = '-~' if stable else '-'\n$cand = {$x.lstrip('~') for $other in repo.match(pkg.unversioned_atom) for $x in $other.keywords if $x[0] not in $dis}")
    ctx.check("R5", sk, cand is not None, "candidates", "candidates: stable (stabilizing) / any non-negative (keywording) keywords of the package's versions")
    CE = {"cand": cand["cand"]} if cand else {}
    ifs = [n for n in sk.node.body if isinstance(n, ast.If) and A.unparse(n.test) == "stable" and not getattr(n, "_from_ternary", False)]
    ctx.require(len(ifs) == 1, "suggested_keywords: stable branch not found")
    arm, other = eff(ifs[0].body), eff(ifs[0].orelse)
    tb = A.unparse(arm[-1]) if arm else ""

    def testing_here(body):
        """some comprehension over `pkg.keywords` whose (first) condition is `<element>[0] == '~'`"""
        for n in A.walk_body(body):
            if isinstance(n, ast.comprehension) and isinstance(n.target, ast.Name) and A.unparse(n.iter) == "pkg.keywords" and n.ifs \
                    and M.pat("$x[0] == '~'").matches(n.ifs[0], {"x": n.target.id}):
                return True
        return False

    ctx.check("R5", sk, bool(arm) and bool(M.pat("$cand &= $_").matches(arm[-1], CE)) and testing_here(ifs[0].body), "stable-needs-testing-here", "stabilizing: only arches that are ~testing on this version",
              f"the stabilizing arm is `{tb[:80]}`", node=ifs[0])
    ctx.check("R5", sk, bool(other) and bool(M.pat("$cand -= {$x.lstrip('~-') for $x in pkg.keywords}").matches(other[-1], CE)), "keywording-needs-absent-here", "keywording: only arches this version does not mention at all")
    ctx.floor("R5", 3)

    # ---- R6 narrowing ---------------------------------------------------------------------------------------------------------
    ctx.check("R6", mp, M.has(lp.body, "if $_:\n    ...\nelif cc_arches:\n    $kw = [$x for $x in $kw if $x in cc_arches]", E), "cc-narrowing", "a line with keywords is narrowed to the cc arches")
    ctx.check("R6", mp, M.has(lp.body, "if not $kw:\n    $kw = list(cc_arches)", E), "cc-inherited", "a line without keywords inherits the cc arches")
    fa = [n for n in A.walk(lp) if isinstance(n, ast.If) and A.unparse(n.test) == "filter_arch"]
    ok = len(fa) == 1 and bool(M.pat("$kw = [$k for $k in $kw if $k in filter_arch]").matches(eff(fa[0].body)[0], E))
    ctx.check("R6", mp, ok, "arch-filter", "the arch filter keeps only the listed arches")
    ctx.check("R6", mp, len(main_y) == 1 and fa and on and on[0].lineno < fa[0].lineno < main_y[0].lineno, "narrowing-before-yield", "only-new and arch-filter both precede the yield of a line")
    readd = M.one(lp.body, "$kw += [$k for $k in $akw if $k not in $kw]", E)
    ctx.check("R6", mp, readd is not None and M.has(lp.body, "if allarches and stable and filter_arch:\n    $akw = $_", readd.env), "allarches-readd", "all-arches candidates are re-added only for an arch-filtered stabilization")
    ctx.floor("R6", 5)


F = "src/pkgcore/ebuild/keywording.py"
MUTANTS = [
    {"name": "validate-before-expansion", "file": F, "old": "        if ALL_KEYWORDS in keywords:\n            keywords = sort_keywords(suggested_keywords(repo, pkg, stable=stable)) + [\n                x for x in keywords if x != ALL_KEYWORDS\n            ]\n        if SAME_KEYWORDS in keywords:\n            if previous is None:\n                raise KeywordNoMatch(f\"invalid use of {SAME_KEYWORDS} on first line\")\n            keywords = previous + [x for x in keywords if x != SAME_KEYWORDS]\n\n        if unknown := frozenset(keywords) - valid_arches:\n            raise KeywordNoMatch(f\"incorrect keywords: {' '.join(sorted(unknown))}\")\n", "new": "        if unknown := frozenset(keywords) - valid_arches - {ALL_KEYWORDS, SAME_KEYWORDS}:\n            raise KeywordNoMatch(f\"incorrect keywords: {' '.join(sorted(unknown))}\")\n        if ALL_KEYWORDS in keywords:\n            keywords = sort_keywords(suggested_keywords(repo, pkg, stable=stable)) + [\n                x for x in keywords if x != ALL_KEYWORDS\n            ]\n        if SAME_KEYWORDS in keywords:\n            if previous is None:\n                raise KeywordNoMatch(f\"invalid use of {SAME_KEYWORDS} on first line\")\n            keywords = previous + [x for x in keywords if x != SAME_KEYWORDS]\n", "rule": "R1"},
    {"name": "revert-allarches-unchecked", "file": F, "old": "            # taken from ebuild KEYWORDS, so checked like any other expansion\n            if unknown := frozenset(allarches_kw) - valid_arches:\n                raise KeywordNoMatch(\n                    f\"incorrect keywords: {' '.join(sorted(unknown))}\"\n                )\n", "new": "", "rule": "R1"},
    {"name": "cc-arches-unchecked", "file": F, "old": "            keywords = list(cc_arches)\n            # inherited arches are requested just like written ones\n            if unknown := frozenset(keywords) - valid_arches:\n                raise KeywordNoMatch(\n                    f\"incorrect keywords: {' '.join(sorted(unknown))}\"\n                )\n", "new": "            keywords = list(cc_arches)\n", "rule": "R1"},
    {"name": "prefix-filter-dropped", "file": F, "old": "    return frozenset(filter_prefix_keywords(candidates))", "new": "    return frozenset(candidates)", "rule": "R2"},
    {"name": "only-new-single-test", "file": F, "old": "            keywords = [\n                k\n                for k in keywords\n                if k not in pkg.keywords and (stable or f\"~{k}\" not in pkg.keywords)\n            ]", "new": "            carried = \"\" if stable else \"~\"\n            keywords = [k for k in keywords if f\"{carried}{k}\" not in pkg.keywords]", "rule": "R3"},
    {"name": "only-new-testing-counts-when-stabilizing", "file": F, "old": "                if k not in pkg.keywords and (stable or f\"~{k}\" not in pkg.keywords)", "new": "                if k not in pkg.keywords and f\"~{k}\" not in pkg.keywords", "rule": "R3"},
    {"name": "slotted-spec-accepted", "file": F, "old": "        if stable and (dep.op != \"=\" or dep.slot):", "new": "        if stable and dep.op != \"=\":", "rule": "R4"},
    {"name": "stable-suggestion-not-testing-here", "file": F, "old": "        candidates &= {x.lstrip(\"~\") for x in pkg.keywords if x[0] == \"~\"}", "new": "        candidates -= {x for x in pkg.keywords if x[0] != \"~\"}", "rule": "R5"},
    {"name": "cc-narrowing-dropped", "file": F, "old": "            keywords = [x for x in keywords if x in cc_arches]\n", "new": "            keywords = list(keywords)\n", "rule": "R6"},
]
TWINS = [
    {"name": "only-new-de-morgan", "file": F, "old": "                if k not in pkg.keywords and (stable or f\"~{k}\" not in pkg.keywords)", "new": "                if not (k in pkg.keywords or (not stable and f\"~{k}\" in pkg.keywords))"},
]
