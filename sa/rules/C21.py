"""C21 — protected configuration files are never silently overwritten or removed (structural clauses)."""
import ast

from ..core import astutil as A
from ..core.model import dotted

META = {
    "technique": "primitive local type facts (no string method on a list-typed local), sibling offset-discipline table, directory-anchoring rule of every protect/mask glob, def-use rule for the pending-update comparison (the path checksummed is the ._cfgNNNN_ directory entry), aliasing rule for the per-file update lists, loop-scope rule for error handling in the uninstall scan, rename-map closure",
    "level": "Decides: (R1) the filter builders never call a string method on a list-typed local; (R2) every CONFIG_PROTECT / CONFIG_PROTECT_MASK glob is directory-anchored: '/' is appended AFTER normalisation, in all three construction sites; (R3) the incoming file is compared with the pending ._cfgNNNN_ file itself, each protected file has its own list of pending updates, the chosen number reuses an identical pending update or exceeds every existing number, and every renamed entry is restored to its real name afterwards; (R4) on uninstall a protected file whose checksum differs is dropped from the uninstall set, and a file that vanished mid-scan only skips itself (error handling inside the loop); (R5) trigger-side pattern builders join the engine offset into root-relative configured paths. Does NOT decide concrete env.d configurations.",
    "note": "cset locations are offset-prefixed when the engine has an offset (merge/engine.py generate_offset_cset)",
}
MOD = "pkgcore.ebuild.triggers"
STR_METHODS = {"rstrip", "lstrip", "strip", "endswith", "startswith", "split", "lower", "upper", "replace", "format", "join"}


def list_typed_locals(fn):
    out = set()
    for t, v, _ in A.assignments(fn.node):
        if isinstance(t, ast.Name):
            if isinstance(v, (ast.List, ast.ListComp)) or (isinstance(v, ast.Call) and (dotted(v.func) in ("list", "stable_unique", "sorted") or A.call_attr(v) == "setdefault" and len(v.args) == 2 and isinstance(v.args[1], ast.List))):
                out.add(t.id)
    return out


def glob_expr(P, arg, off):
    """The pattern expression of a glob site, looking through one module-level helper; -> (expr, uses offset, via-text)."""
    if isinstance(arg, ast.Call) and isinstance(arg.func, ast.Name):
        h = P.func_opt(MOD, arg.func.id)
        if h is not None:
            rets = A.returns(h.node)
            if len(rets) == 1 and rets[0].value is not None:
                ps = h.params()
                passed = [ps[i] for i, x in enumerate(arg.args) if i < len(ps) and off in A.names_in(x)]
                e = rets[0].value
                return e, any(p in A.names_in(e) for p in passed), f" (via {h.name})"
    return arg, off in A.names_in(arg), ""


def run(ctx):
    P = ctx.program
    ctx.explanation = META["level"]
    cpf = P.func(MOD, "gen_config_protect_filter")
    cif = P.func(MOD, "gen_collision_ignore_filter")
    # ---- R1 type confusion ----------------------------------------------------------
    for f in (cpf, cif):
        lists = list_typed_locals(f)
        ctx.require(lists, f"{f.qual}: no list-typed locals found")
        for c in A.calls(f.node):
            if isinstance(c.func, ast.Attribute) and c.func.attr in STR_METHODS and isinstance(c.func.value, ast.Name):
                nm = c.func.value.id
                ctx.check("R1", f, nm not in lists, f"str-method-on-list:{nm}.{c.func.attr}", f"`{A.unparse(c)[:40]}`: receiver is not a list-typed local",
                          f"{f.qual} calls the string method .{c.func.attr}() on `{nm}`, which is a list: AttributeError as soon as that branch runs", node=c)
    # list-consumed env.d keys must be declared list-valued (collapse_envd collapses every other key to a string)
    inc = A.try_literal(P.module(MOD).assigns["incrementals"].args[0]) if isinstance(P.module(MOD).assigns.get("incrementals"), ast.Call) else None
    ctx.require(inc, "triggers.incrementals table not readable")
    for f in (cpf, cif):
        dname = None
        for t_, v, _ in A.assignments(f.node):
            if "collapse_envd(" in A.unparse(v) and isinstance(t_, ast.Tuple):
                dname = t_.elts[0].id
        ctx.require(dname, f"{f.qual}: collapse_envd result not found")
        keys = set()
        for n in A.walk(f.node):
            if isinstance(n, ast.Subscript) and A.unparse(n.value) == dname and isinstance(n.slice, ast.Constant):
                keys.add(n.slice.value)
            if isinstance(n, ast.Call) and A.call_attr(n) in ("setdefault", "get", "pop") and A.unparse(n.func.value) == dname and n.args and isinstance(n.args[0], ast.Constant) and len(n.args) > 1 and isinstance(n.args[1], ast.List):
                keys.add(n.args[0].value)
        for k in sorted(keys):
            ctx.check("R1", f, k in inc, f"list-key-declared:{k}", f"{k} is consumed as a list and is declared list-valued in `incrementals`",
                      f"{f.qual} consumes env.d key {k} as a list (.extend / + [...]), but {k} is not in `incrementals`, so collapse_envd hands back a plain string: AttributeError/TypeError as soon as env.d defines it", node=f.node)
    ctx.floor("R1", 5)

    # ---- R2 directory anchoring -----------------------------------------------------------
    globs = [c for c in A.calls(cpf.node) if (dotted(c.func) or "").endswith("StrGlobMatch")]
    ctx.check("R2", cpf, len(globs) == 3, f"glob-sites:{len(globs)}", "gen_config_protect_filter builds the protect globs and the single/multiple mask globs (3 sites)")
    off = cpf.params()[0]
    for c in globs:
        a, uses_off, via = glob_expr(P, c.args[0], off)
        ok = isinstance(a, ast.BinOp) and isinstance(a.op, ast.Add) and A.is_const(a.right, "/") and "normpath(" in A.unparse(a.left) and A.unparse(a.left).endswith(".rstrip('/')")
        kind = "mask" if any(k.arg == "negate" for k in c.keywords) or "neg" in A.unparse(c) + A.unparse(getattr(c, "_parent", c)) else "protect"
        ctx.check("R2", cpf, ok, f"dir-anchored@{kind}:{A.unparse(c.args[0])[:44]}",
                  f"{kind} glob `{A.unparse(c.args[0])[:50]}`{via} ends with '/' appended after normalisation (matches only inside that directory)",
                  f"the {kind} glob `{A.unparse(c.args[0])}`{via} is not directory-anchored (normpath drops a trailing '/'): a masked `<dir>/env.d` also unprotects `<dir>/env.d.local/...`", node=c)
        ctx.check("R5", cpf, uses_off, f"offset-joined@{kind}:{A.unparse(c.args[0])[:44]}",
                  f"{kind} glob joins the engine offset into the configured root-relative path",
                  f"the {kind} glob `{A.unparse(c.args[0])}` is built from a root-relative configured path without the offset, while csets carry offset-prefixed locations: with a non-'/' offset it never matches", node=c)
    t = A.unparse(cpf.node)
    ctx.check("R2", cpf, "collapsed_d['CONFIG_PROTECT'] + ['/etc']" in t, "etc-always-protected", "/etc is always protected")
    negs = [c for c in A.calls(cpf.node) if any(k.arg == "negate" and A.try_literal(k.value) is True for k in c.keywords)]
    ctx.check("R2", cpf, len(negs) == 2, "mask-negated", "the mask restriction is negated in both the single and the multiple form")
    ctx.check("R2", cpf, "values.AndRestriction(r, r2)" in t, "protect-and-not-masked", "protected = under CONFIG_PROTECT and not under CONFIG_PROTECT_MASK")
    ctx.floor("R2", 6)

    # ---- R3 pending updates ------------------------------------------------------------------
    tr = P.func(MOD, "ConfigProtectInstall.trigger")
    upd = [(t_, v, st) for t_, v, st in A.assignments(tr.node, "updates")]
    ctx.require(upd, "ConfigProtectInstall.trigger: `updates` table not found")
    v = upd[0][1]
    ok = isinstance(v, ast.DictComp) and isinstance(v.value, ast.List) and not v.value.elts
    ctx.check("R3", tr, ok, "own-list-per-file", "every protected file gets its own list of pending updates",
              f"`updates = {A.unparse(v)[:60]}`: the files of one directory share one list of pending updates, so a file can reuse (and overwrite) a sibling's ._cfgNNNN_ number", node=upd[0][2])
    ex_loop = [n for n in A.body_walk(tr.node) if isinstance(n, ast.For) and A.unparse(n.iter) == "existing"]
    ctx.require(ex_loop, "ConfigProtectInstall.trigger: scan of existing ._cfg files not found")
    entry = A.unparse(ex_loop[0].target)
    app = [c for c in A.calls(ex_loop[0]) if A.call_attr(c) == "append" and "updates[" in A.unparse(c.func)]
    ctx.require(app, "ConfigProtectInstall.trigger: recording of pending updates not found")
    rec = app[0].args[0]
    ok = isinstance(rec, ast.Tuple) and len(rec.elts) == 2 and A.unparse(rec.elts[1]) == entry
    ctx.check("R3", tr, ok, "records-pending-file-name", f"a pending update is recorded with the name of the ._cfgNNNN_ file itself (`{entry}`)",
              f"pending updates are recorded as `{A.unparse(rec)}`: the incoming file is later compared with the LIVE file instead of the pending ._cfgNNNN_ update, so an identical pending update is never reused", node=app[0])
    cmp = [c for c in A.calls(tr.node) if dotted(c.func) == "simple_chksum_compare" and "cfg_fname" in A.unparse(c)]
    ctx.check("R3", tr, len(cmp) == 1 and "livefs.gen_obj(pjoin(dir_loc, cfg_fname))" in A.unparse(cmp[0]) and A.unparse(cmp[0].args[1]) == "entry", "compares-pending-with-incoming", "reuse is decided by comparing the pending file on disk with the incoming entry")
    t = A.unparse(tr.node)
    ctx.check("R3", tr, "count = cfg_count\n" in t and "count = max(count, cfg_count + 1)" in t, "number-choice", "an identical pending update's number is reused, otherwise the number exceeds every existing one")
    ctx.check("R3", tr, "x[5:9]" in t and "x[9] != '_'" in t and "x[10:]" in t and "startswith('._cfg')" in t, "cfg-name-format", "pending files are ._cfgNNNN_<name>")
    ctx.check("R3", tr, "f'._cfg{count:04d}_{fname}'" in t, "new-name-format", "the incoming file is written as ._cfgNNNN_<name> beside the protected file")
    ctx.check("R3", tr, "self.renames[new_entry] = entry" in t and "install_cset.remove(entry)" in t and "install_cset.add(new_entry)" in t, "rename-recorded", "the renamed entry replaces the original in the install set and the mapping is recorded")
    guard = [n for n in A.body_walk(tr.node) if isinstance(n, ast.If) and "protected_filter(x.location)" in A.unparse(n.test)]
    ctx.check("R3", tr, bool(guard) and A.unparse(guard[0].test) == "not ignore_filter(x.location) and protected_filter(x.location)" and "not simple_chksum_compare(replacement, x)" in A.unparse(guard[0]), "protect-condition", "a file is protected when it is under CONFIG_PROTECT, not collision-ignored, and differs from the incoming file")
    rs = P.func(MOD, "ConfigProtectInstall_restore.trigger")
    t2 = A.unparse(rs.node)
    ctx.check("R3", rs, "for new_entry, old_entry in self.renames.items()" in t2.replace("(new_entry, old_entry)", "new_entry, old_entry") and "install_cset.add(old_entry)" in t2 and "self.renames.clear()" in t2, "restore-closes-map", "after the merge every renamed entry is recorded under its real name again")
    reg = P.func(MOD, "ConfigProtectInstall.register")
    ctx.check("R3", reg, "ConfigProtectInstall_restore(self.renames)" in A.unparse(reg.node), "restore-registered", "the restore trigger shares the rename map and is registered with the protect trigger")
    ctx.floor("R3", 10)

    # ---- R4 uninstall ------------------------------------------------------------------------------
    un = P.func(MOD, "ConfigProtectUninstall.trigger")
    loops = [n for n in un.node.body if isinstance(n, ast.For)]
    ctx.require(loops, "ConfigProtectUninstall.trigger: scan loop not found")
    tries = [n for n in A.body_walk(un.node) if isinstance(n, ast.Try) and any("FileNotFoundError" in A.unparse(h.type) for h in n.handlers if h.type is not None)]
    ctx.require(tries, "ConfigProtectUninstall.trigger: vanished-file handling not found")
    inside = any(p is loops[0] for p in A.parents(tries[0]))
    ctx.check("R4", un, inside, "vanished-file-skips-only-itself", "the try/except for a file that vanished sits inside the per-file loop",
              "ConfigProtectUninstall.trigger wraps the whole scan in the try/except: one vanished file aborts the scan and every later edited protected file stays in the uninstall set and is removed", node=tries[0])
    t = A.unparse(un.node)
    ctx.check("R4", un, "if not simple_chksum_compare(recorded_ent, x):\n" in t and "remove.append(recorded_ent)" in t and "del uninstall_cset[x]" in t, "differing-file-kept", "a protected file whose content differs from the recorded checksum is taken out of the uninstall set")
    ctx.check("R4", un, "recorded_ent = uninstall_cset[x]" in t, "compares-recorded", "the comparison is between the recorded entry and the live file")
    ctx.floor("R4", 3)

    # ---- R5 offset discipline ------------------------------------------------------------------------
    sib = {"pkgcore.merge.triggers:BaseSystemUnmergeProtection.trigger": "pjoin(engine.offset, x)"}
    f = P.func("pkgcore.merge.triggers", "BaseSystemUnmergeProtection.trigger")
    ctx.check("R5", f, "pjoin(engine.offset, x)" in A.unparse(f.node), "offset-joined:BaseSystemUnmergeProtection", "sibling: base-system protection joins the engine offset into its root-relative paths")
    off2 = cif.params()[0]
    joined = any(off2 in A.names_in(v) for t_, v, _ in A.assignments(cif.node) if "collapse_envd" not in A.unparse(v))
    ctx.check("R5", cif, joined, "offset-joined:gen_collision_ignore_filter", "gen_collision_ignore_filter joins the offset into the absolute patterns it builds",
              "gen_collision_ignore_filter reads env.d under the offset but builds its patterns from root-relative paths without the offset, while the csets it is matched against carry offset-prefixed locations", node=cif.node)
    ctx.floor("R5", 5)


MUTANTS = [
    {"name": "rstrip-on-list", "file": "src/pkgcore/ebuild/triggers.py", "old": "            ignored[i] = x.rstrip(\"/\") + \"/*\"", "new": "            ignored[i] = ignored.rstrip(\"/\") + \"/*\"", "rule": "R1"},
    {"name": "helper-not-anchored", "file": "src/pkgcore/ebuild/triggers.py", "old": "    return normpath(pjoin(offset, path.lstrip(\"/\"))).rstrip(\"/\") + \"/\"", "new": "    return normpath(pjoin(offset, path.lstrip(\"/\")).rstrip(\"/\") + \"/\")", "rule": "R2"},
    {"name": "revert-offset-fix", "file": "src/pkgcore/ebuild/triggers.py", "old": "    return normpath(pjoin(offset, path.lstrip(\"/\"))).rstrip(\"/\") + \"/\"", "new": "    return normpath(path).rstrip(\"/\") + \"/\"", "rule": "R5"},
    {"name": "revert-collision-ignore-list", "file": "src/pkgcore/ebuild/triggers.py", "old": "        \"CLASSPATH\",\n        \"COLLISION_IGNORE\",\n", "new": "        \"CLASSPATH\",\n", "rule": "R1"},
    {"name": "collision-ignore-no-offset", "file": "src/pkgcore/ebuild/triggers.py", "old": "            x = ignored[i] = normpath(pjoin(offset, x.lstrip(\"/\")))", "new": "            x = ignored[i] = normpath(x)", "rule": "R5"},
    {"name": "pending-records-live-name", "file": "src/pkgcore/ebuild/triggers.py", "old": "                    updates[fn].append((count, x))", "new": "                    updates[fn].append((count, fn))", "rule": "R3"},
    {"name": "shared-update-list", "file": "src/pkgcore/ebuild/triggers.py", "old": "            updates = {x[0]: [] for x in entries}", "new": "            updates = dict.fromkeys((x[0] for x in entries), [])", "rule": "R3"},
    {"name": "try-around-loop", "file": "src/pkgcore/ebuild/triggers.py", "old": "        for x in existing_cset.iterfiles():\n            if not ignore_filter(x.location) and protected_filter(x.location):\n                recorded_ent = uninstall_cset[x]\n                try:\n                    if not simple_chksum_compare(recorded_ent, x):\n                        # chksum differs.  file stays.\n                        remove.append(recorded_ent)\n                # If a file doesn't exist we don't need to remove it\n                except (FileNotFoundError, NotADirectoryError):\n                    pass\n", "new": "        try:\n            for x in existing_cset.iterfiles():\n                if not ignore_filter(x.location) and protected_filter(x.location):\n                    recorded_ent = uninstall_cset[x]\n                    if not simple_chksum_compare(recorded_ent, x):\n                        remove.append(recorded_ent)\n        except (FileNotFoundError, NotADirectoryError):\n            pass\n", "rule": "R4"},
    {"name": "restore-keeps-cfg-name", "file": "src/pkgcore/ebuild/triggers.py", "old": "            install_cset.add(old_entry)\n        self.renames.clear()", "new": "        self.renames.clear()", "rule": "R3"},
]
TWINS = [
    {"name": "inline-helper-at-one-site", "file": "src/pkgcore/ebuild/triggers.py", "old": "            r2 = values.StrGlobMatch(_offset_dir_glob(offset, neg[0]), negate=True)", "new": "            r2 = values.StrGlobMatch(normpath(pjoin(offset, neg[0].lstrip(\"/\"))).rstrip(\"/\") + \"/\", negate=True)"},
]
