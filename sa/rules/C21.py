"""C21 — protected configuration files are never silently overwritten or removed (structural clauses)."""
import ast

from ..core import astutil as A
from ..core import match as M
from ..core.model import dotted

META = {
    "technique": "primitive local type facts (no string method on a list-typed local), sibling offset-discipline table, directory-anchoring rule of every protect/mask glob, def-use rule for the pending-update comparison (the path checksummed is the ._cfgNNNN_ directory entry), aliasing rule for the per-file update lists, loop-scope rule for error handling in the uninstall scan, rename-map closure",
    "level": "Decides: (R1) the filter builders never call a string method on a list-typed local; (R2) every CONFIG_PROTECT / CONFIG_PROTECT_MASK glob is directory-anchored: '/' is appended AFTER normalisation, in all three construction sites; (R3) the incoming file is compared with the pending ._cfgNNNN_ file itself, each protected file has its own list of pending updates, the chosen number reuses an identical pending update or exceeds every existing number, and every renamed entry is restored to its real name afterwards; (R4) on uninstall a protected file whose checksum differs is dropped from the uninstall set, and a file that vanished mid-scan only skips itself (error handling inside the loop); (R5) trigger-side pattern builders join the engine offset into root-relative configured paths. Does NOT decide concrete env.d configurations.",
    "note": "cset locations are offset-prefixed when the engine has an offset (merge/engine.py generate_offset_cset)",
}
META["technique"] += "; " + 'generic pack G on the anchored files (optional-flag shift, closures outliving a loop iteration, single-pass iterables consumed twice, %-templates built from data, in-place writes to class-level / memoised objects, generators mutating what they yielded, memo keys that are projections)'
MOD = "pkgcore.ebuild.triggers"
STR_METHODS = {"rstrip", "lstrip", "strip", "endswith", "startswith", "split", "lower", "upper", "replace", "format", "join"}


def list_typed_locals(fn):
    out = set()
    for t, v, _ in A.assignments(fn.node):
        if isinstance(t, ast.Name):
            if isinstance(v, (ast.List, ast.ListComp)) or (isinstance(v, ast.Call) and (dotted(v.func) in ("list", "stable_unique", "sorted") or A.call_attr(v) == "setdefault" and len(v.args) == 2 and isinstance(v.args[1], ast.List))):
                out.add(t.id)
    return out


def glob_expr(P, arg, off):
    """The pattern expression of a glob site, looking through one module-level helper; -> (expr, uses offset, via-text)."""
    if isinstance(arg, ast.Call) and isinstance(arg.func, ast.Name):
        h = P.func_opt(MOD, arg.func.id)
        if h is not None:
            rets = A.returns(h.node)
            if len(rets) == 1 and rets[0].value is not None:
                ps = h.params()
                passed = [ps[i] for i, x in enumerate(arg.args) if i < len(ps) and off in A.names_in(x)]
                e = rets[0].value
                return e, any(p in A.names_in(e) for p in passed), f" (via {h.name})"
    return arg, off in A.names_in(arg), ""


def _is_anchored(a):
    """`normpath(<anything>).rstrip('/') + '/'`: the slash is appended AFTER normalisation"""
    return any(M.pat(p).matches(a) is not None for p in ("normpath($_).rstrip('/') + '/'", "os.path.normpath($_).rstrip('/') + '/'"))


def run(ctx):
    P = ctx.program
    ctx.explanation = META["level"]
    cpf = P.func(MOD, "gen_config_protect_filter")
    cif = P.func(MOD, "gen_collision_ignore_filter")
    # ---- R1 type confusion ----------------------------------------------------------
    for f in (cpf, cif):
        lists = list_typed_locals(f)
        ctx.require(lists, f"{f.qual}: no list-typed locals found")
        for c in A.calls(f.node):
            if isinstance(c.func, ast.Attribute) and c.func.attr in STR_METHODS and isinstance(c.func.value, ast.Name):
                nm = c.func.value.id
                ctx.check("R1", f, nm not in lists, f"str-method-on-list:{nm}.{c.func.attr}", f"`{A.unparse(c)[:40]}`: receiver is not a list-typed local",
                          f"{f.qual} calls the string method .{c.func.attr}() on `{nm}`, which is a list: AttributeError as soon as that branch runs", node=c)
    # list-consumed env.d keys must be declared list-valued (collapse_envd collapses every other key to a string)
    inc = A.try_literal(P.module(MOD).assigns["incrementals"].args[0]) if isinstance(P.module(MOD).assigns.get("incrementals"), ast.Call) else None
    ctx.require(inc, "triggers.incrementals table not readable")
    envd = {}
    for f in (cpf, cif):
        dm = M.one(f.node, "$d, $_, $_ = collapse_envd($_)")
        ctx.require(dm is not None, f"{f.qual}: collapse_envd result not found")
        dname = envd[f.qual] = dm["d"]
        keys = set()
        for n in A.walk(f.node):
            if isinstance(n, ast.Subscript) and isinstance(n.value, ast.Name) and n.value.id == dname and isinstance(n.slice, ast.Constant):
                keys.add(n.slice.value)
            if isinstance(n, ast.Call) and A.call_attr(n) in ("setdefault", "get", "pop") and isinstance(n.func.value, ast.Name) and n.func.value.id == dname and n.args and isinstance(n.args[0], ast.Constant) and len(n.args) > 1 and isinstance(n.args[1], ast.List):
                keys.add(n.args[0].value)
        for k in sorted(keys):
            ctx.check("R1", f, k in inc, f"list-key-declared:{k}", f"{k} is consumed as a list and is declared list-valued in `incrementals`",
                      f"{f.qual} consumes env.d key {k} as a list (.extend / + [...]), but {k} is not in `incrementals`, so collapse_envd hands back a plain string: AttributeError/TypeError as soon as env.d defines it", node=f.node)
    ctx.floor("R1", 5)

    # ---- R2 directory anchoring -----------------------------------------------------------
    globs = [c for c in A.calls(cpf.node) if (dotted(c.func) or "").endswith("StrGlobMatch")]
    ctx.check("R2", cpf, len(globs) == 3, f"glob-sites:{len(globs)}", "gen_config_protect_filter builds the protect globs and the single/multiple mask globs (3 sites)")
    off = cpf.params()[0]
    E = {"d": envd[cpf.qual]}
    # the local holding the mask entries, found by how it is produced
    negm = M.one(cpf.node, "$neg = stable_unique($d['CONFIG_PROTECT_MASK'])", E)
    negname = negm["neg"] if negm else None
    for c in globs:
        a, uses_off, via = glob_expr(P, c.args[0], off)
        ok = _is_anchored(a)
        comp = A.enclosing(c, (ast.ListComp, ast.GeneratorExp, ast.SetComp))
        from_mask = negname is not None and (negname in A.names_in(c) or comp is not None and any(negname in A.names_in(g.iter) for g in comp.generators))
        kind = "mask" if any(k.arg == "negate" for k in c.keywords) or from_mask else "protect"
        ctx.check("R2", cpf, ok, f"dir-anchored@{kind}:{A.unparse(c.args[0])[:44]}",
                  f"{kind} glob `{A.unparse(c.args[0])[:50]}`{via} ends with '/' appended after normalisation (matches only inside that directory)",
                  f"the {kind} glob `{A.unparse(c.args[0])}`{via} is not directory-anchored (normpath drops a trailing '/'): a masked `<dir>/env.d` also unprotects `<dir>/env.d.local/...`", node=c)
        ctx.check("R5", cpf, uses_off, f"offset-joined@{kind}:{A.unparse(c.args[0])[:44]}",
                  f"{kind} glob joins the engine offset into the configured root-relative path",
                  f"the {kind} glob `{A.unparse(c.args[0])}` is built from a root-relative configured path without the offset, while csets carry offset-prefixed locations: with a non-'/' offset it never matches", node=c)
    ctx.check("R2", cpf, M.has(cpf.node, "$d['CONFIG_PROTECT'] + ['/etc']", E), "etc-always-protected", "/etc is always protected")
    negs = [c for c in A.calls(cpf.node) if any(k.arg == "negate" and A.try_literal(k.value) is True for k in c.keywords)]
    ctx.check("R2", cpf, len(negs) == 2, "mask-negated", "the mask restriction is negated in both the single and the multiple form")
    # every negated mask restriction lands in one local ($r2) which is ANDed onto the protect restriction that is returned
    r2s = {t_.id for c in negs for st in [A.stmt_of(c)] if isinstance(st, ast.Assign) and st.value is c for t_ in st.targets if isinstance(t_, ast.Name)}
    anded = len(r2s) == 1 and M.has(cpf.node, "if $neg:\n    $r = values.AndRestriction($r, $r2)\nreturn $r", {"r2": next(iter(r2s)), **({"neg": negname} if negname else {})})
    ctx.check("R2", cpf, anded, "protect-and-not-masked", "protected = under CONFIG_PROTECT and not under CONFIG_PROTECT_MASK")
    ctx.floor("R2", 6)

    # ---- R3 pending updates ------------------------------------------------------------------
    tr = P.func(MOD, "ConfigProtectInstall.trigger")
    # the per-directory pass, its three steps located by their roles: the table of pending updates, the scan of the
    # existing ._cfg files, the renaming of the incoming entries
    frame = M.one(tr.node, "for $dir, $entries in $_.items():\n    $updates = $$init\n    for $x in $existing:\n        ...\n    for $fname, $entry in $entries:\n        ...")
    ctx.require(frame is not None, "ConfigProtectInstall.trigger: `updates` table / scan of existing ._cfg files / rename loop not found")
    E = dict(frame.env)
    v = E.pop("$init")
    upd_st = M.one(frame.node, "$updates = $_", E).node
    ok = isinstance(v, ast.DictComp) and isinstance(v.value, ast.List) and not v.value.elts
    ctx.check("R3", tr, ok, "own-list-per-file", "every protected file gets its own list of pending updates",
              f"`{E['updates']} = {A.unparse(v)[:60]}`: the files of one directory share one list of pending updates, so a file can reuse (and overwrite) a sibling's ._cfgNNNN_ number", node=upd_st)
    ex_loop = M.one(frame.node, "for $x in $existing:\n    ...", E).node
    rn_loop = M.one(frame.node, "for $fname, $entry in $entries:\n    ...", E).node
    entry = E["x"]
    app = M.find(ex_loop, "$updates[$_].append($$rec)", E)
    ctx.require(app, "ConfigProtectInstall.trigger: recording of pending updates not found")
    rec = app[0]["$rec"]
    ok = isinstance(rec, ast.Tuple) and len(rec.elts) == 2 and isinstance(rec.elts[1], ast.Name) and rec.elts[1].id == entry
    ctx.check("R3", tr, ok, "records-pending-file-name", f"a pending update is recorded with the name of the ._cfgNNNN_ file itself (`{entry}`)",
              f"pending updates are recorded as `{A.unparse(rec)}`: the incoming file is later compared with the LIVE file instead of the pending ._cfgNNNN_ update, so an identical pending update is never reused", node=app[0].node)
    pend = M.one(rn_loop, "for $cc, $cf in $updates[$fname]:\n    ...", E)
    ncmp = len([c for c in A.calls(pend.node) if dotted(c.func) == "simple_chksum_compare"]) if pend else 0
    ctx.check("R3", tr, ncmp == 1 and M.has(rn_loop, "for $cc, $cf in $updates[$fname]:\n    if simple_chksum_compare(livefs.gen_obj(pjoin($dir, $cf)), $entry):\n        ...", E), "compares-pending-with-incoming", "reuse is decided by comparing the pending file on disk with the incoming entry")
    num = M.one(rn_loop, "$count = 0\nfor $cc, $cf in $updates[$fname]:\n    if $_:\n        $count = $cc\n        break\n    $count = max($count, $cc + 1)", E)
    ctx.check("R3", tr, num is not None, "number-choice", "an identical pending update's number is reused, otherwise the number exceeds every existing one")
    if num is not None:
        E["count"] = num["count"]
    ctx.check("R3", tr, M.has(frame.node, "$existing = sorted($y for $y in listdir_files($dir) if $y.startswith('._cfg'))", E)
              and M.has(ex_loop, "try:\n    $n = int($x[5:9])\n    if $x[9] != '_':\n        ...\n    $fn = $x[10:]\nexcept (ValueError, IndexError):\n    continue\nif $fn in $updates:\n    $updates[$fn].append(($n, $_))", E),
              "cfg-name-format", "pending files are ._cfgNNNN_<name>")
    nf = M.one(rn_loop, "$newfn = pjoin($dir, f'._cfg{$count:04d}_{$fname}')", E)
    ctx.check("R3", tr, nf is not None, "new-name-format", "the incoming file is written as ._cfgNNNN_<name> beside the protected file")
    if nf is not None:
        E["newfn"] = nf["newfn"]
    ne = M.one(rn_loop, "$newent = $entry.change_attributes(location=$newfn)", E)
    ctx.check("R3", tr, ne is not None and M.has(rn_loop, "install_cset.remove($entry)", E) and M.has(rn_loop, "install_cset.add($newent)\nself.renames[$newent] = $entry", ne.env), "rename-recorded", "the renamed entry replaces the original in the install set and the mapping is recorded")
    filt = M.one(tr.node, "$prot = gen_config_protect_filter(engine.offset, ...).match\n$ign = gen_collision_ignore_filter(engine.offset).match")
    ctx.check("R3", tr, filt is not None and M.has(tr.node, "for $x in existing_cset.iterfiles():\n    if not $ign($x.location) and $prot($x.location):\n        $repl = install_cset[$x]\n        if not simple_chksum_compare($repl, $x):\n            ...", {"prot": filt["prot"], "ign": filt["ign"]}), "protect-condition", "a file is protected when it is under CONFIG_PROTECT, not collision-ignored, and differs from the incoming file")
    rs = P.func(MOD, "ConfigProtectInstall_restore.trigger")
    ctx.check("R3", rs, M.has(rs.node, "for $new, $old in self.renames.items():\n    install_cset.add($old)\nself.renames.clear()"), "restore-closes-map", "after the merge every renamed entry is recorded under its real name again")
    reg = P.func(MOD, "ConfigProtectInstall.register")
    ctx.check("R3", reg, M.has(reg.node, "ConfigProtectInstall_restore(self.renames)"), "restore-registered", "the restore trigger shares the rename map and is registered with the protect trigger")
    ctx.floor("R3", 10)

    # ---- R4 uninstall ------------------------------------------------------------------------------
    un = P.func(MOD, "ConfigProtectUninstall.trigger")
    scan = M.one(un.node, "for $x in existing_cset.iterfiles():\n    ...")
    ctx.require(scan is not None, "ConfigProtectUninstall.trigger: scan loop not found")
    tries = [n for n in A.body_walk(un.node) if isinstance(n, ast.Try) and any("FileNotFoundError" in A.names_in(h.type) for h in n.handlers if h.type is not None)]
    ctx.require(tries, "ConfigProtectUninstall.trigger: vanished-file handling not found")
    inside = any(p is scan.node for p in A.parents(tries[0]))
    ctx.check("R4", un, inside, "vanished-file-skips-only-itself", "the try/except for a file that vanished sits inside the per-file loop",
              "ConfigProtectUninstall.trigger wraps the whole scan in the try/except: one vanished file aborts the scan and every later edited protected file stays in the uninstall set and is removed", node=tries[0])
    recm = M.one(scan.node, "$rec = uninstall_cset[$x]", scan.env)
    ctx.check("R4", un, recm is not None, "compares-recorded", "the comparison is between the recorded entry and the live file")
    kept = recm is not None and M.one(scan.node, "if not simple_chksum_compare($rec, $x):\n    $remove.append($rec)", recm.env)
    ctx.check("R4", un, bool(kept) and M.has(un.node, "for $y in $remove:\n    del uninstall_cset[$y]", {"remove": kept["remove"]}), "differing-file-kept", "a protected file whose content differs from the recorded checksum is taken out of the uninstall set")
    ctx.floor("R4", 3)

    # ---- R5 offset discipline ------------------------------------------------------------------------
    f = P.func("pkgcore.merge.triggers", "BaseSystemUnmergeProtection.trigger")
    ctx.check("R5", f, M.has(f.node, "(pjoin(engine.offset, $x) for $x in self._block)"), "offset-joined:BaseSystemUnmergeProtection", "sibling: base-system protection joins the engine offset into its root-relative paths")
    off2 = cif.params()[0]
    joined = any(off2 in A.names_in(v) for t_, v, _ in A.assignments(cif.node) if not (isinstance(v, ast.Call) and dotted(v.func) == "collapse_envd"))
    ctx.check("R5", cif, joined, "offset-joined:gen_collision_ignore_filter", "gen_collision_ignore_filter joins the offset into the absolute patterns it builds",
              "gen_collision_ignore_filter reads env.d under the offset but builds its patterns from root-relative paths without the offset, while the csets it is matched against carry offset-prefixed locations", node=cif.node)
    ctx.floor("R5", 5)


MUTANTS = [
    {"name": "rstrip-on-list", "file": "src/pkgcore/ebuild/triggers.py", "old": "            ignored[i] = x.rstrip(\"/\") + \"/*\"", "new": "            ignored[i] = ignored.rstrip(\"/\") + \"/*\"", "rule": "R1"},
    {"name": "helper-not-anchored", "file": "src/pkgcore/ebuild/triggers.py", "old": "    return normpath(pjoin(offset, path.lstrip(\"/\"))).rstrip(\"/\") + \"/\"", "new": "    return normpath(pjoin(offset, path.lstrip(\"/\")).rstrip(\"/\") + \"/\")", "rule": "R2"},
    {"name": "revert-offset-fix", "file": "src/pkgcore/ebuild/triggers.py", "old": "    return normpath(pjoin(offset, path.lstrip(\"/\"))).rstrip(\"/\") + \"/\"", "new": "    return normpath(path).rstrip(\"/\") + \"/\"", "rule": "R5"},
    {"name": "revert-collision-ignore-list", "file": "src/pkgcore/ebuild/triggers.py", "old": "        \"CLASSPATH\",\n        \"COLLISION_IGNORE\",\n", "new": "        \"CLASSPATH\",\n", "rule": "R1"},
    {"name": "collision-ignore-no-offset", "file": "src/pkgcore/ebuild/triggers.py", "old": "            x = ignored[i] = normpath(pjoin(offset, x.lstrip(\"/\")))", "new": "            x = ignored[i] = normpath(x)", "rule": "R5"},
    {"name": "pending-records-live-name", "file": "src/pkgcore/ebuild/triggers.py", "old": "                    updates[fn].append((count, x))", "new": "                    updates[fn].append((count, fn))", "rule": "R3"},
    {"name": "shared-update-list", "file": "src/pkgcore/ebuild/triggers.py", "old": "            updates = {x[0]: [] for x in entries}", "new": "            updates = dict.fromkeys((x[0] for x in entries), [])", "rule": "R3"},
    {"name": "try-around-loop", "file": "src/pkgcore/ebuild/triggers.py", "old": "        for x in existing_cset.iterfiles():\n            if not ignore_filter(x.location) and protected_filter(x.location):\n                recorded_ent = uninstall_cset[x]\n                try:\n                    if not simple_chksum_compare(recorded_ent, x):\n                        # chksum differs.  file stays.\n                        remove.append(recorded_ent)\n                # If a file doesn't exist we don't need to remove it\n                except (FileNotFoundError, NotADirectoryError):\n                    pass\n", "new": "        try:\n            for x in existing_cset.iterfiles():\n                if not ignore_filter(x.location) and protected_filter(x.location):\n                    recorded_ent = uninstall_cset[x]\n                    if not simple_chksum_compare(recorded_ent, x):\n                        remove.append(recorded_ent)\n        except (FileNotFoundError, NotADirectoryError):\n            pass\n", "rule": "R4"},
    {"name": "restore-keeps-cfg-name", "file": "src/pkgcore/ebuild/triggers.py", "old": "            install_cset.add(old_entry)\n        self.renames.clear()", "new": "        self.renames.clear()", "rule": "R3"},
]
TWINS = [
    {"name": "inline-helper-at-one-site", "file": "src/pkgcore/ebuild/triggers.py", "old": "            r2 = values.StrGlobMatch(_offset_dir_glob(offset, neg[0]), negate=True)", "new": "            r2 = values.StrGlobMatch(normpath(pjoin(offset, neg[0].lstrip(\"/\"))).rstrip(\"/\") + \"/\", negate=True)"},
]
