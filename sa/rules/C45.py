"""C45 — security advisories flag exactly the vulnerable installed versions (restriction-shape rules)."""
import ast

from ..core import generic as G
from ..core import astutil as A
from ..core import match as M
from ..core.model import dotted

META = {
    "technique": "boolean-shape rules on the restriction constructors (slot limit inside the negated conjunction of a range; unaffected ranges negated one by one and ANDed; several vulnerable ranges ORed), call-signature agreement for ContainmentMatch (the arch collection is ONE positional argument; a starred spill would land in match_all/negate), operator table agreement with the GLSA range names, shape of the r-prefixed (same-version revision) forms, prefix-kind rule for the eq-glob (component prefix vs raw string prefix)",
    "level": "Decides the structural clauses: a range is AND(version restriction[s], optional slot) negated as a whole for unaffected ranges; an entry is (OR of vulnerable ranges [AND carries one of the named arches]) AND NOT each unaffected range; ge/gt/lt/le/eq map to >=,>,<,<=,= and r-forms add the same-version (~) condition with the -r0 special cases; globs are accepted for eq only; arch '*' or empty means no arch condition and named arches are matched any-of. Reports as a known finding that the eq-glob is a raw STRING prefix of the full version (eq 1.2* also flags 1.20), not a version-component prefix. Does NOT evaluate advisories against concrete package sets.",
    "note": "",
}
META["technique"] += "; " + 'per-item exception isolation'
META["level"] += " Added after the second round of independent changes: " + '(R6) a malformed <package> entry is skipped alone: the handler sits inside the package loop.'
META["technique"] += "; " + 'generic pack G on the anchored files (optional-flag shift, closures outliving a loop iteration, single-pass iterables consumed twice, %-templates built from data, in-place writes to class-level / memoised objects, generators mutating what they yielded, memo keys that are projections)'
MOD = "pkgcore.pkgsets.glsa"


def run(ctx):
    P = ctx.program
    ctx.explanation = META["level"]
    gr = P.func(MOD, "GlsaDirSet.generate_restrict_from_range")
    gi = P.func(MOD, "GlsaDirSet.generate_intersects_from_pkg_node")
    # ---- R1 slot inside the negation -------------------------------------------------------------------
    rets = A.returns(gr.node)
    conj = M.one(gr.node, "return packages.AndRestriction(*$parts, negate=negate)")
    parts = conj["parts"] if conj else None
    ctx.check("R1", gr, len(rets) == 1 and conj is not None, f"single-negated-conjunction:{'ok' if conj else A.unparse(rets[-1].value)[:50]}", "a range is ONE conjunction of its parts, negated as a whole",
              f"generate_restrict_from_range returns `{A.unparse(rets[-1].value)[:80]}`: something is combined outside the negated conjunction", node=rets[-1])
    sl = [c for c in A.calls(gr.node) if dotted(c.func) == "atom_restricts.SlotDep"]
    ctx.require(len(sl) == 1, "generate_restrict_from_range: SlotDep not found")
    par = getattr(sl[0], "_parent", None)
    inside = isinstance(par, ast.Call) and parts is not None and A.unparse(par.func) == f"{parts}.append" and par.lineno < rets[-1].lineno
    ctx.check("R1", gr, inside, "slot-part-of-conjunction", "the slot limit is one of the conjuncts (so `not (range and slot)` for unaffected ranges)",
              "the slot limit is ANDed onto the range AFTER negation: an unaffected range with slot=S becomes `(not range) AND slot == S`, which every package outside slot S fails — such packages are never reported", node=sl[0])
    g_ = next((p for p in A.parents(sl[0]) if isinstance(p, ast.If)), None)
    slotv = M.one(gr.node, "$slot = str(node.get('slot', '').strip())")
    ctx.check("R1", gr, g_ is not None and slotv is not None and A.unparse(g_.test) == slotv["slot"] and g_ in gr.node.body, "slot-for-every-range-kind", "the slot limit applies to every kind of range (it is not nested under one operator's branch)")
    ctx.check("R1", gr, slotv is not None and A.unparse(sl[0].args[0]) == slotv["slot"], "slot-attribute", "the slot comes from the range's slot attribute")
    ctx.floor("R1", 4)

    # ---- R2 unaffected / vulnerable combination ----------------------------------------------------------------
    neg_calls = [c for c in A.calls(gi.node) if A.unparse(c.func) == "self.generate_restrict_from_range" and any(k.arg == "negate" and A.is_const(k.value, True) for k in c.keywords)]
    pos_calls = [c for c in A.calls(gi.node) if A.unparse(c.func) == "self.generate_restrict_from_range" and not c.keywords]
    ctx.check("R2", gi, len(neg_calls) == 1 and isinstance(getattr(neg_calls[0], "_parent", None), (ast.GeneratorExp, ast.ListComp)) and M.has(gi.node, "$u = pkg_node.findall('unaffected')", {"u": A.unparse(neg_calls[0]._parent.generators[0].iter)}), "each-unaffected-negated", "every unaffected range is negated on its own",
              "the unaffected ranges are no longer negated one by one: `not (U1 and U2)` exempts a package only if it lies in ALL unaffected ranges", node=gi.node)
    fin = A.returns(gi.node)[-1]
    shape = M.one(gi.node, "$neg = ($$g for $x in $u)\n$keep = [$y for $y in $neg if $_]\nreturn packages.KeyedAndRestriction($v, *$keep, tag=tag)")
    ok_shape = shape is not None and neg_calls and A.contains_node(shape.env["$g"], neg_calls[0])
    ctx.check("R2", gi, bool(ok_shape), f"vuln-and-not-each-unaffected:{'ok' if ok_shape else A.unparse(fin.value)[:50]}", "entry = vulnerable AND (not U1) AND (not U2) ...",
              f"the entry is built as `{A.unparse(fin.value)[:80]}`", node=fin)
    bad_neg = [c for c in A.calls(gi.node) if (dotted(c.func) or "").endswith(("AndRestriction", "OrRestriction")) and any(k.arg == "negate" for k in c.keywords)]
    ctx.check("R2", gi, not bad_neg, "no-collective-negation", "no conjunction/disjunction of ranges is negated collectively in the entry builder")
    t = A.unparse(gi.node)
    ctx.check("R2", gi, M.has(gi.node, "if not $v:\n    return None\nelif len($v) > 1:\n    $l = [self.generate_restrict_from_range($x) for $x in $v]\n    $v = packages.OrRestriction(*$l)") and len(pos_calls) == 2, "vulnerable-ranges-ored", "several vulnerable ranges are ORed")
    ctx.check("R2", gi, M.has(gi.node, "$v = list(pkg_node.findall('vulnerable'))\nif not $v:\n    return None"), "no-vulnerable-no-entry", "an entry without vulnerable ranges flags nothing")
    ctx.floor("R2", 5)

    # ---- R3 arch condition ------------------------------------------------------------------------------------------
    cm = [c for c in A.calls(gi.node) if dotted(c.func) == "values.ContainmentMatch"]
    ctx.require(len(cm) == 1, "generate_intersects_from_pkg_node: arch ContainmentMatch not found")
    sig = P.func("pkgcore.restrictions.values", "ContainmentMatch.__init__").params()
    ctx.check("R3", gi, sig[:4] == ["self", "vals", "match_all", "negate"], f"callee-signature:{sig[1:4]}", "ContainmentMatch(vals, match_all=False, negate=False)")
    c = cm[0]
    archv = M.one(gi.node, "$arch = pkg_node.get('arch')")
    ctx.require(archv is not None, "generate_intersects_from_pkg_node: read of the arch attribute not found")
    an = archv["arch"]
    ok = len(c.args) == 1 and not isinstance(c.args[0], ast.Starred) and A.unparse(c.args[0]) == an
    ctx.check("R3", gi, ok, f"arch-is-one-collection-arg:{A.unparse(c)[:50]}", "the arch tuple is passed as the single `vals` argument",
              f"`{A.unparse(c)}` spreads the arches over ContainmentMatch's positional parameters (vals, match_all, negate): with two arches only the first is honoured, with three the test is negated, with more it is a TypeError that iter_vulnerabilities swallows", node=c)
    kw = {k.arg: A.unparse(k.value) for k in c.keywords}
    ctx.check("R3", gi, kw.get("match_all", "False") == "False" and kw.get("negate", "False") == "False", f"any-of-not-negated:{kw}", "any one of the named arches suffices; not negated")
    par = getattr(c, "_parent", None)
    ctx.check("R3", gi, isinstance(par, ast.Call) and dotted(par.func) == "packages.PackageRestriction" and A.try_literal(par.args[0]) == "keywords", "matched-on-keywords", "the arches are looked for in the package's keywords")
    ctx.check("R3", gi, M.has(gi.node, "if $arch is not None:\n    $arch = tuple(str($arch.strip()).split())\n    if not $arch or '*' in $arch:\n        $arch = None", archv.env), "star-means-any-arch", "arch '*' (or empty) puts no arch condition")
    ctx.check("R3", gi, M.has(gi.node, "if $arch is not None:\n    $v = packages.AndRestriction($v, packages.PackageRestriction('keywords', $_))", archv.env), "arch-anded-to-vulnerable", "the arch condition is ANDed to the vulnerable part")
    ctx.floor("R3", 6)

    # ---- R4 operators ------------------------------------------------------------------------------------------------------
    C = P.cls(MOD, "GlsaDirSet")
    ot = C.assigns.get("op_translate")
    tbl = A.try_literal(ot, default=None) if ot is not None else None
    ctx.check("R4", C, tbl == {"ge": ">=", "gt": ">", "lt": "<", "le": "<=", "eq": "="}, f"op-table:{tbl}", "ge/gt/lt/le/eq -> >=, >, <, <=, =", f"GLSA operator table is {tbl}", node=C.node)
    tg = A.unparse(gr.node)
    opm = M.one(gr.node, "$op = str(node.get('range').strip())")
    ctx.require(opm is not None, "generate_restrict_from_range: read of the range attribute not found")
    E = dict(opm.env)
    tr = M.one(gr.node, "try:\n    $cmp = self.op_translate[$op.lstrip('r')]\nexcept KeyError:\n    raise ValueError($_)", E)
    ctx.check("R4", gr, tr is not None, "r-prefix-stripped-unknown-rejected", "r-forms use the same comparison; unknown operators are rejected")
    E2 = dict(tr.env) if tr else dict(E)
    if parts:
        E2["parts"] = parts
    ctx.check("R4", gr, M.has(gr.node, "if $op.startswith('r'):\n    $parts.append(atom_restricts.VersionMatch('~', $base.version))", E2), "r-forms-same-version", "r-forms additionally require the same version (any revision)")
    ctx.check("R4", gr, M.has(gr.node, "if $op in ('rle', 'rge') and (not $base.revision):\n    $parts.append(atom_restricts.VersionMatch('=' if $op == 'rle' else '~', $base.version))", E2), "r0-special-cases", "rle -r0 is '= version', rge -r0 is '~ version'")
    ctx.check("R4", gr, M.has(gr.node, "if $op == 'rlt' and (not $base.revision):\n    raise ValueError($_)", E2), "rlt-r0-empty", "rlt -r0 is rejected as an empty range")
    ctx.check("R4", gr, M.has(gr.node, "$parts.append(atom_restricts.VersionMatch($cmp, $base.version, rev=$base.revision))", E2), "full-version-compare", "plain forms compare the full version (with revision)")
    ctx.check("R4", gr, M.has(gr.node, "if $glob:\n    if $op != 'eq':\n        raise ValueError($_)", E2), "glob-eq-only", "a trailing * is accepted for eq only")
    ctx.check("R4", gr, M.has(gr.node, "if node.text is None:\n    raise ValueError($_)"), "missing-version-rejected", "a range without version is rejected")
    ctx.floor("R4", 8)

    # ---- R5 glob kind ---------------------------------------------------------------------------------------------------------
    gl = [c for c in A.calls(gr.node) if dotted(c.func) in ("values.StrGlobMatch", "values.StrRegex")]
    ctx.check("R5", gr, len(gl) == 1, f"glob-site:{len(gl)}", "one matcher is built for the eq-glob")
    if gl and M.pat("values.StrGlobMatch($b.fullver)").matches(gl[0]):
        ctx.fail("R5", gr, "glob-raw-prefix", "an eq range ending in * is matched with StrGlobMatch(base.fullver), a raw string prefix of the full version: `eq 1.2*` also flags 1.20 / 1.21, which are not in the 1.2 component family", node=gl[0])
    else:
        ctx.ob("R5", gr, "the eq-glob is no longer a raw string prefix match")
    ctx.floor("R5", 1)

    # ---- R6 a malformed <package> entry is skipped alone, not with the rest of the advisory -------------------------
    G.per_item_isolation(ctx, "R6", "pkgcore.pkgsets.glsa", "GlsaDirSet.iter_vulnerabilities", "generate_intersects_from_pkg_node", "package entry")
    ctx.floor("R6", 1)


F = "src/pkgcore/pkgsets/glsa.py"
MUTANTS = [
    {"name": "slot-after-negation", "file": F, "old": "        if slot:\n            restrictions.append(atom_restricts.SlotDep(slot))\n        return packages.AndRestriction(*restrictions, negate=negate)", "new": "        restrict = packages.AndRestriction(*restrictions, negate=negate)\n        if slot:\n            restrict = packages.AndRestriction(restrict, atom_restricts.SlotDep(slot))\n        return restrict", "rule": "R1"},
    {"name": "collective-negation", "file": F, "old": "        invuln_list = (\n            self.generate_restrict_from_range(x, negate=True) for x in invuln\n        )\n        invuln = [x for x in invuln_list if x not in vuln_list]\n        if not invuln:\n            if tag is None:\n                return packages.KeyedAndRestriction(vuln, tag=tag)\n            return packages.KeyedAndRestriction(vuln, tag=tag)\n        return packages.KeyedAndRestriction(vuln, *invuln, tag=tag)", "new": "        invuln = packages.AndRestriction(\n            *(self.generate_restrict_from_range(x) for x in invuln), negate=True\n        )\n        return packages.KeyedAndRestriction(vuln, invuln, tag=tag)", "rule": "R2"},
    {"name": "vulnerable-anded", "file": F, "old": "            vuln = packages.OrRestriction(*vuln_list)", "new": "            vuln = packages.AndRestriction(*vuln_list)", "rule": "R2"},
    {"name": "arch-varargs", "file": F, "old": "values.ContainmentMatch(arch, match_all=False)", "new": "values.ContainmentMatch(*arch)", "rule": "R3"},
    {"name": "arch-all-required", "file": F, "old": "values.ContainmentMatch(arch, match_all=False)", "new": "values.ContainmentMatch(arch, match_all=True)", "rule": "R3"},
    {"name": "op-table-swapped", "file": F, "old": "        \"gt\": \">\",\n        \"lt\": \"<\",", "new": "        \"gt\": \"<\",\n        \"lt\": \">\",", "rule": "R4"},
    {"name": "r-forms-any-version", "file": F, "old": "                restrictions.append(atom_restricts.VersionMatch(\"~\", base.version))\n", "new": "", "rule": "R4"},
]
TWINS = []
