"""C09 — dependency strings round-trip and USE evaluation preserves meaning (structural clauses)."""
import ast

from ..core import astutil as A
from ..core import boolx
from ..core import match as M
from ..core.model import ClassInfo, dotted

META = {
    "technique": "parse/render operator-table agreement (every operator token any caller can hand to DepSet.parse vs the token the renderer emits for that node class), rejection-guard enumeration in DepSet.parse, class-flag table of the conditional-evaluation collapse rules (which node kinds may be flattened into a same-kind parent / replaced by their single element), shape rule for Conditional.evaluate_conditionals (payload keeps its all-of grouping)",
    "level": "Decides: (R1) for every (token, node class) pair in any operator table passed to DepSet.parse, the renderer emits exactly that token for that class, so ||, ^^ and ?? groups re-parse; (R2) DepSet.parse rejects an unmatched ')', an operator or conditional not followed by '(', a dangling operator, an empty USE-conditional name and unclosed groups; (R3) only associative node kinds (all-of, any-of) may be flattened into a same-kind parent; a group reduced to one element is replaced by it only where op(x) == x (not for at-most-one-of); groups emptied by conditionals disappear; (R4) a USE conditional whose condition holds contributes its payload as ONE all-of group to the enclosing node, otherwise nothing. Does NOT decide semantic equivalence of evaluation for arbitrary strings.",
    "note": "restriction.match of the condition is opaque; associativity facts: and/or associative, exactly-one-of and at-most-one-of not",
}
META["technique"] += "; " + 'blank-notion agreement (str.split() tokeniser vs literal-space tests); no de-duplication in evaluation'
META["level"] += " Added after the second round of independent changes: " + "(R5) DepSet.parse asks no token-boundary question with a literal ' ' of a text it tokenises on any whitespace; evaluate_conditionals never de-duplicates the evaluated members (multiplicity decides ^^ and ??)."
META["technique"] += "; " + 'generic pack G on the anchored files (optional-flag shift, closures outliving a loop iteration, single-pass iterables consumed twice, %-templates built from data, in-place writes to class-level / memoised objects, generators mutating what they yielded, memo keys that are projections)'
CMOD = "pkgcore.ebuild.conditionals"
BMOD = "pkgcore.restrictions.boolean"
ASSOCIATIVE = {"AndRestriction", "OrRestriction"}
SINGLE_OK = {"AndRestriction": True, "OrRestriction": True, "JustOneRestriction": True, "AtMostOneOfRestriction": False}


META["technique"] += "; name-flow rule in transitive_use_atom.evaluate_conditionals (only the marker-free flag name is looked up in the enabled set)"
META["level"] += " (R6) every membership test against the parent's enabled flags in transitive_use_atom.evaluate_conditionals uses the local from which the (+)/(-) marker was stripped."


def run(ctx):
    P = ctx.program
    ctx.explanation = META["level"]
    # ---- R1 operator tables -------------------------------------------------
    tables = []
    parse = P.func(CMOD, "DepSet.parse")
    for n in A.body_walk(parse.node):
        if isinstance(n, ast.Assign) and A.unparse(n.targets[0]) == "operators" and isinstance(n.value, ast.Dict):
            tables.append((parse, n.value))
    for fi in P.all_funcs():
        for c in A.calls(fi.node):
            if A.call_attr(c) == "parse" and "DepSet" in A.unparse(c.func):
                for k in c.keywords:
                    if k.arg == "operators":
                        v = k.value
                        if isinstance(v, ast.Name):
                            for t, vv, _ in A.assignments(fi.node, v.id):
                                if isinstance(vv, ast.Dict):
                                    tables.append((fi, vv))
                            # later item assignments: operators["??"] = X
                            for m in A.body_walk(fi.node):
                                if isinstance(m, ast.Assign) and isinstance(m.targets[0], ast.Subscript) and A.unparse(m.targets[0].value) == v.id:
                                    d = ast.Dict(keys=[m.targets[0].slice], values=[m.value])
                                    tables.append((fi, d))
                        elif isinstance(v, ast.Dict):
                            tables.append((fi, v))
    pairs = set()
    for fi, d in tables:
        for k, v in zip(d.keys, d.values):
            tok = A.try_literal(k)
            cls = (dotted(v) or "").split(".")[-1]
            if isinstance(tok, str) and cls.endswith("Restriction"):
                pairs.add((tok, cls))
    ctx.require(len(pairs) >= 4, f"operator tables passed to DepSet.parse not found ({sorted(pairs)})")
    isb = P.func(CMOD, "_internal_stringify_boolean")
    emit = {}
    cur = next((s for s in isb.node.body if isinstance(s, ast.If)), None)
    ctx.require(cur is not None, "_internal_stringify_boolean: node-class dispatch not found")
    while isinstance(cur, ast.If):
        t = cur.test
        clsname = None
        for n in ast.walk(t):
            if isinstance(n, ast.Call) and dotted(n.func) == "isinstance" and len(n.args) == 2:
                clsname = (dotted(n.args[1]) or "").split(".")[-1]
                break
        toks = [A.try_literal(c.args[0]) for s in cur.body for c in A.calls(s) if dotted(c.func) == "visit" and c.args]
        if clsname and toks and isinstance(toks[0], str):
            emit.setdefault(clsname, toks[0])
        cur = cur.orelse[0] if len(cur.orelse) == 1 and isinstance(cur.orelse[0], ast.If) else None
    for tok, cls in sorted(pairs):
        want = (tok + " (") if tok else "("
        ctx.check("R1", isb, emit.get(cls) == want, f"render:{cls}", f"{cls} nodes (parsed from {tok!r}) are rendered as `{want} ... )`",
                  f"the renderer emits {emit.get(cls)!r} for {cls} nodes, but the parser creates them from the token {tok!r}: the rendered text does not parse back", node=isb.node)
    tail = [c for c in A.calls(isb.node) if dotted(c.func) == "visit" and c.args and A.try_literal(c.args[0]) == ")"]
    ctx.check("R1", isb, len(tail) == 1, "render-closes", "every rendered group is closed with ')'")
    ctx.floor("R1", 5)

    # ---- R2 rejections ---------------------------------------------------------------------
    def raises_in(stmts):
        return any(isinstance(x, ast.Raise) and "DepsetParseError" in A.unparse(x) for s in stmts for x in ast.walk(s))
    ifs = [n for n in A.body_walk(parse.node) if isinstance(n, ast.If)]
    # the locals of the parser, bound by their role (not by their spelling):
    #   words = the token iterator, k = the current token, depsets = the stack of open frames (bottom frame = the
    #   result list), raw = the stack of the open groups' heads (pushed together with a frame)
    wm = M.one(parse.node, "$words = iter(dep_str.split())")
    ctx.require(wm is not None, "DepSet.parse: token iterator not found")
    loops = [(n, m) for n in A.body_walk(parse.node) if isinstance(n, ast.For) for m in [M.pat("for $k in $words:\n    pass").matches(n, wm.env)] if m]
    ctx.require(len(loops) == 1, "DepSet.parse: token loop not found")
    loop, E = loops[0][0], dict(loops[0][1].env)
    sm = M.one(parse.node, "$res = []\n$depsets = [$res]", E)
    ctx.require(sm is not None, "DepSet.parse: frame stack not found")
    E = dict(sm.env)
    rm = M.one(loop, "$depsets.append([])\n$raw.append($k)", E)
    ctx.require(rm is not None, "DepSet.parse: stack of open group heads not found")
    E = dict(rm.env)
    tokv, dep, raw = E["k"], E["depsets"], E["raw"]
    close = [i for i in ifs if M.pat("')' == $k").matches(i.test, E) or M.pat("$k == ')'").matches(i.test, E)]
    ctx.require(close, "DepSet.parse: ')' arm not found")
    inner = [i for i in close[0].body if isinstance(i, ast.If)]
    top = f"{dep}[-1]"
    ok = bool(inner) and set(boolx.atoms(inner[0].test)) >= {top, raw} and raises_in(inner[0].body) and \
        boolx.forced_outcome(inner[0].test, {raw: False}) is True and boolx.forced_outcome(inner[0].test, {top: False}) is True
    ctx.check("R2", parse, ok, "reject-unmatched-close", "')' with no open group, or closing an empty group, is rejected", node=close[0])
    opn = [i for i in ifs if set(boolx.atoms(i.test)) >= {f"{tokv}[-1] == '?'", f"{tokv} in operators"}]
    ctx.require(opn, "DepSet.parse: operator/conditional arm not found")
    nxt = M.one(opn[0].body, "$k2 = next($words)", E)  # the token that follows the operator
    need_paren = [i for i in opn[0].body if nxt is not None and isinstance(i, ast.If) and i.lineno > nxt.node.lineno and M.pat("$k2 != '('").matches(i.test, nxt.env) and raises_in(i.body)]
    ctx.check("R2", parse, bool(need_paren), "reject-missing-open", "an operator or conditional not followed by '(' is rejected", node=opn[0])
    tr = [p for p in A.parents(loop) if isinstance(p, ast.Try) and loop in p.body]
    ctx.require(tr, "DepSet.parse: try block not found")
    hs = {A.unparse(h.type) if h.type is not None else "": h for h in tr[0].handlers}
    ctx.check("R2", parse, "StopIteration" in hs and raises_in(hs["StopIteration"].body), "reject-dangling-operator", "running out of tokens after an operator is rejected")
    ctx.check("R2", parse, "Exception" in hs and raises_in(hs["Exception"].body), "reject-internal-error", "any other parsing error becomes DepsetParseError")
    final = [i for i in ifs if M.pat("len($depsets) != 1").matches(i.test, E) and raises_in(i.body) and i.lineno > tr[0].lineno and tr[0] not in A.parents(i)]
    ctx.check("R2", parse, bool(final), "reject-unclosed", "unclosed groups are rejected after the last token")
    pipe = [i for i in ifs if M.pat("'|' in $k").matches(i.test, E) and raises_in(i.body)]
    ctx.check("R2", parse, bool(pipe), "reject-stray-pipe", "a stray '|' token is rejected")
    # the USE-conditional arm must reject an empty condition name (a bare '(' group when '' is not an operator)
    cvar = None
    for t, v, st in A.assignments(parse.node):
        if isinstance(t, ast.Name) and M.pat("$raw[-1]").matches(v, E):
            cvar = t.id
    ctx.require(cvar is not None, "DepSet.parse: conditional name variable not found")
    idx0 = [n for n in A.body_walk(parse.node) if isinstance(n, ast.Subscript) and A.unparse(n.value) == cvar and A.try_literal(n.slice) == 0 and isinstance(n.ctx, ast.Load)]
    explicit = [i for i in ifs if A.unparse(i.test) in (f"not {cvar}", f"{cvar} == ''") and raises_in(i.body)]
    ctx.check("R2", parse, bool(idx0) or bool(explicit), "reject-empty-conditional",
              "an empty USE-conditional name (a bare '( ... )' group where the variable has no all-of operator) is rejected",
              f"DepSet.parse no longer rejects an empty conditional name: with operators={{}} (RESTRICT, PROPERTIES, SRC_URI) a bare `( a b )` group is accepted as a conditional on the flag '' and its contents vanish on evaluation")
    ctx.floor("R2", 7)

    # ---- R3 collapse flags ------------------------------------------------------------------
    base = P.cls(BMOD, "base")
    ev = base.methods.get("evaluate_conditionals")
    ctx.require(ev is not None, "boolean.base.evaluate_conditionals not found")
    col = [n for n in A.body_walk(ev.node) if isinstance(n, ast.If) and "force_collapse" in A.unparse(n.test)]
    ctx.require(col, "evaluate_conditionals: collapse decision not found")
    test = col[0].test
    ats = boolx.atoms(test)
    a_same = "issubclass(parent_cls, self.__class__)"
    a_flag = "self._evaluate_collapsible"
    a_single = "self._evaluate_collapse_single"
    ctx.require({a_same, a_flag}.issubset(ats), f"evaluate_conditionals: collapse test atoms changed ({ats})")
    ctx.check("R3", ev, a_single in ats, "single-collapse-flag-consulted", "a one-element group is collapsed only if its class says a single element is equivalent to the group",
              "evaluate_conditionals collapses every one-element group: `?? ( x? ( a ) b )` with x off becomes a hard requirement `b`", node=col[0])
    # the list of evaluated children, bound by its role: filled while iterating over self
    lm = M.one(ev.node, "$l = []\nfor $_ in self:\n    pass")
    ctx.require(lm is not None, "evaluate_conditionals: list of evaluated children not found")
    lv = lm["l"]
    free = {k: False for k in ats}
    if lv in free:
        free[lv] = True  # a non-empty element list, unless a row says otherwise
    def outcome(**on):
        env = dict(free)
        env.update(on)
        return boolx.evaluate(test, env)
    len1 = [k for k in ats if k.replace(" ", "") in (f"len({lv})==1",)]
    ctx.check("R3", ev, outcome() is False and outcome(**{a_same: True}) is False and outcome(**{a_flag: True}) is False and outcome(**{a_same: True, a_flag: True}) is True, "flatten-needs-same-kind-and-flag",
              "a group is flattened into its parent only when the parent is of the same kind AND the class allows it", node=col[0])
    if len1 and a_single in ats:
        ctx.check("R3", ev, outcome(**{len1[0]: True}) is False and outcome(**{len1[0]: True, a_single: True}) is True, "single-collapse-guarded", "one-element collapse needs the class flag", node=col[0])
    def contributions(stmts):
        return [c for c in A.calls(stmts) if isinstance(c.func, ast.Attribute) and A.unparse(c.func.value) == "parent_seq"]
    arm_yes, arm_no = contributions(col[0].body), contributions(col[0].orelse)
    ctx.check("R3", ev, len(arm_yes) == 1 and M.pat("parent_seq.extend($l)").matches(arm_yes[0], lm.env) is not None and arm_yes[0]._parent in col[0].body
              and len(arm_no) == 1 and M.pat("parent_seq.append(self.__class__(*$l))").matches(arm_no[0], lm.env) is not None and arm_no[0]._parent in col[0].orelse, "collapse-arms", "collapsed groups contribute their elements, others a new node of the same class")
    outer = [p for p in A.parents(col[0]) if isinstance(p, ast.If)]
    ctx.check("R3", ev, bool(outer) and M.pat("not self._evaluate_wipe_empty or $l").matches(outer[0].test, lm.env) is not None, "empty-groups-vanish", "a group emptied by conditionals adds nothing (unless its class keeps empty groups)")

    def flag(K, name):
        owner, node = P.lookup_attr(K, name)
        return A.try_literal(node) if node is not None and not hasattr(node, "node") else None

    for cname in ("AndRestriction", "OrRestriction", "JustOneRestriction", "AtMostOneOfRestriction"):
        K = P.cls(BMOD, cname)
        f1 = bool(flag(K, "_evaluate_collapsible"))
        ctx.check("R3", K, f1 == (cname in ASSOCIATIVE), f"collapsible:{cname}={f1}", f"{cname}: may {'' if cname in ASSOCIATIVE else 'NOT '}be flattened into a same-kind parent",
                  f"{cname}._evaluate_collapsible is {f1}: " + ("nested groups of this kind are not associative, so `^^ ( ^^ ( a b ) c )` would be evaluated as `^^ ( a b c )`" if cname not in ASSOCIATIVE else "nested same-kind groups are no longer merged"))
        f2 = flag(K, "_evaluate_collapse_single")
        ctx.check("R3", K, bool(f2) == SINGLE_OK[cname], f"collapse-single:{cname}={f2}", f"{cname}: a single remaining element {'is' if SINGLE_OK[cname] else 'is NOT'} equivalent to the group")
    # DepSet.parse applies the same single-element rule
    pc = [i for i in ifs if M.has(i.test, "len($depsets[-1]) == 1", E)]
    def names_flag(e):
        return any((isinstance(n, ast.Attribute) and n.attr == "_evaluate_collapse_single") or A.is_const(n, "_evaluate_collapse_single") for n in ast.walk(e))
    ctx.check("R3", parse, bool(pc) and names_flag(pc[0].test), "parse-single-collapse-guarded", "the parser replaces a one-element group by its element only for classes where that is an equivalence",
              "DepSet.parse replaces every one-element operator group by its element: `?? ( a )` becomes the hard requirement `a`")
    ctx.floor("R3", 13)

    # ---- R4 Conditional.evaluate_conditionals ---------------------------------------------------
    ce = P.func("pkgcore.restrictions.packages", "Conditional.evaluate_conditionals")
    calls = [c for c in A.calls(ce.node) if A.call_attr(c) == "evaluate_conditionals"]
    ok = len(calls) == 1 and A.unparse(calls[0].func.value) == "boolean.AndRestriction(*self.payload)" and [A.unparse(a) for a in calls[0].args[:2]] == [ce.params()[1], ce.params()[2]]
    ctx.check("R4", ce, ok, "payload-as-one-group", "an active conditional hands its payload to the parent as ONE all-of group (which the parent may flatten only if it is all-of itself)",
              f"Conditional.evaluate_conditionals no longer wraps its payload in an all-of group before evaluating it into the parent: `|| ( x? ( a b ) c )` with x on becomes `|| ( a b c )`", node=ce.node)
    direct = [c for c in A.calls(ce.node) if A.unparse(c.func) in (f"{ce.params()[2]}.append", f"{ce.params()[2]}.extend")]
    ctx.check("R4", ce, not direct, "no-direct-append", "the conditional never appends payload elements to the parent sequence itself")
    guard = [n for n in A.body_walk(ce.node) if isinstance(n, ast.If) and M.pat("not self.restriction.match(enabled)").matches(n.test)]
    def leaves_empty_handed(stmts):
        # the arm returns (no value) and nothing before that return touches the parent sequence or evaluates anything into it
        for st in stmts:
            if isinstance(st, ast.Return):
                return st.value is None
            if any(isinstance(n, ast.Name) and n.id == ce.params()[2] for n in ast.walk(st)) or any(A.call_attr(c) == "evaluate_conditionals" for c in A.calls(st)):
                return False
            if not isinstance(st, ast.Expr):
                return False
        return False
    ctx.check("R4", ce, bool(guard) and leaves_empty_handed(guard[0].body), "inactive-contributes-nothing", "a conditional whose condition does not hold contributes nothing")
    ctx.floor("R4", 3)

    # ---- R5 tokeniser and feature tests share one notion of blank; evaluation keeps multiplicity -------------------
    from ..core import blank
    ctx.check("R5", parse, bool(blank.split_on_any_blank(parse.node)), "tokenises-on-any-blank", "DepSet.parse tokenises with str.split() (any whitespace)")
    bad = blank.space_literal_tests(parse.node)
    ctx.check("R5", parse, not bad, "blank-notion:" + (repr(bad[0][2]) if bad else ""),
              "no question about token boundaries is asked of the dependency text with a literal ' '",
              f"DepSet.parse tokenises `{bad[0][1] if bad else ''}` on any whitespace but also tests it with the literal {bad[0][2] if bad else ''!r}: a token delimited by "
              f"a tab or newline (line-wrapped SRC_URI) is a token for the parser and invisible to that test", node=bad[0][0] if bad else None)
    be = P.func("pkgcore.restrictions.boolean", "base.evaluate_conditionals")
    DEDUP = {"set", "frozenset", "fromkeys", "stable_unique", "unique", "iter_stable_unique", "OrderedDict", "dict"}
    dd = [c for c in A.calls(be.node) if ((dotted(c.func) or "").split(".")[-1] in DEDUP or A.call_attr(c) in DEDUP)]
    ctx.check("R5", be, not dd, "evaluation-keeps-multiplicity",
              "evaluate_conditionals never de-duplicates the evaluated members",
              f"base.evaluate_conditionals passes the evaluated members through `{A.unparse(dd[0])[:60] if dd else ''}`: in an exactly-one-of / at-most-one-of group the "
              f"same token occurring twice (e.g. through an enabled conditional) makes the group unsatisfiable; after de-duplication it is satisfiable", node=dd[0] if dd else None)
    ctx.floor("R5", 3)

    # ---- R6 the parent's USE state is asked about the flag NAME, not the token with its (+)/(-) default ------------------
    te = P.func("pkgcore.ebuild.atom", "transitive_use_atom.evaluate_conditionals")
    enabled_p = te.params()[3] if len(te.params()) > 3 else None
    ctx.require(enabled_p is not None, "transitive_use_atom.evaluate_conditionals: enabled parameter not found")
    strip = [m_ for m_ in M.find(te.node, "if $r[-1] == ')':\n    $r = $r[:-3]")]
    ctx.require(strip, "transitive_use_atom.evaluate_conditionals: the strip of the use-default marker `(+)`/`(-)` not found")
    bare = strip[0]["r"]
    asks = [c for c in ast.walk(te.node) if isinstance(c, ast.Compare) and len(c.ops) == 1 and isinstance(c.ops[0], (ast.In, ast.NotIn)) and A.unparse(c.comparators[0]) == enabled_p]
    ctx.require(asks, "transitive_use_atom.evaluate_conditionals: no membership test against the enabled set found")
    for c in asks:
        ctx.check("R6", te, A.unparse(c.left) == bare, f"state-asked-by-bare-name:{A.unparse(c.left)}", f"`{A.unparse(c)}` asks about the marker-free name `{bare}`",
                  f"`{A.unparse(c)}` looks `{A.unparse(c.left)}` up in the parent's enabled flags; only `{bare}` has the use-default marker stripped, so `x(+)=` / `x(-)?` is never found "
                  f"enabled and the conditional is resolved as if the flag were off", node=c)
    ctx.floor("R6", 2)


MUTANTS = [
    {"name": "render-justone-missing", "file": "src/pkgcore/ebuild/conditionals.py", "old": "    elif isinstance(node, boolean.JustOneRestriction):\n        visit(\"^^ (\")\n        iterable = node.restrictions\n", "new": "", "rule": "R1"},
    {"name": "typo-fixed-collapsible", "file": "src/pkgcore/restrictions/boolean.py", "old": "    \"\"\"Either none, or exactly one match must occur.\"\"\"\n\n    __slots__ = ()\n\n    _evaluate_collapsable = True", "new": "    \"\"\"Either none, or exactly one match must occur.\"\"\"\n\n    __slots__ = ()\n\n    _evaluate_collapsible = True", "rule": "R3"},
    {"name": "payload-flattened", "file": "src/pkgcore/restrictions/packages.py", "old": "        if self.payload:\n            boolean.AndRestriction(*self.payload).evaluate_conditionals(\n                parent_cls, parent_seq, enabled, tristate_locked\n            )", "new": "        for node in self.payload:\n            f = getattr(node, \"evaluate_conditionals\", None)\n            if f is None:\n                parent_seq.append(node)\n            else:\n                f(parent_cls, parent_seq, enabled, tristate_locked)", "rule": "R4"},
    {"name": "empty-conditional-accepted", "file": "src/pkgcore/ebuild/conditionals.py", "old": "                        if c[0] == \"!\":", "new": "                        if c.startswith(\"!\"):", "rule": "R2"},
    {"name": "single-collapse-always", "file": "src/pkgcore/restrictions/boolean.py", "old": "                or (len(l) == 1 and self._evaluate_collapse_single)", "new": "                or len(l) == 1", "rule": "R3"},
    {"name": "unclosed-accepted", "file": "src/pkgcore/ebuild/conditionals.py", "old": "        if len(depsets) != 1:\n            raise DepsetParseError(dep_str, attr=attr)", "new": "        if len(depsets) > 2:\n            raise DepsetParseError(dep_str, attr=attr)", "rule": "R2"},
    {"name": "atmostone-single-collapse", "file": "src/pkgcore/restrictions/boolean.py", "old": "    _evaluate_collapse_single = False\n", "new": "    _evaluate_collapse_single = True\n", "rule": "R3"},
]
MUTANTS += [
    {"name": "state-asked-with-default-marker", "file": "src/pkgcore/ebuild/atom.py", "old": "                    if (raw_flag in enabled) == negated:\n                        continue", "new": "                    if (flag in enabled) == negated:\n                        continue", "rule": "R6"},
]
TWINS = []
