"""C48 — cached metadata is used only while it is still valid."""
import ast

from ..core import generic as G
from ..core import astutil as A
from ..core import match as M
from ..core import cfg as CFG
from ..core.model import dotted

META = {
    "technique": "decision-structure rules on validate_entry (each rejection guard mentions only the fact it tests; the acceptance needs the ebuild checksum to match and the eclass rebuild to succeed), all-or-nothing rule on rebuild_cache_entry (a mismatch of ANY recorded (checksum-kind, value) pair of ANY recorded eclass returns None at once; no pair is filtered out), must-pass rule on _get_metadata's CFG (cached data is returned only through a true validate_entry; a rejected entry of a writable cache is deleted; the fall-through regenerates), checksum-kind tables of the cache formats",
    "level": "Decides the structural clauses: a cache entry is accepted only if its recorded ebuild checksum equals the current one, and — when it records eclasses — it has an INHERIT key and EVERY recorded eclass still exists with EVERY recorded checksum-kind value (location included for the flat format); otherwise the entry is rejected, deleted when the cache is writable, and metadata is regenerated. Does NOT decide concrete repositories.",
    "note": "",
}
META["technique"] += "; " + 'generic pack G on the anchored files (optional-flag shift, closures outliving a loop iteration, single-pass iterables consumed twice, %-templates built from data, in-place writes to class-level / memoised objects, generators mutating what they yielded, memo keys that are projections)'
CM = "pkgcore.cache"
EC = "pkgcore.ebuild.eclass_cache"
ES = "pkgcore.ebuild.ebuild_src"


def run(ctx):
    P = ctx.program
    ctx.explanation = META["level"]
    ve = P.func(CM, "base.validate_entry")
    item = ve.params()[1]
    # ---- R1 validate_entry ----------------------------------------------------------------------------
    rets = A.returns(ve.node)
    falses = [r for r in rets if A.is_const(r.value, False)]
    trues = [r for r in rets if A.is_const(r.value, True)]
    ctx.check("R1", ve, len(falses) == 3 and len(trues) == 2, f"exits:{len(falses)}F/{len(trues)}T", "three rejections (ebuild checksum, missing INHERIT, stale eclasses), two acceptances (no eclasses recorded, eclasses rebuilt)")
    t = A.unparse(ve.node)
    ctx.check("R1", ve, M.has(ve.node, f"$h = {item}.get(self._chf_key)\nif $h is None or $h != getattr(ebuild_hash_item, self.chf_type, None):\n    return False"), "ebuild-checksum-must-match", "a missing or different ebuild checksum rejects the entry")
    inh = [n for n in A.body_walk(ve.node) if isinstance(n, ast.If) and "'INHERIT'" in A.unparse(n.test)]
    ok = len(inh) == 1 and A.unparse(inh[0].test) == f"{item}.get('INHERIT') is None" and A.is_const(inh[0].body[0].value if isinstance(inh[0].body[0], ast.Return) else None, False)
    ctx.check("R1", ve, ok, f"missing-inherit-rejects:{A.unparse(inh[0].test)[:60] if inh else ''}", "an entry recording eclasses but lacking INHERIT is rejected, whatever the cache's mode",
              f"the missing-INHERIT rejection is conditional on `{A.unparse(inh[0].test) if inh else '?'}`: an old-format entry is used as is (empty inherit list, no regeneration) when the extra condition is false", node=inh[0] if inh else ve.node)
    ctx.check("R1", ve, M.has(ve.node, f"$ed = {item}.get('_eclasses_')\n...\n$u = eclass_db.rebuild_cache_entry($ed)\nif $u is None:\n    return False\n{item}['_eclasses_'] = $u\nreturn True"), "stale-eclasses-reject", "a failed eclass rebuild rejects; a successful one replaces the recorded data by the live eclass objects")
    ctx.check("R1", ve, M.has(ve.node, f"$ed = {item}.get('_eclasses_')\nif $ed is None:\n    return True"), "no-eclasses-accepts", "an entry recording no eclasses is accepted on the ebuild checksum alone")
    ctx.check("R1", ve, M.has(ve.node, f"if $h is None or $_:\n    return False\n$ed = {item}.get('_eclasses_')\nif $ed is None:\n    return True\nif {item}.get('INHERIT') is None:\n    return False\n$u = eclass_db.rebuild_cache_entry($ed)"), "check-order", "ebuild checksum first, then eclasses")
    ctx.floor("R1", 6)

    # ---- R2 rebuild_cache_entry ------------------------------------------------------------------------------
    rb = P.func(EC, "base.rebuild_cache_entry")
    loops = [n for n in rb.node.body if isinstance(n, ast.For)]
    ctx.require(len(loops) == 1, "rebuild_cache_entry: loop over the recorded eclasses not found")
    lp = loops[0]
    ctx.check("R2", rb, A.unparse(lp.iter) == rb.params()[1], "walks-every-recorded-eclass", "every recorded eclass is examined")
    mism = [n for n in lp.body if isinstance(n, ast.If) and any(isinstance(s, ast.Return) and A.is_const(s.value, None) for s in n.body)]
    ok = len(mism) == 1
    ctx.check("R2", rb, ok, f"mismatch-returns-none:{len(mism)}", "a mismatching eclass makes the whole entry stale at once (return None inside the loop)",
              "rebuild_cache_entry no longer returns None on the first mismatching eclass: an entry is considered stale only when NONE of its recorded eclasses match, so a partially stale entry is used", node=lp)
    if ok:
        test = mism[0].test
        gens = [g for g in A.walk(test) if isinstance(g, ast.GeneratorExp)]
        anyc = isinstance(test, ast.Call) and dotted(test.func) == "any" or (isinstance(test, ast.BoolOp) and any(isinstance(v, ast.Call) and dotted(v.func) == "any" for v in test.values))
        ctx.check("R2", rb, anyc and len(gens) == 1 and isinstance(lp.target, ast.Tuple) and A.unparse(gens[0].generators[0].iter) == A.unparse(lp.target.elts[1]), "any-pair-mismatch", "the test is `any(pair mismatches)` over the recorded (kind, value) pairs")
        if gens:
            filt = gens[0].generators[0].ifs
            ctx.check("R2", rb, not filt, f"no-pair-filtered:{[A.unparse(f) for f in filt]}", "every recorded checksum kind takes part (eclass location included)",
                      f"the comparison skips pairs (`if {' and '.join(A.unparse(f) for f in filt)}`): that recorded fact is no longer part of validity — an eclass that now resolves to another location with unchanged mtime keeps stale metadata alive", node=gens[0])
            ctx.check("R2", rb, M.pat("$val != getattr($data, $chf, None)").matches(gens[0].elt) is not None and M.has(lp, "$data = $ec.get($e)"), "compares-live-attribute", "each recorded value is compared with the live eclass's attribute of that kind (a vanished eclass compares as None)")
    last = A.returns(rb.node)[-1]
    acc = M.one(rb.node, "$d = {}\nfor $e, $c in $_:\n    ...\n    $d[$e] = $data\nreturn $d")
    ctx.check("R2", rb, acc is not None and isinstance(A.returns(rb.node)[-1].value, ast.Name), f"returns-full-map:{'ok' if acc else A.unparse(A.returns(rb.node)[-1].value)}", "the rebuilt map is returned as is (an entry recording zero eclasses stays valid)",
              f"rebuild_cache_entry ends with `return {A.unparse(last.value)}`: the rebuilt map is not returned as is", node=last)
    ctx.check("R2", rb, M.has(rb.node, "$ec = self.eclasses\n...\nfor $e, $c in $_:\n    $data = $ec.get($e)"), "live-view", "the comparison is against the live eclass view")
    ctx.floor("R2", 6)

    # ---- R3 _get_metadata ---------------------------------------------------------------------------------------
    gm = P.func(ES, "package_factory._get_metadata")
    g = CFG.cfg_of(gm.node)
    vg = M.one(gm.node, "$data = $cache[pkg.cpvstr]\nif $cache.validate_entry($data, $eh, self._ecache):\n    return $data")
    ctx.require(vg is not None or len(A.returns(gm.node)) >= 2, "_get_metadata: cache lookup not found")
    datav = vg["data"] if vg else None
    rets = [r for r in A.returns(gm.node) if r.value is not None and isinstance(r.value, ast.Name) and (datav is None or r.value.id == datav)]
    ctx.require(len(rets) >= 1, "_get_metadata: return of cached data not found")
    guard = next((p for p in A.parents(rets[0]) if isinstance(p, ast.If)), None)
    ok = vg is not None and len(rets) == 1 and guard is not None and M.pat("$cache.validate_entry($data, $eh, self._ecache)").matches(guard.test) is not None and rets[0] in guard.body
    ctx.check("R3", gm, ok, "cached-only-if-validated", "cached data is returned only inside the true branch of validate_entry",
              "_get_metadata returns cached data on a path where validate_entry did not accept it", node=rets[0])
    t = A.unparse(gm.node)
    ctx.check("R3", gm, M.has(gm.node, "if $cache.validate_entry($_, $_, $_):\n    return $_\nif not $cache.readonly:\n    del $cache[pkg.cpvstr]"), "stale-entry-deleted", "a rejected entry is deleted from a writable cache")
    ctx.check("R3", gm, A.unparse(A.returns(gm.node)[-1].value) == "self._update_metadata(pkg, ebp=ebp)" and A.returns(gm.node)[-1] in gm.node.body, "fallthrough-regenerates", "without an accepted entry the metadata is regenerated from the ebuild")
    ctx.check("R3", gm, M.has(gm.node, "$eh = chksum.LazilyHashedPath(pkg.path)\n...\nfor $cache in $_:\n    ...") and (vg is None or M.has(gm.node, "$eh = chksum.LazilyHashedPath(pkg.path)", {"eh": vg["eh"]})), "current-ebuild-hash", "validation is against the ebuild file as it is now")
    ctx.check("R3", gm, M.has(gm.node, "$cs = self._cache\nif force_regen:\n    $cs = ()\n...\nfor $cache in $cs:\n    ..."), "force-regen-skips-caches", "force_regen bypasses every cache")
    ctx.floor("R3", 5)

    # ---- R4 checksum kinds -------------------------------------------------------------------------------------------
    fh = P.cls("pkgcore.cache.flat_hash", "database")
    md = P.cls("pkgcore.cache.flat_hash", "md5_cache")
    ctx.check("R4", fh, A.try_literal(fh.assigns.get("eclass_chf_types")) == ("eclassdir", "mtime"), "flat-kinds", "flat format records each eclass's directory and mtime")
    ctx.check("R4", md, A.try_literal(md.assigns.get("eclass_chf_types")) == ("md5",) and A.try_literal(md.assigns.get("chf_type")) == "md5", "md5-kinds", "md5-cache records each eclass's md5 and the ebuild's md5")
    de = P.func(CM, "base._deserialize_eclass_chfs")
    ctx.check("R4", de, M.has(de.node, "$z = zip(self.eclass_chf_deserializers, data)\nfor (($chf, $conv), $item) in $z:\n    yield ($chf, $conv($item))"), "pairs-are-kind-value", "recorded eclass data is a sequence of (kind, value) pairs — what rebuild_cache_entry compares")
    ctx.floor("R4", 3)

    # ---- R6 preloaded eclass bodies are dropped on the daemon side when caching ends -------------------------------------
    G.always_reaches(ctx, "R6", "pkgcore.ebuild.processor", "EbuildProcessor.disable_eclass_caching", lambda c: A.unparse(c.func) == "self.clear_preloaded_eclasses",
                     "clear_preloaded_eclasses() (the daemon is told to forget the preloaded bodies)", "disable-clears-daemon")
    cpe = P.func("pkgcore.ebuild.processor", "EbuildProcessor.clear_preloaded_eclasses")
    wr = [c for c in A.calls(cpe.node) if A.unparse(c.func) == "self.write" and c.args and A.is_const(c.args[0], "clear_preloaded_eclasses")]
    guards = [A.unparse(p_.test) for c in wr for p_ in A.parents(c) if isinstance(p_, ast.If)]
    ctx.check("R6", cpe, bool(wr) and all(g_ in ("self.is_responsive", "self.is_alive") for g_ in guards), "clear-sent-when-alive:" + ",".join(guards),
              "the clear command is sent whenever the daemon is there to receive it",
              f"clear_preloaded_eclasses only talks to the daemon under `{' and '.join(guards)}`: when that is false for a live daemon the bash side keeps the old eclass bodies while "
              f"Python believes nothing is preloaded — regenerated metadata comes from stale eclass text")
    ctx.floor("R6", 2)


MUTANTS = [
    {"name": "inherit-only-if-writable", "file": "src/pkgcore/cache/__init__.py", "old": "        if cache_item.get(\"INHERIT\") is None:", "new": "        if cache_item.get(\"INHERIT\") is None and not self.readonly:", "rule": "R1"},
    {"name": "ebuild-hash-missing-accepted", "file": "src/pkgcore/cache/__init__.py", "old": "        if chf_hash is None or chf_hash != getattr(", "new": "        if chf_hash is not None and chf_hash != getattr(", "rule": "R1"},
    {"name": "partial-match-accepted", "file": "src/pkgcore/ebuild/eclass_cache.py", "old": "            if any(val != getattr(data, chf, None) for chf, val in chksums):\n                return None\n            d[eclass] = data\n\n        return d", "new": "            if all(val == getattr(data, chf, None) for chf, val in chksums):\n                d[eclass] = data\n\n        return d or None", "rule": "R2"},
    {"name": "eclassdir-skipped", "file": "src/pkgcore/ebuild/eclass_cache.py", "old": "            if any(val != getattr(data, chf, None) for chf, val in chksums):", "new": "            if data is None or any(\n                val != getattr(data, chf, None)\n                for chf, val in chksums\n                if chf != \"eclassdir\"\n            ):", "rule": "R2"},
    {"name": "stale-data-returned", "file": "src/pkgcore/ebuild/ebuild_src.py", "old": "                    if cache.validate_entry(data, ebuild_hash, self._ecache):\n                        return data\n                    if not cache.readonly:\n                        del cache[pkg.cpvstr]", "new": "                    if cache.validate_entry(data, ebuild_hash, self._ecache) or cache.readonly:\n                        return data\n                    del cache[pkg.cpvstr]", "rule": "R3"},
    {"name": "flat-drops-location", "file": "src/pkgcore/cache/flat_hash.py", "old": "    eclass_chf_types = (\"eclassdir\", \"mtime\")", "new": "    eclass_chf_types = (\"mtime\",)", "rule": "R4"},
]
TWINS = [
    {"name": "data-none-shortcut", "file": "src/pkgcore/ebuild/eclass_cache.py", "old": "            if any(val != getattr(data, chf, None) for chf, val in chksums):", "new": "            if data is None or any(val != getattr(data, chf, None) for chf, val in chksums):"},
]
