"""C12 — incremental token expansion follows left-to-right incremental semantics (structural clauses)."""
import ast

from ..core import generic as G
from ..core import astutil as A
from ..core.model import dotted

META = {
    "technique": "guard enumeration (incomplete-negation raises per sibling expander), action table per token class (-*, -x, -@g, @g, *, x) extracted from the branch structure, iteration-source rule for the right-to-left condenser, freshness (ownership) rule for every set handed to the mutating expander",
    "level": "Decides: (R1) each of the three expanders raises ValueError for a bare '-', the license expander also for '-@' and '@'; (R2) '-*' clears everything seen so far in the two expanders and terminates the right-to-left condenser after being emitted; (R3) the condenser walks reversed(<its argument itself>) and emits a token only while its flag is not yet finalized, recording it on both arms, and its callers consume the result as an unordered set; (R4) license tokens: '*' adds the package's licenses, '@g'/'-@g' go through the group table, plain tokens add/discard themselves; (R5) the set mutated in place by incremental_expansion inside pull_data is always a fresh copy, never a stored attribute. Does NOT decide set equality for concrete streams.",
    "note": "token predicates are opaque; only the branch structure and the mutated containers are decided",
}
META["technique"] += "; " + 'effect analysis; accumulator-guard rule; finalized-defaults-only-seed rule'
META["level"] += " Added after the second round of independent changes: " + '(R6) lookups are read-only on the stored tables, the expanders write only to `orig`; (R7) `orig` is replaced only when it is None (not when empty), and the finalized defaults only ever start an accumulator, they are never merged into one that already holds tokens.'
META["technique"] += "; " + 'generic pack G on the anchored files (optional-flag shift, closures outliving a loop iteration, single-pass iterables consumed twice, %-templates built from data, in-place writes to class-level / memoised objects, generators mutating what they yielded, memo keys that are projections)'

MOD = "pkgcore.ebuild.misc"


def slice_from_one(node, of=None):
    return isinstance(node, ast.Subscript) and isinstance(node.slice, ast.Slice) and A.is_const(node.slice.lower, 1) and node.slice.upper is None and (of is None or A.unparse(node.value) == of)


def empty_guards(fn):
    """`if not <name>: raise ValueError` where <name> was assigned from <x>[1:]"""
    out = []
    sliced = {A.unparse(t) for t, v, _ in A.assignments(fn.node) if slice_from_one(v)}
    for n in A.body_walk(fn.node):
        if isinstance(n, ast.If) and isinstance(n.test, ast.UnaryOp) and isinstance(n.test.op, ast.Not) and A.unparse(n.test.operand) in sliced:
            if any(isinstance(x, ast.Raise) and "ValueError" in A.unparse(x) for x in n.body):
                out.append(n)
    return out


def roles(ctx, fn):
    """discover the role names of an expander: loop token, remainder (token[1:]), accumulator"""
    loops = [n for n in fn.node.body if isinstance(n, ast.For) and isinstance(n.target, ast.Name)]
    ctx.require(loops, f"{fn.qual}: token loop not found")
    tok = loops[0].target.id
    rem = None
    for t, v, _ in A.assignments(fn.node):
        if isinstance(t, ast.Name) and slice_from_one(v, tok):
            rem = t.id
    ctx.require(rem is not None, f"{fn.qual}: remainder `{tok}[1:]` not found")
    rets = [r for r in A.returns(fn.node) if isinstance(r.value, ast.Name)]
    acc = rets[-1].value.id if rets else None
    return tok, rem, acc


def arm_of(fn, test_text):
    return [n for n in A.body_walk(fn.node) if isinstance(n, ast.If) and A.unparse(n.test) == test_text]


def run(ctx):
    P = ctx.program
    ctx.explanation = META["level"]
    opt = P.func(MOD, "optimize_incrementals")
    exp = P.func(MOD, "incremental_expansion")
    lic = P.func(MOD, "incremental_expansion_license")

    # ---- R1 ----------------------------------------------------------------
    for f, want, what in ((opt, 1, "'-'"), (exp, 1, "'-'"), (lic, 3, "'-', '-@' and '@'")):
        g = empty_guards(f)
        ctx.check("R1", f, len(g) >= want, f"incomplete-negation-guards:{len(g)}of{want}", f"{f.qual} rejects {what} with ValueError ({want} guard(s))",
                  f"{f.qual} has {len(g)} empty-remainder guard(s) raising ValueError, needs {want}: an incomplete token among {what} is accepted silently")
        for n in g:
            ctx.ob("R1", f, f"guard `{A.unparse(n.test)}` raises ValueError", node=n)
    # the guards sit under the right token classes
    tok, i, seen = roles(ctx, lic)
    etok, ei, orig = roles(ctx, exp)
    otok, oi, _ = roles(ctx, opt)
    neg = arm_of(lic, f"{tok}[0] == '-'")
    ctx.require(neg, "incremental_expansion_license: negation arm not found")
    grp_neg = [n for n in ast.walk(neg[0]) if isinstance(n, ast.If) and A.unparse(n.test) == f"{i}[0] == '@'"]
    ctx.check("R1", lic, bool(grp_neg) and any(g_ in [x for x in ast.walk(grp_neg[0])] for g_ in empty_guards(lic)), "neg-group-guard", "'-@' (negated empty group) is rejected inside the negated-group arm")
    grp = [n for n in A.body_walk(lic.node) if isinstance(n, ast.If) and A.unparse(n.test) == f"{tok}[0] == '@'"]
    ctx.check("R1", lic, bool(grp) and any(g_ in list(ast.walk(grp[0].body[0])) + list(grp[0].body) for g_ in empty_guards(lic)) or bool(grp) and any(A.contains_node(s, g_) or s is g_ for s in grp[0].body for g_ in empty_guards(lic)),
              "group-guard", "'@' (empty group) is rejected in the group arm")
    ctx.floor("R1", 7)

    # ---- R2 '-*' ---------------------------------------------------------------------
    for f in (exp, lic):
        ftok, fi_, acc = (etok, ei, orig) if f is exp else (tok, i, seen)
        star = [n for n in A.body_walk(f.node) if isinstance(n, ast.If) and A.unparse(n.test) == f"{fi_} == '*'"]
        ctx.require(star, f"{f.qual}: '-*' arm not found")
        ok = any(isinstance(s, ast.Expr) and A.unparse(s.value) == f"{acc}.clear()" for s in star[0].body)
        ctx.check("R2", f, ok, "star-clears", f"'-*' clears the accumulated set `{acc}`", f"{f.qual}: the '-*' arm does not clear `{acc}`", node=star[0])
        # the star arm is inside the negation arm and before any discard
        in_neg = any(isinstance(p, ast.If) and A.unparse(p.test) == f"{ftok}[0] == '-'" for p in A.parents(star[0]))
        ctx.check("R2", f, in_neg, "star-under-negation", "'*' only clears when it is negated ('-*')", node=star[0])
    star = [n for n in A.body_walk(opt.node) if isinstance(n, ast.If) and A.unparse(n.test) == f"{oi} == '*'"]
    ctx.require(star, "optimize_incrementals: '-*' arm not found")
    kinds = [type(s).__name__ for s in star[0].body]
    ok = kinds == ["Expr", "Return"] and isinstance(star[0].body[0].value, ast.Yield) and A.unparse(star[0].body[0].value.value) == otok
    ctx.check("R2", opt, ok, "star-terminates", "the condenser emits '-*' and stops (nothing to its left matters)", f"optimize_incrementals '-*' arm is {[A.unparse(s) for s in star[0].body]}", node=star[0])
    ctx.floor("R2", 5)

    # ---- R3 condenser ---------------------------------------------------------------------
    loops = [n for n in opt.node.body if isinstance(n, ast.For)]
    ctx.require(len(loops) == 1, "optimize_incrementals: single token loop not found")
    p0 = opt.params()[0]
    it = loops[0].iter
    ok = isinstance(it, ast.Call) and dotted(it.func) == "reversed" and len(it.args) == 1 and A.unparse(it.args[0]) == p0
    reassigned = [t for t, v, _ in A.assignments(opt.node) if isinstance(t, ast.Name) and t.id == p0]
    ctx.check("R3", opt, ok and not reassigned, "walks-reversed-argument",
              f"the condenser walks reversed({p0}) over the argument itself (the LAST occurrence of a flag decides)",
              f"optimize_incrementals iterates `{A.unparse(it)}`" + (f" after rebinding `{p0}`" if reassigned else "") + ": de-duplicating or reordering the stream first keeps a stale earlier token", node=loops[0])
    ys = [n for n in ast.walk(loops[0]) if isinstance(n, ast.Yield)]
    fin_name = None
    for t, v, _ in A.assignments(opt.node):
        if isinstance(t, ast.Name) and isinstance(v, ast.Call) and dotted(v.func) == "set" and not v.args:
            fin_name = t.id
    ctx.require(fin_name is not None, "optimize_incrementals: finalized set not found")
    for y in ys:
        st = A.stmt_of(y)
        if any(isinstance(p, ast.If) and A.unparse(p.test) == f"{oi} == '*'" for p in A.parents(st)):
            continue
        guard = [p for p in A.parents(st) if isinstance(p, ast.If) and f"not in {fin_name}" in A.unparse(p.test)]
        ctx.check("R3", opt, bool(guard), f"emit-guarded@{A.unparse(guard[0].test) if guard else st.lineno}", "a token is emitted only while its flag is not finalized", node=st)
        if guard:
            adds = [c for s in guard[0].body for c in A.calls(s) if A.unparse(c.func) == f"{fin_name}.add"]
            ctx.check("R3", opt, len(adds) == 1, f"emit-records@{A.unparse(guard[0].test)}", "the emitted flag is recorded as finalized", node=guard[0])
    # callers consume the condensed stream as a set
    users = []
    for fi in P.all_funcs():
        for c in A.calls(fi.node):
            if (dotted(c.func) or "").split(".")[-1] == "optimize_incrementals":
                users.append((fi, c))
    ctx.require(len(users) >= 2, "optimize_incrementals: callers not found")
    for fi, c in users:
        par = getattr(c, "_parent", None)
        wrap = dotted(par.func) if isinstance(par, ast.Call) else None
        ok = wrap in ("frozenset", "set", "tuple", "list", "sorted")
        # tuple/list are fine only if later split by split_negations (order-free); record which
        ctx.check("R3", fi, ok, f"consumer@{fi.qual}", f"{fi.qual} materialises the condensed stream via {wrap}()", f"{fi.qual} consumes optimize_incrementals() through `{A.unparse(par)[:50]}`", node=c)
    ctx.floor("R3", 5)

    # ---- R4 license actions ---------------------------------------------------------------------
    def calls_in_arm(arm_stmts):
        return [A.unparse(c) for s in arm_stmts for c in A.calls(s)]

    groups_p = lic.params()[2]
    ctx.check("R4", lic, f"{seen}.update({groups_p}.get({i}, ()))" in calls_in_arm(grp[0].body) if grp else False, "group-adds", "'@g' adds the licenses of group g")
    ctx.check("R4", lic, bool(grp_neg) and f"{seen}.difference_update({groups_p}.get({i}, ()))" in calls_in_arm(grp_neg[0].body), "neg-group-removes", "'-@g' removes the licenses of group g")
    ctx.check("R4", lic, bool(grp_neg) and f"{seen}.discard({i})" in calls_in_arm(grp_neg[0].orelse), "neg-plain-discards", "'-x' discards x")
    star_l = [n for n in A.body_walk(lic.node) if isinstance(n, ast.If) and A.unparse(n.test) == f"{tok} == '*'"]
    lic_param = lic.params()[1]
    ctx.check("R4", lic, bool(star_l) and f"{seen}.update({lic_param})" in calls_in_arm(star_l[0].body) and f"{seen}.add({tok})" in calls_in_arm(star_l[0].orelse), "star-adds-own",
              "'*' adds the package's own licenses; any other token adds itself")
    rets = A.returns(lic.node)
    ctx.check("R4", lic, len(rets) == 1 and A.unparse(rets[0].value) == seen, "returns-accumulator", "the accumulated set is returned")
    # plain expansion: 'x' re-enables: discards '-x' and adds x; '-x' discards x
    pos = [n for n in A.body_walk(exp.node) if isinstance(n, ast.If) and A.unparse(n.test) == f"{etok}[0] == '-'"]
    ctx.require(pos, "incremental_expansion: negation arm not found")
    ctx.check("R4", exp, f"{orig}.add({etok})" in calls_in_arm(pos[0].orelse) and f"{orig}.discard('-' + {etok})" in calls_in_arm(pos[0].orelse), "plain-adds", "'x' adds x and drops a recorded '-x'")
    ctx.check("R4", exp, f"{orig}.discard({ei})" in calls_in_arm(pos[0].body), "neg-discards", "'-x' discards x")
    ctx.floor("R4", 7)

    # ---- R5 freshness of the mutated set --------------------------------------------------------------
    for cls in ("collapsed_restrict_to_data",):
        pd = P.func(MOD, f"{cls}.pull_data")
        targets = set()
        for c in A.calls(pd.node):
            if dotted(c.func) == "incremental_expansion":
                for k in c.keywords:
                    if k.arg == "orig" and isinstance(k.value, ast.Name):
                        targets.add(k.value.id)
                if len(c.args) > 1 and isinstance(c.args[1], ast.Name):
                    targets.add(c.args[1].id)
        ctx.require(targets, f"{cls}.pull_data: no set handed to incremental_expansion(orig=...)")
        for tname in sorted(targets):
            for t, v, st in A.assignments(pd.node, tname):
                fresh = (isinstance(v, ast.Call) and dotted(v.func) in ("set", "copy", "copy.copy") or isinstance(v, (ast.SetComp, ast.Set))
                         or (isinstance(v, ast.Call) and isinstance(v.func, ast.Attribute) and v.func.attr in ("copy", "union", "difference")))
                ctx.check("R5", pd, fresh, f"fresh:{tname}={A.unparse(v)[:40]}", f"`{tname} = {A.unparse(v)}` is a fresh set before it is expanded in place",
                          f"{cls}.pull_data hands `{A.unparse(v)}` itself to the in-place expander: the stored defaults are modified by one query and change the answer of the next", node=st)
        rets = A.returns(pd.node)
        ctx.check("R5", pd, all(isinstance(r.value, ast.Name) and r.value.id in targets for r in rets), "returns-expanded", "pull_data returns the expanded copy")
    ctx.floor("R5", 2)

    # ---- R6 expansion writes only to its accumulator; lookups are read-only ------------------------------------------
    G.pure(ctx, "R6", [(MOD, q, (), "a lookup that edits the stored tables changes what the next package gets") for q in (
        "collapsed_restrict_to_data.pull_data", "collapsed_restrict_to_data.iter_pull_data", "non_incremental_collapsed_restrict_to_data.pull_data",
        "non_incremental_collapsed_restrict_to_data.iter_pull_data", "ChunkedDataDict.render_pkg", "ChunkedDataDict.render_to_dict",
        "ChunkedDataDict.render_to_payload", "PayloadDict.render_pkg", "_build_cp_atom_payload", "optimize_incrementals", "incremental_expansion_license") if P.func_opt(MOD, q)]
    + [(MOD, q, ("param:orig",), "orig= is the documented accumulator; nothing else may be written") for q in ("incremental_expansion", "incremental_chunked")])
    ctx.floor("R6", 8)

    # ---- R7 accumulator contract of the expander; finalized defaults only ever seed an empty accumulator -----------
    G.accumulator_guard(ctx, "R7", MOD, "incremental_expansion", "orig")
    for cls in ("collapsed_restrict_to_data",):
        for meth in ("pull_data", "iter_pull_data"):
            fi = P.func_opt(MOD, f"{cls}.{meth}")
            if fi is None:
                continue
            uses = [n for n in A.body_walk(fi.node) if isinstance(n, ast.Attribute) and n.attr == "defaults_finalized" and isinstance(n.ctx, ast.Load)]
            for u in uses:
                par = getattr(u, "_parent", None)
                seeds = isinstance(par, ast.Call) and par.args and par.args[0] is u and dotted(par.func) in ("set", "frozenset", "list", "iter", "tuple") \
                    or isinstance(par, (ast.Return, ast.Assign, ast.IfExp, ast.Yield, ast.YieldFrom, ast.For, ast.comprehension))
                ctx.check("R7", fi, seeds, f"finalized-only-seeds:{meth}",
                          f"{cls}.{meth}: the finalized defaults start an accumulator (copied / returned / iterated), they are not merged into one",
                          f"{cls}.{meth} merges the *finalized* defaults (`{A.unparse(par)[:70]}`) into an accumulator that already holds tokens: negations "
                          f"recorded in the stored defaults are not replayed over those earlier tokens (left-to-right stacking is lost)", node=u)
    ctx.floor("R7", 3)

MUTANTS = [
    {"name": "license-neg-group-guard-dropped", "file": "src/pkgcore/ebuild/misc.py", "old": "                    i = i[1:]\n                    if not i:\n                        raise ValueError(\n                            f\"{pkg}: {msg_prefix}encountered an incomplete negation\"\n                            \" of a license group, '-@'\"\n                        )\n", "new": "                    i = i[1:]\n", "rule": "R1"},
    {"name": "condenser-dedupes-first", "file": "src/pkgcore/ebuild/misc.py", "old": "    for item in reversed(sequence):", "new": "    for item in reversed(list(dict.fromkeys(sequence))):", "rule": "R3"},
    {"name": "pull-data-aliases-defaults", "file": "src/pkgcore/ebuild/misc.py", "old": "        else:\n            s = set(self.defaults_finalized)\n", "new": "        else:\n            s = self.defaults_finalized\n", "rule": "R5"},
    {"name": "star-does-not-clear", "file": "src/pkgcore/ebuild/misc.py", "old": "            if i == \"*\":\n                orig.clear()\n            else:\n                orig.discard(i)", "new": "            if i == \"*\":\n                pass\n            else:\n                orig.discard(i)", "rule": "R2"},
    {"name": "condenser-star-continues", "file": "src/pkgcore/ebuild/misc.py", "old": "                yield item\n                return\n", "new": "                yield item\n                continue\n", "rule": "R2"},
    {"name": "license-star-adds-token", "file": "src/pkgcore/ebuild/misc.py", "old": "            seen.update(licenses)", "new": "            seen.add(token)", "rule": "R4"},
    {"name": "bare-minus-accepted", "file": "src/pkgcore/ebuild/misc.py", "old": "            if not i:\n                raise ValueError(\n                    f\"{msg_prefix} encountered an incomplete negation, '-'\"\n                )\n", "new": "", "rule": "R1"},
]
TWINS = [
    {"name": "license-locals-renamed", "file": "src/pkgcore/ebuild/misc.py", "old": "    seen = set()\n    for token in iterable:\n        if token[0] == \"-\":\n            i = token[1:]\n            if not i:\n                raise ValueError(\n                    f\"{pkg}: {msg_prefix}encountered an incomplete negation, '-'\"\n                )\n            if i == \"*\":\n                seen.clear()\n            else:\n                if i[0] == \"@\":\n                    i = i[1:]\n                    if not i:", "new": "    seen = set()\n    for token in iterable:\n        if token[0] == \"-\":\n            i = token[1:]\n            if not i:\n                raise ValueError(\n                    f\"{pkg}: {msg_prefix}encountered an incomplete negation: '-'\"\n                )\n            if i == \"*\":\n                seen.clear()\n            else:\n                if i[0] == \"@\":\n                    i = i[1:]\n                    if not i:"},
]
