"""C03 — atom syntax acceptance per EAPI and round trip (structural clauses)."""
import ast
import re

from ..core import astutil as A
from ..core import boolx, rx
from ..core import match as M
from ..core.cfg import cfg_of
from ..core.eapitable import PMS_FIRST_ENABLED, EapiTables, module_charsets
from ..core.model import dotted

META = {
    "technique": "guard analysis of the atom parser (each PMS-gated feature reaches raise MalformedAtom under its own EAPI option), static folding of the EAPI.register chain into per-EAPI option tables compared with a frozen PMS table, character-set agreement between the parser's literal sets and the sibling regex validators, render-coverage of parsed attributes in __str__",
    "level": "Decides: (R1) each gated atom feature (USE deps, USE defaults, slot deps, sub-slots/slot operators, strong blockers, repository ids) is rejected under the EAPI option PMS ties it to; (R2) the statically evaluated option table enables each of 15 features at the PMS EAPI; (R3) the parser's slot / repository / USE-flag character sets equal those of EAPI.valid_slot_regex, the PMS repository-name class and _valid_use_flag; (R4) __str__ reads every attribute equality compares (other than the non-syntactic negate_vers) and emits slot, repository and USE parts in the order the parser strips them, with the =* operator re-rendered around the version. Does NOT decide that the accepted language equals the PMS grammar nor round-trip equality for concrete strings.",
    "note": "PMS facts are frozen tables in the rule module; regex facts come from the stdlib regex parser applied to literal patterns",
}
META["technique"] += "; " + 'delimiter-scan direction and bounded-split rule; data-source analysis of the rendered text'
META["level"] += " Added after the second round of independent changes: " + "(R5) every delimiter search on the atom text is leftmost-first, the slot text is cut at the first '/' only (or longer splits are rejected), and cpvstr — what __str__ renders — is cut from the argument text, never taken back from the parsed CPV."
META["technique"] += "; " + 'generic pack G on the anchored files (optional-flag shift, closures outliving a loop iteration, single-pass iterables consumed twice, %-templates built from data, in-place writes to class-level / memoised objects, generators mutating what they yielded, memo keys that are projections)'

GATES = {
    "has_use_dep_defaults": "USE dependency defaults (+)/(-)",
    "has_slot_deps": "slot dependencies",
    "has_use_deps": "USE dependencies",
    "strong_blockers": "strong blockers",
}
PMS_SLOT_FIRST = set("ABCDEFGHIJKLMNOPQRSTUVWXYZabcdefghijklmnopqrstuvwxyz0123456789_")
PMS_SLOT_BODY = PMS_SLOT_FIRST | set("+.-")
PMS_REPO_FIRST = PMS_SLOT_FIRST
PMS_REPO_BODY = PMS_SLOT_FIRST | set("-")
PMS_USE_FIRST = PMS_SLOT_FIRST - {"_"}
PMS_USE_BODY = PMS_SLOT_FIRST | set("+@-")


def raises_malformed(stmts):
    for s in stmts:
        for n in ast.walk(s):
            if isinstance(n, ast.Raise) and "MalformedAtom" in A.unparse(n):
                return True
    return False


def _role_text(node, roles):
    """unparse with the locals bound in ``roles`` (role name -> current spelling) written by their role name, so that
    tags built from code text do not depend on how a local happens to be spelled"""
    t = A.unparse(node)
    for role, actual in roles.items():
        if actual and actual != role:
            t = re.sub(rf"\b{re.escape(actual)}\b", role, t)
    return t


def _code_strings(fn_node):
    """string constants of a function other than its docstring"""
    doc = fn_node.body[0].value if (fn_node.body and isinstance(fn_node.body[0], ast.Expr) and isinstance(fn_node.body[0].value, ast.Constant)
                                    and isinstance(fn_node.body[0].value.value, str)) else None
    return [n.value for n in ast.walk(fn_node) if isinstance(n, ast.Constant) and isinstance(n.value, str) and n is not doc]


def run(ctx):
    P = ctx.program
    ctx.explanation = META["level"]
    amod = P.module("pkgcore.ebuild.atom")
    init = P.func("pkgcore.ebuild.atom", "atom.__init__")
    atom = P.cls("pkgcore.ebuild.atom", "atom")

    # ---- R1 gates -----------------------------------------------------------
    ifs = [n for n in A.body_walk(init.node) if isinstance(n, ast.If)]
    # the local holding the EAPI object whose options gate the features (bound by how it is produced, not by its name)
    em_ = M.one(init.node, "$eo = eapi_mod.get_eapi($_)")
    ctx.require(em_ is not None, "atom.__init__: the EAPI object (`... = eapi_mod.get_eapi(...)`) not found")
    eo = em_["eo"]
    for opt, what in GATES.items():
        optkey = f"{eo}.options.{opt}"
        cands = []
        for i in ifs:
            keys = [k for k in boolx.atoms(i.test) if k == optkey]
            if keys:
                cands.append((i, keys[0]))
        ok = False
        for i, key in cands:
            atoms_ = boolx.atoms(i.test)
            opt_atoms = [k for k in atoms_ if ".options." in k and k != key]
            free = [k for k in atoms_ if k not in opt_atoms and k != key]
            # with the option off, whatever the other EAPI options are, the feature-use atoms can select the raising arm
            def arm_selectable(want_body):
                for oenv in boolx.assignments(opt_atoms, {key: False}):
                    if not any(boolx.evaluate(i.test, e) == want_body for e in boolx.assignments(free, oenv)):
                        return False
                return True
            if raises_malformed(i.body) and arm_selectable(True):
                ok = True
            if raises_malformed(i.orelse) and boolx.forced_outcome(i.test, {key: False}) is False:
                ok = True
        ctx.check("R1", init, ok, f"gate:{opt}", f"{what}: rejected with MalformedAtom when EAPI option {opt} is off",
                  f"{what} are not (or no longer unconditionally) rejected when the EAPI lacks option {opt}", node=cands[0][0] if cands else init.node)
    # sub-slot / slot-operator parsing only under sub_slotting
    ss = [i for i in ifs if M.pat("$eo.options.sub_slotting").matches(i.test, em_.env)]
    ctx.require(ss, "atom.__init__: no `if eapi_obj.options.sub_slotting` branch")
    g = cfg_of(init.node)
    # the locals by role: the slot operator is what ends up in self.slot_operator; the slot chunks are what the
    # chunk-validation loop (the loop over a local whose body rejects with MalformedAtom) iterates
    som = (M.one(init.node, "self.slot_operator, self.slot, self.subslot = $slot_operator, $slot, $subslot")
           or M.one(init.node, "self.slot_operator = $slot_operator"))
    ctx.require(som is not None, "atom.__init__: the assignment of the parsed slot operator to self.slot_operator not found")
    chunk_loops = [n for n in A.body_walk(init.node) if isinstance(n, ast.For) and isinstance(n.target, ast.Name) and isinstance(n.iter, ast.Name)
                   and raises_malformed(n.body)]
    ctx.require(len(chunk_loops) == 1, "atom.__init__: the slot-chunk validation loop (for <chunk> in <slots>: ... raise MalformedAtom) not found")
    chunk_loop = chunk_loops[0]
    roles = {"slot_operator": som["slot_operator"], "slot": som.env.get("slot"), "slots": chunk_loop.iter.id, "chunk": chunk_loop.target.id}
    gated = []
    for n in A.body_walk(init.node):
        if isinstance(n, ast.Assign) and isinstance(n.targets[0], ast.Name):
            t = n.targets[0].id
            if t == roles["slot_operator"] and not A.is_const(n.value, None):
                gated.append(n)
            if t == roles["slots"] and isinstance(n.value, ast.Call) and A.call_attr(n.value) == "split":
                gated.append(n)
    ctx.require(len(gated) >= 2, "atom.__init__: slot-operator / sub-slot assignments not found")
    for n in gated:
        inside = any(p is ss[0] for p in A.parents(n)) and any(A.contains_node(s, n) for s in ss[0].body)
        ctx.check("R1", init, inside, f"gate:sub_slotting@{_role_text(n, roles)[:30]}", f"`{A.unparse(n)}` happens only under EAPI option sub_slotting", node=n)
    # repository ids only without an EAPI
    repo_if = [i for i in ifs if "self.repo_id is not None" in A.unparse(i.test) and "eapi" in A.unparse(i.test)]
    ctx.require(repo_if, "atom.__init__: repository-id gate not found")
    ri = repo_if[0]
    ok = raises_malformed(ri.body) and boolx.forced_outcome(ri.test, {"eapi == '-1'": False, "self.repo_id is None": False}) is True
    ctx.check("R1", init, ok, "gate:repo_id", "a repository id is rejected whenever an EAPI was given", node=ri)
    # the USE-default gate is evaluated on the flag AFTER its conditional marker (?/=) was stripped
    strip_ifs = [i for i in ifs if isinstance(i.test, ast.Compare) and isinstance(i.test.ops[0], ast.In) and A.try_literal(i.test.comparators[0]) in ("=?", "?=")]
    gate_ifs = [i for i in ifs if f"{eo}.options.has_use_dep_defaults" in boolx.atoms(i.test)]
    ctx.require(strip_ifs and gate_ifs, "atom.__init__: conditional-marker strip or USE-default gate not found")
    doms = g.dominators()
    sn, gn = g.node_of(strip_ifs[0]), g.node_of(gate_ifs[0])
    ctx.check("R1", init, sn in doms.get(gn, ()), "gate-after-marker-strip",
              "the (+)/(-) EAPI gate runs after the trailing ?/= marker was stripped from the flag",
              "the USE-default EAPI gate is evaluated before the ?/= marker is stripped: x(+)? / x(-)= escape the gate in EAPIs without USE defaults", node=gate_ifs[0])
    # what the gate looks at is the stripped flag's last character
    outer = [p for p in A.parents(gate_ifs[0]) if isinstance(p, ast.If)]
    use_loop = A.enclosing(gate_ifs[0], ast.For)
    flag = use_loop.target.id if use_loop is not None and isinstance(use_loop.target, ast.Name) else None
    ctx.check("R1", init, bool(outer) and flag is not None and M.pat("$x[-1] == ')'").matches(outer[0].test, {"x": flag}) is not None, "gate-on-paren",
              "the gate applies to every flag ending in ')'", node=gate_ifs[0])
    ctx.floor("R1", 9)

    # ---- R2 EAPI option table -------------------------------------------------
    T = EapiTables(P)
    for opt, want in sorted(PMS_FIRST_ENABLED.items()):
        got = T.first_enabled(opt)
        ctx.check("R2", T.mod, got == want, f"eapi-table:{opt}", f"option {opt} first enabled in EAPI {want}",
                  f"EAPI option {opt} is first enabled in EAPI {got}, PMS says {want}")
    base = T.options(T.by_magic()["0"])
    for opt in PMS_FIRST_ENABLED:
        ctx.check("R2", T.mod, base.get(opt) is False, f"eapi0:{opt}", f"option {opt} is off in EAPI 0")
    ctx.floor("R2", 30)

    # ---- R3 character sets --------------------------------------------------
    env = module_charsets(amod)
    vsc, vrc = env.get("valid_slot_chars"), env.get("valid_repo_chars")
    ctx.require(isinstance(vsc, set) and isinstance(vrc, set), "atom.py: valid_slot_chars / valid_repo_chars could not be evaluated")
    # leading characters the parser rejects for slot chunks: `if chunk[0] in "<lit>"`
    lead = None
    chunk_env = {"chunk": roles["chunk"]}
    for i in ifs:
        t = i.test
        if (isinstance(t, ast.Compare) and isinstance(t.ops[0], ast.In) and M.pat("$chunk[0]").matches(t.left, chunk_env) and raises_malformed(i.body)
                and A.contains_node(chunk_loop, i)):
            lead = A.try_literal(t.comparators[0])
            lead_node = i
    ctx.require(isinstance(lead, (str, tuple, list, set)), "atom.__init__: leading-character rejection for slot chunks not found")
    first = vsc - set(lead)
    ctx.check("R3", init, vsc == PMS_SLOT_BODY, "slot-body", "slot characters are [A-Za-z0-9+_.-]", node=lead_node)
    ctx.check("R3", init, first == PMS_SLOT_FIRST, "slot-first:" + "".join(sorted(first ^ PMS_SLOT_FIRST)),
              "a slot / sub-slot may start with [A-Za-z0-9_] only",
              f"the atom parser accepts a slot starting with {sorted(first - PMS_SLOT_FIRST)} (PMS and EAPI.valid_slot_regex forbid it; rejected leading set is {sorted(lead)!r})", node=lead_node)
    # the chunk check also enforces the body set
    body_chk = [i for i in ifs if A.contains_node(chunk_loop, i) and M.has(i.test, "valid_slot_chars.issuperset($chunk)", chunk_env) and raises_malformed(i.body)
                and boolx.forced_outcome(i.test, {f"valid_slot_chars.issuperset({roles['chunk']})": False}) is True]
    ctx.check("R3", init, bool(body_chk), "slot-body-enforced", "every slot chunk is checked against valid_slot_chars")
    # sibling: EAPI.valid_slot_regex
    vsr = P.func("pkgcore.ebuild.eapi", "EAPI.valid_slot_regex")
    lits = [s for s in _code_strings(vsr.node) if "[" in s]
    ctx.require(lits, "EAPI.valid_slot_regex: literal pattern not found")
    cls = rx.classes(lits[0])
    ctx.check("R3", vsr, len(cls) >= 2 and cls[0] == PMS_SLOT_FIRST and cls[1] == PMS_SLOT_BODY, "slot-regex", "valid_slot_regex is [A-Za-z0-9_][A-Za-z0-9+_.-]*")
    sib_diff = "".join(sorted((cls[0] ^ first) | (cls[1] ^ vsc))) if len(cls) >= 2 else "?"
    ctx.check("R3", vsr, len(cls) >= 2 and cls[0] == first and cls[1] == vsc, "slot-siblings-agree:" + sib_diff,
              "the atom parser and EAPI.valid_slot_regex accept the same slot characters",
              "atom parser and EAPI.valid_slot_regex disagree on slot characters")
    # repository ids
    # the local that becomes self.repo_id
    rm_ = M.one(init.node, "self.repo_id = $rid")
    ctx.require(rm_ is not None, "atom.__init__: the assignment of the parsed repository id to self.repo_id not found")
    rlead = None
    for i in ifs:
        t = i.test
        if isinstance(t, ast.Compare) and isinstance(t.ops[0], ast.In) and M.pat("$rid[0]").matches(t.left, rm_.env) and raises_malformed(i.body):
            rlead = A.try_literal(t.comparators[0])
    ctx.require(rlead is not None, "atom.__init__: leading-character rejection for repo_id not found")
    ctx.check("R3", init, vrc == PMS_REPO_BODY and (vrc - set(rlead)) == PMS_REPO_FIRST, "repo-chars", "repository ids are [A-Za-z0-9_][A-Za-z0-9_-]*")
    # use flags
    em = P.module("pkgcore.ebuild.eapi")
    uf = em.assigns.get("_valid_use_flag")
    pat = A.try_literal(uf.args[0]) if isinstance(uf, ast.Call) and uf.args else None
    ctx.require(isinstance(pat, str), "eapi._valid_use_flag literal not found")
    ucls = rx.classes(pat)
    ctx.check("R3", em, len(ucls) == 2 and ucls[0] == PMS_USE_FIRST and ucls[1] == PMS_USE_BODY and pat.startswith("^") and pat.endswith("$"),
              "use-flag-regex", "USE flag names are ^[A-Za-z0-9][A-Za-z0-9+_@-]*$", node=uf)
    ctx.check("R3", init, any(M.has(i.test, "$eo.is_valid_use_flag($_)", em_.env) and raises_malformed(i.body) for i in ifs), "use-flag-checked", "every USE dep flag is validated")
    # package / category / version validators
    cm = P.module("pkgcore.ebuild.cpv")
    for name, want_first, want_body in (("isvalid_cat_re", PMS_SLOT_FIRST, PMS_SLOT_BODY),):
        v = cm.assigns.get(name)
        p_ = A.try_literal(v.args[0]) if isinstance(v, ast.Call) and v.args else None
        ctx.require(isinstance(p_, str), f"cpv.{name} literal not found")
        c = rx.classes(p_)
        ctx.check("R3", cm, len(c) == 2 and c[0] == want_first and c[1] == want_body, f"{name}", f"{name} is the PMS category class", node=v)
    v = cm.assigns.get("_pkg_re")
    p_ = A.try_literal(v.args[0]) if isinstance(v, ast.Call) and v.args else None
    ctx.require(isinstance(p_, str), "cpv._pkg_re literal not found")
    c = rx.classes(p_)
    ctx.check("R3", cm, len(c) == 1 and c[0] == PMS_SLOT_FIRST | {"+"}, "_pkg_re", "package name chunks are [A-Za-z0-9+_]+", node=v)
    # package names: the revision-tail rule needs name, version-like chunk and revision: three chunks
    ipn = P.func("pkgcore.ebuild.cpv", "isvalid_pkg_name")
    rev_ifs = [i for i in A.body_walk(ipn.node) if isinstance(i, ast.If) and "isvalid_rev(chunks[-1])" in A.unparse(i.test)]
    ctx.require(rev_ifs, "isvalid_pkg_name: revision-tail test not found")
    ats = boolx.atoms(rev_ifs[0].test)
    ctx.check("R3", ipn, any(a_.replace(" ", "") in ("len(chunks)>=3", "len(chunks)>2") for a_ in ats) and isinstance(rev_ifs[0].test, ast.BoolOp) and isinstance(rev_ifs[0].test.op, ast.And),
              "pkgname-rev-tail-needs-3", "the '<version>-rN' tail rule only applies to names of at least three chunks",
              "isvalid_pkg_name applies the revision-tail rule to two-chunk names: chunks[-2] is then the head of the name itself, so virtual/7z-r1 is rejected", node=rev_ifs[0])
    ver_tail = [i for i in A.body_walk(ipn.node) if isinstance(i, ast.If) and A.unparse(i.test) == "isvalid_version_re.match(chunks[-1])"]
    ctx.check("R3", ipn, bool(ver_tail) and M.has(ipn.node, "if isvalid_version_re.match(chunks[-1]):\n    return False"), "pkgname-version-tail", "a name ending in '-<version>' is rejected")
    ctx.floor("R3", 11)

    # ---- R4 render coverage and order ----------------------------------------
    st = atom.methods.get("__str__")
    ctx.require(st is not None, "atom.__str__ not found")
    ac = A.try_literal(atom.assigns.get("__attr_comparison__"))
    ctx.require(isinstance(ac, tuple), "atom.__attr_comparison__ not literal")
    reads = A.attrs_of(st.node, "self")
    NOT_SYNTAX = {"negate_vers": "negation flag of the version restriction; not part of atom text"}
    for a in ac:
        if a in NOT_SYNTAX:
            continue
        ctx.check("R4", st, a in reads, f"render:{a}", f"__str__ renders compared attribute {a!r}",
                  f"atom.__str__ never reads {a!r}: an accepted atom loses that constraint when rendered")
    ctx.check("R4", st, "blocks_strongly" in reads, "render:blocks_strongly", "__str__ distinguishes strong from weak blockers")
    # order of emission: slot part, then ::repo, then [use]
    first_line = {}
    for n in A.body_walk(st.node):
        if isinstance(n, (ast.AugAssign, ast.Assign)):
            for a in A.attrs_of(n, "self"):
                first_line.setdefault(a, n.lineno)
    for a in ("slot", "repo_id", "use"):
        ctx.require(a in first_line, f"atom.__str__: no emission statement reads {a}")
    ctx.check("R4", st, first_line["slot"] < first_line["repo_id"] < first_line["use"], "render-order",
              "__str__ emits :slot before ::repo before [use] (the order the parser strips them)")
    # separators
    txt = " ".join(_code_strings(st.node))
    for sep in (":", "::", "/", "[", "]", "!"):
        ctx.check("R4", st, sep in txt, f"render-sep:{sep}", f"__str__ emits the {sep!r} delimiter")
    # an emission may be suppressed by the ABSENCE of another attribute only where the grammar says so
    NEG_OK = {("slot_operator", "slot"): "':=' / ':*' are written without a slot", ("blocks", "blocks_strongly"): "weak blocker '!' is the else of '!!'",
              ("cpvstr", "op"): "plain form is the else of the =* form", ("op", "op"): "same attribute"}
    for n in A.body_walk(st.node):
        if not isinstance(n, (ast.AugAssign, ast.Assign)):
            continue
        emitted = A.attrs_of(n.value, "self")
        if not emitted:
            continue
        child = n
        for par in A.parents(n):
            if par is st.node:
                break
            if isinstance(par, ast.If) and any(child is x or A.contains_node(x, child) for x in par.orelse):
                for neg_attr in A.attrs_of(par.test, "self"):
                    for e in emitted:
                        ok = e == neg_attr or (e, neg_attr) in NEG_OK
                        ctx.check("R4", st, ok, f"render-suppressed:{e}-by-{neg_attr}",
                                  f"emission of {e!r} under `not ({A.unparse(par.test)})` is allowed by the grammar",
                                  f"atom.__str__ only renders {e!r} when {neg_attr!r} is absent (`{A.unparse(n)}` sits in the else of `{A.unparse(par.test)}`): an atom with both loses {e!r} on a round trip", node=n)
            child = par
    glob_if = [n for n in A.body_walk(st.node) if isinstance(n, ast.If) and A.unparse(n.test) == "self.op == '=*'"]
    ok = False
    if glob_if:
        js = [x for s_ in glob_if[0].body for x in ast.walk(s_) if isinstance(x, ast.JoinedStr)]
        if js:
            parts = js[0].values
            ok = (isinstance(parts[0], ast.Constant) and parts[0].value == "=" and isinstance(parts[-1], ast.Constant) and parts[-1].value == "*"
                  and any(isinstance(v, ast.FormattedValue) and A.unparse(v.value) == "self.cpvstr" for v in parts[1:-1]))
    ctx.check("R4", st, ok, "render-glob", "the =* operator is rendered as '=' + cpvstr + '*'")
    # parser strips in the matching order: '[' use first (from the right), then '::', then ':'
    ctx.floor("R4", 16)

    # ---- R5 left-to-right scanning, bounded split, rendered text = parsed text -------------------------------------
    from ..core import effects
    fx = effects.engine(P).fx(init)
    text = init.params()[1]  # the atom text parameter (first after self)
    RIGHTMOST = {"rfind", "rindex", "rsplit", "rpartition"}
    LEFTMOST = {"find", "index", "split", "partition"}
    n_scan = 0
    for c in A.calls(init.node):
        if not (isinstance(c.func, ast.Attribute) and c.func.attr in RIGHTMOST | LEFTMOST and c.args and isinstance(A.const(c.args[0]), str)):
            continue
        if "param:" + text not in fx.sources(c.func.value, c):
            continue
        delim = A.const(c.args[0])
        if delim in (",",):
            continue  # the USE list is a set of tokens, order-free
        n_scan += 1
        ctx.check("R5", init, c.func.attr in LEFTMOST, f"scan-direction:{delim}",
                  f"the {delim!r} delimiter is located scanning left to right",
                  f"the {delim!r} delimiter is located with .{c.func.attr}() (rightmost occurrence): a second occurrence further right is taken as the "
                  f"delimiter and the text before it is accepted unchecked (e.g. 'cat/pkg:::repo' parses as cat/pkg::repo)", node=c)
        if c.func.attr == "split" and delim == "/":
            bounded = len(c.args) >= 2 and A.const(c.args[1]) == 1 or any(k.arg == "maxsplit" and A.const(k.value) == 1 for k in c.keywords)
            tgt = getattr(c, "_parent", None)
            tname = tgt.targets[0].id if isinstance(tgt, ast.Assign) and isinstance(tgt.targets[0], ast.Name) else None
            len_guard = tname is not None and any(
                isinstance(i, ast.If) and raises_malformed(i.body) and any(isinstance(x, ast.Call) and isinstance(x.func, ast.Name) and x.func.id == "len" and x.args
                                                                           and isinstance(x.args[0], ast.Name) and x.args[0].id == tname for x in ast.walk(i.test))
                and any(isinstance(o, (ast.Gt, ast.GtE, ast.NotEq, ast.NotIn)) for cmp_ in ast.walk(i.test) if isinstance(cmp_, ast.Compare) for o in cmp_.ops)
                for i in A.body_walk(init.node))
            ctx.check("R5", init, bounded or len_guard, "slot-split-bounded",
                      "slot/sub-slot text is cut at the first '/' only (any further '/' then fails the character check)",
                      "the slot text is split on every '/': with two or more separators all pieces pass the per-piece check, the two-piece unpack is skipped "
                      "and 'a/b/c' is kept as a slot name (cat/pkg:0/1/2 accepted)", node=c)
    ctx.require(n_scan >= 4, f"atom.__init__: only {n_scan} delimiter searches on the atom text found")
    # the text rendered by __str__ (cpvstr) is a cut of the argument, never a re-spelling obtained from the parsed CPV
    cp_stores = [(v, st) for t, v, st in A.assignments(init.node) if A.self_attr(t, fx.selfname) == "cpvstr"]
    for c in A.calls(init.node):
        if (dotted(c.func) or "") in ("sf", "object.__setattr__") and len(c.args) == 3 and A.const(c.args[1]) == "cpvstr":
            cp_stores.append((c.args[2], c))
    ctx.require(cp_stores, "atom.__init__: no store to cpvstr")
    for v, st in cp_stores:
        srcs = fx.sources(v, st)
        foreign = sorted(t for t in srcs if t.startswith("self:"))
        ctx.check("R5", init, "param:" + text in srcs and not foreign, "cpvstr-is-input-text:" + ",".join(foreign),
                  "cpvstr (rendered by __str__) is cut from the argument text",
                  f"atom.cpvstr is taken from {foreign or sorted(srcs)} instead of the argument text: the parsed CPV re-spells revisions (-r0 dropped, -r01 -> -r1) "
                  f"while =* matching uses the raw fullver, so the rendered atom re-parses to one that matches a different set", node=st)
    ctx.floor("R5", 6)


MUTANTS = [
    {"name": "drop-use-default-gate", "file": "src/pkgcore/ebuild/atom.py", "old": "                        if not eapi_obj.options.has_use_dep_defaults:", "new": "                        if not eapi_obj.options.has_use_deps:", "rule": "R1"},
    {"name": "repo-id-gate-inverted", "file": "src/pkgcore/ebuild/atom.py", "old": '        if eapi != "-1" and self.repo_id is not None:', "new": '        if eapi == "-1" and self.repo_id is not None:', "rule": "R1"},
    {"name": "eapi-table-subslot-early", "file": "src/pkgcore/ebuild/eapi.py", "old": '            "has_use_dep_defaults": True,\n', "new": '            "has_use_dep_defaults": True,\n            "sub_slotting": True,\n', "rule": "R2"},
    {"name": "slot-chars-add-colon", "file": "src/pkgcore/ebuild/atom.py", "old": 'valid_slot_chars.update(".+_-")', "new": 'valid_slot_chars.update(".+_-@")', "rule": "R3"},
    {"name": "str-drops-slot-operator", "file": "src/pkgcore/ebuild/atom.py", "old": '            if self.slot_operator == "=":\n                s += self.slot_operator\n        elif self.slot_operator:\n            s += f":{self.slot_operator}"\n', "new": "", "rule": "R4"},
    {"name": "str-use-before-repo", "file": "src/pkgcore/ebuild/atom.py", "old": '        if self.repo_id:\n            s += f"::{self.repo_id}"\n        if self.use:\n            use = ",".join(self.use)\n            s += f"[{use}]"\n', "new": '        if self.use:\n            use = ",".join(self.use)\n            s += f"[{use}]"\n        if self.repo_id:\n            s += f"::{self.repo_id}"\n', "rule": "R4"},
    {"name": "strong-blocker-gate-dropped", "file": "src/pkgcore/ebuild/atom.py", "old": "                if not eapi_obj.options.strong_blockers:", "new": "                if not eapi_obj.options.strong_blockers and eapi_obj.options.has_slot_deps is None:", "rule": "R1"},
]
TWINS = []
