"""C17 — planner rollback restores the exact earlier state (structural clauses)."""
import ast
from collections import Counter

from ..core import astutil as A
from ..core import match as M
from ..core.model import dotted

META = {
    "technique": "effect extraction: primitive effects of every planner op's apply() (success path) and revert() on plan state are normalised (aliases recorded by apply resolved) and compared under an inverse table; ordering rules for effects whose keys may alias and for reference-counted limiter guards; shape rule for plan_state.backtrack",
    "level": "Decides: (R1) for each of the seven planner ops the multiset of primitive state effects of revert() is exactly the inverse of apply()'s success-path effects (slot fill<->remove, choice bind<->unbind, vdb exclusion add<->remove, forced restriction add<->remove, blocker refcount add<->remove, reverse-blocker append<->remove, limiter add<->remove), on the same operands; (R2) every apply() appends itself to the plan exactly once on its success path and a failing replace backs out before returning; (R3) backtrack reverts the suffix in reverse order and prunes exactly the number of reversions that completed; (R4) re-insertions done by a revert are forced where the original insertion could not have been refused, a limiter is added/removed exactly when the op's own reference is not counted, and an unbind precedes the rebind of a possibly equal key. Does NOT decide state equality for concrete histories.",
    "note": "PigeonHoledSlots / RefCountingSet primitives are opaque; nested ops spawned by apply (blocker decrefs) are separate plan entries reverted on their own",
}
META["technique"] += "; " + 'path-sensitive effect cancellation on refusing returns; counted-reference construction rule'
META["level"] += " Added after the second round of independent changes: " + '(R2) every refusing return of an apply() (before the op is in the plan) leaves no net effect; (R5) forced_restrictions and blockers_refcnt are reference-counting sets.'
META["technique"] += "; identity-filter rule on the slot / limiter table primitives"
META["level"] += " (R6) PigeonHoledSlots.remove_slotting / remove_limiter write back the looked-up list minus the very object given (identity, not equality or slot)."
META["technique"] += "; " + 'generic pack G on the anchored files (optional-flag shift, closures outliving a loop iteration, single-pass iterables consumed twice, %-templates built from data, in-place writes to class-level / memoised objects, generators mutating what they yielded, memo keys that are projections)'

MOD = "pkgcore.resolver.state"
INVERSE = {"slot+": "slot-", "slot-": "slot+", "choice+": "choice-", "choice-": "choice+", "vdb+": "vdb-", "vdb-": "vdb+", "forced+": "forced-", "forced-": "forced+",
           "ref+": "ref-", "ref-": "ref+", "rev+": "rev-", "rev-": "rev+", "lim+": "lim-", "lim-": "lim+"}


def effects(fn, me="self", plan="plan"):
    """[(kind, operands tuple, node)] in source order, plus alias map local -> self.attr"""
    alias = {}
    locals_of = {}
    for t, v, st in A.assignments(fn.node):
        a = A.self_attr(t, me)
        if a and isinstance(v, ast.Name):
            alias[v.id] = f"{me}.{a}"
        if isinstance(t, ast.Name):
            locals_of[t.id] = v

    def norm(e):
        txt = A.unparse(e)
        if isinstance(e, ast.Name) and e.id in alias:
            return alias[e.id]
        return txt

    out = []
    for n in A.body_walk(fn.node):
        if isinstance(n, ast.Call):
            f = A.unparse(n.func)
            args = tuple(norm(a) for a in n.args)
            if f == f"{plan}.state.fill_slotting":
                out.append(("slot+", args[:1], n))
            elif f == f"{plan}.state.remove_slotting":
                out.append(("slot-", args[:1], n))
            elif f == f"{plan}.vdb_filter.add":
                out.append(("vdb+", args, n))
            elif f == f"{plan}.vdb_filter.remove":
                out.append(("vdb-", args, n))
            elif f == f"{plan}.forced_restrictions.add":
                out.append(("forced+", args, n))
            elif f == f"{plan}.forced_restrictions.remove":
                out.append(("forced-", args, n))
            elif f == f"{plan}.blockers_refcnt.add":
                out.append(("ref+", args, n))
            elif f == f"{plan}.blockers_refcnt.remove":
                out.append(("ref-", args, n))
            elif f == f"{plan}.state.add_limiter":
                out.append(("lim+", args, n))
            elif f == f"{plan}.state.remove_limiter":
                out.append(("lim-", args, n))
            elif f == f"{plan}.plan.append":
                out.append(("plan+", args, n))
            elif f == f"{plan}.backtrack":
                out.append(("backtrack", args, n))
            elif f == f"{plan}._remove_pkg_blockers":
                out.append(("nested", args, n))
            elif isinstance(n.func, ast.Attribute) and n.func.attr in ("append", "remove"):
                base = n.func.value
                key = None
                if isinstance(base, ast.Call) and A.unparse(base.func) == f"{plan}.rev_blockers.setdefault":
                    key = norm(base.args[0])
                elif isinstance(base, ast.Subscript) and A.unparse(base.value) == f"{plan}.rev_blockers":
                    key = norm(base.slice)
                elif isinstance(base, ast.Name) and base.id in locals_of:
                    v = locals_of[base.id]
                    if isinstance(v, ast.Subscript) and A.unparse(v.value) == f"{plan}.rev_blockers":
                        key = norm(v.slice)
                if key is not None:
                    out.append(("rev+" if n.func.attr == "append" else "rev-", (key,) + args, n))
        elif isinstance(n, ast.Assign):
            for t in n.targets:
                if isinstance(t, ast.Subscript) and A.unparse(t.value) == f"{plan}.pkg_choices":
                    out.append(("choice+", (norm(t.slice),), n))
        elif isinstance(n, ast.Delete):
            for t in n.targets:
                if isinstance(t, ast.Subscript) and A.unparse(t.value) == f"{plan}.pkg_choices":
                    out.append(("choice-", (norm(t.slice),), n))
    out.sort(key=lambda e: (e[2].lineno, e[2].col_offset))
    return out, alias


def on_failure_path(fn, node):
    """inside an `if l:`-style block that returns a non-None value (a top-level `return <non-None>` of the block)"""
    for p in A.parents(node):
        if p is fn.node:
            break
        if isinstance(p, ast.If) and any(isinstance(s, ast.Return) and s.value is not None for s in p.body) and any(A.contains_node(s, node) for s in p.body):
            return True
    return False


OPS = ["add_op", "add_hardref_op", "add_backref_op", "remove_op", "replace_op", "incref_forward_block_op", "decref_forward_block_op"]


def run(ctx):
    P = ctx.program
    ctx.explanation = META["level"]
    for op in OPS:
        K = P.cls(MOD, op)
        ap, rv = K.methods.get("apply"), K.methods.get("revert")
        ctx.require(ap is not None and rv is not None, f"{op}: apply/revert not found")
        pa, pr = ap.params()[1], rv.params()[1]
        ea, alias = effects(ap, plan=pa)
        er, _ = effects(rv, plan=pr)
        def guards(fn, n, plan):
            return tuple(sorted(t.replace(plan + ".", "PLAN.") for t in M.path_conditions(n, fn.node)))
        ga = {(INVERSE[k], tuple(x.replace(pa + ".", pr + ".") for x in a)): guards(ap, n, pa) for k, a, n in ea if k in INVERSE and not on_failure_path(ap, n)}
        gr = {(k, a): guards(rv, n, pr) for k, a, n in er if k in INVERSE}
        for key in sorted(set(ga) & set(gr)):
            ctx.check("R1", rv, ga[key] == gr[key], f"guard-mismatch:{key[0]}{key[1]}", f"{op}: effect {key[0]}{key[1]} is conditional on the same predicate in apply and revert ({ga[key] or 'unconditional'})",
                      f"{op}: apply performs `{INVERSE[key[0]]}{key[1]}` under {ga[key] or 'no condition'} but revert undoes it under {gr[key] or 'no condition'}: when the condition is false one direction happens without the other (e.g. a blocker's reference count is not taken but later released)", node=rv.node)
        succ = [(k, a) for k, a, n in ea if not on_failure_path(ap, n) and k in INVERSE]
        # the transient remove/refill of the old package on replace_op's failure path is excluded above
        want = Counter((INVERSE[k], tuple(x.replace(pa + ".", pr + ".") for x in a)) for k, a in succ)
        got = Counter((k, a) for k, a, n in er if k in INVERSE)
        missing = want - got
        extra = got - want
        ctx.ob("R1", K, f"{op}: revert effects {sorted(got)} are the inverse of apply effects {sorted(Counter(succ))}")
        for (k, a), c_ in sorted(missing.items()):
            ctx.fail("R1", rv, f"revert-misses:{k}{a}", f"{op}.apply performs `{INVERSE[k]}{a}` but {op}.revert never undoes it (no `{k}{a}`): after a rollback the planner state differs from never having applied the op", node=rv.node)
        for (k, a), c_ in sorted(extra.items()):
            ctx.fail("R1", rv, f"revert-extra:{k}{a}", f"{op}.revert performs `{k}{a}` which is not the inverse of anything {op}.apply did", node=rv.node)
        # ---- R2 plan append -------------------------------------------------------
        appends = [(k, a, n) for k, a, n in ea if k == "plan+"]
        ok = len(appends) == 1 and appends[0][1] == ("self",) and not on_failure_path(ap, appends[0][2])
        ctx.check("R2", ap, ok, "appends-self-once", f"{op}.apply appends itself to the plan exactly once on its success path", node=ap.node)
    ctx.floor("R1", 7)
    # failing replace backs out: the refusal path restores the old package and backtracks before returning
    rp = P.func(MOD, "replace_op.apply")
    pl = rp.params()[1]
    ea, _ = effects(rp, plan=pl)
    fail = [(k, a) for k, a, n in ea if on_failure_path(rp, n)]
    # the revert point is found by its role (the local that receives plan.current_state), not by its spelling
    rpm = sorted(M.find(rp.node, f"$rp = {pl}.current_state"), key=lambda m: m.node.lineno)
    rpv = rpm[0]["rp"] if rpm else None
    ctx.check("R2", rp, rpv is not None and ("backtrack", (rpv,)) in fail and any(k == "slot+" for k, a in fail), "replace-failure-backs-out",
              "a refused replacement re-inserts the old package and backtracks to the op's starting point before returning the conflict", f"replace_op.apply failure path effects: {fail}")
    # taken unconditionally, and nothing before it touches the plan or the op (inserted logging / no-op statements do not count)
    first = False
    if rpm:
        st = rpm[0].node
        early = [k for k, a, n in ea if n.lineno < st.lineno]
        early += [A.unparse(c.func) for s_ in rp.node.body if s_.lineno < st.lineno for c in A.calls(s_) if A.unparse(c.func).split(".")[0] in (pl, "self")]
        first = st in rp.node.body and not early and len(A.assignments(rp.node, rpv)) == 1
    ctx.check("R2", rp, first, "revert-point-first", "the revert point is taken before the first mutation")
    # every refusing return of an apply() leaves no net effect behind: what was done before the refusal is undone on that path
    from ..core.cfg import cfg_of
    n_fail = 0
    for op in OPS:
        ap = P.cls(MOD, op).methods["apply"]
        pl_ = ap.params()[1]
        ea_, _ = effects(ap, plan=pl_)
        g = cfg_of(ap.node)
        for r in A.returns(ap.node):
            if r.value is None or (isinstance(r.value, ast.Constant) and r.value.value in (None, True)):
                continue
            rn = g.node_of(r)
            if any(k == "plan+" and (g.node_of(n) is rn or rn in g.reach([g.node_of(n)])) for k, a, n in ea_):
                continue  # the op is in the plan on this path: a rollback reverts it like any applied op
            n_fail += 1
            tested = set()
            for p_ in A.parents(r):
                if isinstance(p_, ast.If):
                    tested |= {n.id for n in ast.walk(p_.test) if isinstance(n, ast.Name)}
            on_path = []
            for k, a, n in ea_:
                if k not in INVERSE:
                    continue
                cn = g.node_of(n)
                if cn is None or not (cn is rn or rn in g.reach([cn])):
                    continue
                st_ = A.stmt_of(n)
                if isinstance(st_, ast.Assign) and any(isinstance(t, ast.Name) and t.id in tested for t in st_.targets):
                    continue  # the attempt whose refusal defines this path: it did not happen
                on_path.append((k, a))
            cnt = Counter(on_path)
            for (k, a), c_ in sorted(cnt.items()):
                ctx.check("R2", ap, cnt.get((INVERSE[k], a), 0) == c_, f"refusal-leaves:{k}{a}",
                          f"{op}.apply: `{k}{a}` before the refusing `{A.unparse(r)}` is undone on that path",
                          f"{op}.apply performs `{k}{a}` on the way to the refusing `{A.unparse(r)}` (line {r.lineno}) and never undoes it there: a refused op leaves "
                          f"the planner state changed although nothing was added to the plan, and no later rollback can restore it", node=r)
    ctx.require(n_fail >= 1, "no refusing return found in any op's apply()")
    ctx.floor("R2", 10)

    # ---- R3 backtrack ---------------------------------------------------------------------
    bt = P.func(MOD, "plan_state.backtrack")
    loops = [n for n in A.body_walk(bt.node) if isinstance(n, ast.For)]
    ctx.require(len(loops) == 1, "plan_state.backtrack: revert loop not found")
    lp = loops[0]
    it = lp.iter
    enum = isinstance(it, ast.Call) and dotted(it.func) == "enumerate"
    inner = it.args[0] if enum else it
    ok_iter = isinstance(inner, ast.Call) and dotted(inner.func) == "reversed" and A.unparse(inner.args[0]) == f"self.plan[{bt.params()[1]}:]"
    ctx.check("R3", bt, ok_iter, "reverse-suffix", "backtrack reverts self.plan[pos:] in reverse order", f"backtrack iterates `{A.unparse(it)}`", node=lp)
    rev_calls = [c for c in A.calls(lp) if A.call_attr(c) == "revert"]
    ctx.check("R3", bt, len(rev_calls) == 1 and A.unparse(rev_calls[0].args[0]) == "self", "reverts-each", "every op of the suffix is reverted against this state", node=lp)
    if enum:
        start = A.try_literal(it.args[1]) if len(it.args) > 1 else next((A.try_literal(k.value) for k in it.keywords if k.arg == "start"), 0)
        counter = A.unparse(lp.target.elts[0]) if isinstance(lp.target, ast.Tuple) else None
        # counter == number of COMPLETED reversions while the loop body runs  => enumerate from 0 and +1 after the loop
        after = [n for n in A.body_walk(bt.node) if isinstance(n, ast.AugAssign) and A.unparse(n.target) == counter and isinstance(n.op, ast.Add) and A.is_const(n.value, 1) and n.lineno > lp.end_lineno]
        ctx.check("R3", bt, start == 0 and len(after) == 1, "counts-completed",
                  "the reversion counter equals the number of completed reversions when a revert raises (enumerate from 0, +1 after the loop)",
                  f"backtrack counts reversions with enumerate(start={start}) and {len(after)} post-loop increment(s): if a revert raises, the plan is pruned by one op too many or too few", node=lp)
        fin = [n for n in A.body_walk(bt.node) if isinstance(n, ast.Try) and n.finalbody]
        prune = [A.unparse(s) for t in fin for s in ast.walk(ast.Module(body=t.finalbody, type_ignores=[])) if isinstance(s, ast.Assign)]
        ctx.check("R3", bt, any(p == f"self.plan = self.plan[:-{counter}]" for p in prune), "prunes-by-count", "the plan is pruned by exactly the counted reversions, also when a revert raised", f"finally-block assignments: {prune}")
    else:
        ctx.require(False, "plan_state.backtrack: counting idiom not understood")
    ctx.floor("R3", 4)

    # ---- R4 forced re-insertion, guards, ordering ---------------------------------------------
    def kw_of(call, name):
        return next((A.unparse(k.value) for k in call.keywords if k.arg == name), None)

    rm = P.func(MOD, "remove_op.revert")
    fs = [c for c in A.calls(rm.node) if A.call_attr(c) == "fill_slotting"]
    ctx.check("R4", rm, len(fs) == 1 and kw_of(fs[0], "force") == "True", "remove-revert-forced",
              "putting a removed package back is forced (it was there before the removal; limiters added since must not refuse it)",
              f"remove_op.revert re-inserts with force={kw_of(fs[0], 'force') if fs else None}: when a blocker was added after the package, the rollback leaves it out of its slot", node=fs[0] if fs else rm.node)
    rr = P.func(MOD, "replace_op.revert")
    fs = [c for c in A.calls(rr.node) if A.call_attr(c) == "fill_slotting"]
    ctx.check("R4", rr, len(fs) == 1 and kw_of(fs[0], "force") == "self.force_old", "replace-revert-force-old", "the replaced package is re-inserted with the force flag recorded for it at apply time", node=fs[0] if fs else rr.node)
    rpa = P.func(MOD, "replace_op.apply")
    pla = rpa.params()[1]
    # force_old = bool(check_limiters(<the displaced package>)), recorded on the op; locals are bound by role
    fo = M.find(rpa.node, f"$fo = bool({pla}.state.check_limiters($old))\nself.force_old = $fo")
    fo_ok = len(fo) == 1 and len(A.assignments(rpa.node, fo[0]["fo"])) == 1
    if not fo:
        fo = M.find(rpa.node, f"self.force_old = bool({pla}.state.check_limiters($old))")
        fo_ok = len(fo) == 1
    fo_ok = fo_ok and M.has(rpa.node, f"{pla}.state.remove_slotting($old)", fo[0].env) and len([1 for t, v, _ in A.assignments(rpa.node) if A.self_attr(t, "self") == "force_old"]) == 1
    ctx.check("R4", rpa, fo_ok, "force-old-recorded", "force_old records whether the old package conflicted with limiters when it was displaced")
    # unbind before rebind (keys of old and new package may be equal)
    for f in (rr, rpa):
        ef, _ = effects(f, plan=f.params()[1])
        seq = [(k, n.lineno) for k, a, n in ef if k in ("choice+", "choice-") and not on_failure_path(f, n)]
        ok = [k for k, _ in seq] == ["choice-", "choice+"]
        ctx.check("R4", f, ok, "unbind-before-rebind", f"{f.qual} unbinds one package's choice before binding the other (the two keys may compare equal)",
                  f"{f.qual} orders its pkg_choices updates as {[k for k, _ in seq]}: when the old and new package are equal keys the surviving binding is deleted", node=f.node)
    # limiter guards: evaluated while the op's own reference is not counted
    for q, first, second in (("incref_forward_block_op.apply", "lim+", "ref+"), ("incref_forward_block_op.revert", "ref-", "lim-"),
                             ("decref_forward_block_op.apply", "ref-", "lim-"), ("decref_forward_block_op.revert", "lim+", "ref+")):
        f = P.func(MOD, q)
        ef, _ = effects(f, plan=f.params()[1])
        order = [k for k, a, n in ef if k in (first, second)]
        lim = [n for k, a, n in ef if k.startswith("lim")]
        guarded = bool(lim) and f"self.blocker not in {f.params()[1]}.blockers_refcnt" in M.path_conditions(lim[0], f.node)
        ctx.check("R4", f, order == [first, second] and guarded, "limiter-guard", f"{q}: `{first}` then `{second}`, the limiter change guarded by `blocker not in refcnt`",
                  f"{q}: effect order {order}, guarded={guarded}: the limiter is (un)registered on the wrong reference count", node=f.node)
    # sibling rule: an insertion made with force=self.force only failed when it was not forced
    from ..core import boolx
    for opn in ("add_op", "replace_op"):
        f = P.func(MOD, f"{opn}.apply")
        for t, v, st in A.assignments(f.node):
            if isinstance(v, ast.Call) and A.call_attr(v) == "fill_slotting" and kw_of(v, "force") == "self.force" and isinstance(t, ast.Name):
                tests = [n for n in A.body_walk(f.node) if isinstance(n, ast.If) and t.id in A.names_in(n.test) and n.lineno > st.lineno]
                ctx.require(tests, f"{opn}.apply: conflict test of `{t.id}` not found")
                forced_false = boolx.forced_outcome(tests[0].test, {"self.force": True}, ()) is False
                ctx.check("R4", f, forced_false, "forced-insert-not-a-failure",
                          f"{opn}.apply does not treat the conflicts of a forced insertion as a refusal",
                          f"{opn}.apply inserts with force=self.force but treats any reported conflict as failure (`if {A.unparse(tests[0].test)}`): with force=True the package was inserted anyway and the failure path leaves it slotted next to the old one (latent: nothing constructs {opn}(force=True) today)", node=tests[0])
    ctx.floor("R4", 11)

    # ---- R5 references that several ops can hold at once are counted ------------------------------------------------
    psi = P.func(MOD, "plan_state.__init__")
    COUNTED = {"forced_restrictions": "the same restriction can be hard-referenced by several add_atoms rounds; reverting one must keep the others' reference",
               "blockers_refcnt": "several packages can carry the same blocker; the limiter may only go when the last one releases it"}
    for attr, why in COUNTED.items():
        vals = [v for t, v, _ in A.assignments(psi.node) if A.self_attr(t) == attr]
        ok = bool(vals) and all(isinstance(v, ast.Call) and (dotted(v.func) or "").split(".")[-1] == "RefCountingSet" for v in vals)
        ctx.check("R5", psi, ok, f"counted:{attr}", f"plan_state.{attr} counts references (RefCountingSet): {why}",
                  f"plan_state.{attr} is built as `{A.unparse(vals[0]) if vals else '?'}`, not a reference-counting set, while ops add / remove it once per op: {why}")
    ctx.floor("R5", 2)

    # ---- R6 the table primitives the ops are built on remove exactly the object they were given -------------------------------
    slot_primitive_exact(ctx, "R6")
    ctx.floor("R6", 4)


def slot_primitive_exact(ctx, rule):
    """remove_slotting / remove_limiter: what is written back is the previous list minus the argument *object* — packages compare
    by category/package/version only (two repositories' copies are equal) and atoms by value, so any looser predicate also drops
    entries another op put there, and a rollback no longer restores them."""
    P = ctx.program
    for meth in ("remove_slotting", "remove_limiter"):
        fn = P.func("pkgcore.resolver.pigeonholes", f"PigeonHoledSlots.{meth}")
        obj = fn.params()[1]
        comps = [n for n in A.body_walk(fn.node) if isinstance(n, ast.ListComp) and len(n.generators) == 1 and isinstance(n.generators[0].target, ast.Name)
                 and isinstance(n.elt, ast.Name) and n.elt.id == n.generators[0].target.id]
        stored = [n for n in A.body_walk(fn.node) if isinstance(n, ast.Assign) and any(isinstance(t, ast.Subscript) and isinstance(t.value, ast.Attribute) for t in n.targets)]
        ctx.require(len(comps) == 1 and stored, f"{meth}: the filtered copy of the table entry / its store were not found")
        c = comps[0]; x = c.generators[0].target.id
        tests = c.generators[0].ifs
        ok = len(tests) == 1 and M.pat(f"{x} is not {obj}").matches(tests[0]) is not None
        ctx.check(rule, fn, ok, f"{meth}:identity-filter", f"{meth} keeps every entry except the very object `{obj}` it was given",
                  f"PigeonHoledSlots.{meth} filters the table entry with `{' and '.join(A.unparse(t) for t in tests) or '<nothing>'}` instead of `{x} is not {obj}`: entries that merely compare equal to / share a slot with the argument are dropped as well, so reverting one planner op silently removes another op's entry and rollback no longer restores the earlier state", node=c)
        kept = c and [t for st in stored for t in [st.value] if isinstance(t, ast.Name)]
        lhs = [st for st in A.body_walk(fn.node) if isinstance(st, ast.Assign) and st.value is c]
        nm = lhs[0].targets[0].id if lhs and isinstance(lhs[0].targets[0], ast.Name) else None
        ctx.check(rule, fn, nm is not None and any(isinstance(st.value, ast.Name) and st.value.id == nm for st in stored), f"{meth}:stores-filtered-copy", f"{meth} writes the filtered copy back to the table")


MUTANTS = [
    {"name": "refcount-only-first", "file": "src/pkgcore/resolver/state.py", "old": "            l = plan.state.add_limiter(self.blocker, self.key)\n        else:\n            l = []\n        plan.rev_blockers.setdefault(self.choices, []).append((self.blocker, self.key))\n        plan.blockers_refcnt.add(self.blocker)\n        return l", "new": "            l = plan.state.add_limiter(self.blocker, self.key)\n            plan.blockers_refcnt.add(self.blocker)\n        else:\n            l = []\n        plan.rev_blockers.setdefault(self.choices, []).append((self.blocker, self.key))\n        return l", "rule": "R1"},
    {"name": "remove-revert-forgets-vdb", "file": "src/pkgcore/resolver/state.py", "old": "        plan.pkg_choices[self.pkg] = self.choices\n        plan.vdb_filter.remove(self.pkg)\n", "new": "        plan.pkg_choices[self.pkg] = self.choices\n", "rule": "R1"},
    {"name": "replace-revert-wrong-pkg", "file": "src/pkgcore/resolver/state.py", "old": "        plan.vdb_filter.remove(self.old_pkg)\n", "new": "        plan.vdb_filter.remove(self.pkg)\n", "rule": "R1"},
    {"name": "backtrack-enumerate-from-1", "file": "src/pkgcore/resolver/state.py", "old": "            for reversion_count, change in enumerate(reversed(self.plan[state_pos:])):\n                change.revert(self)\n            reversion_count += 1\n", "new": "            for reversion_count, change in enumerate(reversed(self.plan[state_pos:]), 1):\n                change.revert(self)\n", "rule": "R3"},
    {"name": "remove-revert-unforced", "file": "src/pkgcore/resolver/state.py", "old": "        plan.state.fill_slotting(self.pkg, force=True)", "new": "        plan.state.fill_slotting(self.pkg, force=self.force)", "rule": "R4"},
    {"name": "replace-revert-rebind-first", "file": "src/pkgcore/resolver/state.py", "old": "        del plan.pkg_choices[self.pkg]\n        plan.pkg_choices[self.old_pkg] = self.old_choices\n", "new": "        plan.pkg_choices[self.old_pkg] = self.old_choices\n        del plan.pkg_choices[self.pkg]\n", "rule": "R4"},
    {"name": "incref-revert-limiter-before-decref", "file": "src/pkgcore/resolver/state.py", "old": "        plan.blockers_refcnt.remove(self.blocker)\n        if self.blocker not in plan.blockers_refcnt:\n            plan.state.remove_limiter(self.blocker, self.key)\n\n\nclass decref", "new": "        if self.blocker not in plan.blockers_refcnt:\n            plan.state.remove_limiter(self.blocker, self.key)\n        plan.blockers_refcnt.remove(self.blocker)\n\n\nclass decref", "rule": "R4"},
    {"name": "backtrack-forward-order", "file": "src/pkgcore/resolver/state.py", "old": "enumerate(reversed(self.plan[state_pos:]))", "new": "enumerate(self.plan[state_pos:])", "rule": "R3"},
    {"name": "hardref-revert-noop", "file": "src/pkgcore/resolver/state.py", "old": "        plan.forced_restrictions.remove(self.restriction)", "new": "        pass", "rule": "R1"},
]
TWINS = []
