"""C32 — every IPC helper request gets exactly one truthful reply."""
import ast

from ..core import astutil as A
from ..core import bashlex as B
from ..core import cfg as CFG
from ..core import match as M
from ..core.model import dotted

META = {
    "technique": "request-frame agreement (fields written by __ebd_ipc_cmd vs read by IpcCommand.__call__), exactly-one-reply path rule + who-may-write rule, single-line funnel rule (every reply text is produced by _encode_ret, which collapses lines), status-check-after-spawn CFG rule for the external `install` fallback, error-discipline rule (filesystem effects of the install/link helpers convert OSError to IpcCommandError, including effects performed inside exception handlers), helper-liveness rule (per-request re-initialisation of the coroutines)",
    "level": "Decides the structural clauses: the bash side sends command + 5 fields and reads one reply; Python reads exactly those 5 and, on every normal completion, writes exactly one _encode_ret() line; no helper writes replies itself; fatal failures leave __call__ only as IpcCommandError/IpcInternalError and run_generic_phase sends their pre-encoded single line exactly once; _encode_ret collapses multi-line text in both arms; each external `install` invocation's status is checked before the next one; every filesystem effect in the install/link helper family is under an OSError->IpcCommandError conversion; coroutines are restarted per request. Does NOT decide what the filesystem operations do.",
    "note": "",
}
META["technique"] += "; " + 'generic pack G on the anchored files (optional-flag shift, closures outliving a loop iteration, single-pass iterables consumed twice, %-templates built from data, in-place writes to class-level / memoised objects, generators mutating what they yielded, memo keys that are projections)'
META["technique"] += "; class-hierarchy rule for the exceptions raised on purpose by command code against the class the reply path answers"
META["level"] += " (R7) every exception class of ebd_ipc.py that command / argument code raises derives from the class IpcCommand.__call__ converts into a status reply."
MOD = "pkgcore.ebuild.ebd_ipc"
LIB = "data/lib/pkgcore/ebd/ebuild-daemon-lib.bash"
EFFECTS = {"os.makedirs", "os.unlink", "os.symlink", "os.readlink", "os.link", "os.lchown", "os.chown", "os.chmod", "os.utime", "os.stat", "os.lstat", "os.rename", "os.remove", "os.mkdir",
           "shutil.copyfile", "shutil.copy", "shutil.copy2", "shutil.move", "open", "self._link"}
CATCHES = {"OSError", "EnvironmentError", "IOError", "Exception"}


def _raises_cmd_error(r):
    """`raise IpcCommandError(...)` (possibly `from e`); the message is not looked at"""
    return (A.raised_name(r) or "").split(".")[-1] == "IpcCommandError"


def _inert(st):
    """a statement that cannot end or redirect the function: no raise/return/break/continue inside"""
    return not any(isinstance(n, (ast.Raise, ast.Return, ast.Break, ast.Continue)) for n in ast.walk(st))


def protected(call, fn_node):
    """Is `call` in the *body* of a try (inside fn) with an OSError-ish handler that raises IpcCommandError?"""
    child = call
    for p in A.parents(call):
        if p is fn_node:
            return False
        if isinstance(p, ast.Try):
            in_body = any(child is s or A.contains_node(s, child) for s in p.body)
            if in_body:
                for h in p.handlers:
                    types = [A.unparse(x) for x in (h.type.elts if isinstance(h.type, ast.Tuple) else [h.type])] if h.type is not None else ["Exception"]
                    if set(types) & CATCHES and any(isinstance(r, ast.Raise) and _raises_cmd_error(r) for r in A.walk(h)):
                        return True
        child = p
    return False


def run(ctx):
    P = ctx.program
    ctx.explanation = META["level"]
    IC = P.cls(MOD, "IpcCommand")
    call = IC.methods["__call__"]
    # ---- R1 request frame ------------------------------------------------------------------------------
    fns = B.functions(P.bashfile(LIB).src)
    ctx.require("__ebd_ipc_cmd" in fns, "__ebd_ipc_cmd not found")
    f = fns["__ebd_ipc_cmd"]
    cs = B.commands(f.body, f.body_line)
    seq = [(c.name, c.words[1:]) for c in cs if c.name.startswith("__ebd_") or c.name == "__ipc_exit"]
    names = [n for n, _ in seq]
    want = ["__ebd_write_line", "__ebd_write_line", "__ebd_write_line", "__ebd_write_line", "__ebd_write_line", "__ebd_write_array", "__ebd_read_array", "__ipc_exit"]
    ctx.check("R1", LIB + ":__ebd_ipc_cmd", names == want, f"bash-frame:{len([n for n in names if 'write' in n])}w/{len([n for n in names if 'read' in n])}r", "bash: command, 4 line fields, 1 array field; then ONE reply read; then __ipc_exit on it",
              f"__ebd_ipc_cmd's message sequence is {names}", node=f.line)
    fields = [w[0] if w else "" for n, w in seq if n.startswith("__ebd_write")]
    ctx.check("R1", LIB + ":__ebd_ipc_cmd", fields == ["${IPC_CMD}", "${PKGCORE_NONFATAL:-false}", "${PWD}", "${EBUILD_PHASE}", "${opts}", '"$@"'], f"bash-fields:{fields}", "field order: command, nonfatal, cwd, phase, options, args")
    reads = [c for c in A.calls(call.node) if A.unparse(c.func) == "self.read"]
    ctx.check("R1", call, len(reads) == 5, f"python-reads:{len(reads)}", "Python reads exactly the 5 fields that follow the command",
              f"IpcCommand.__call__ reads {len(reads)} fields but __ebd_ipc_cmd sends 5 after the command: the channel is off by {len(reads) - 5} line(s)", node=call.node)
    # the locals are bound by their ROLE (which field they receive); later patterns reuse the bindings
    frame = M.one(call.node, "$nonfatal = self.read() == 'true'\nself.cwd = self.read()\nself.phase = self.read()\n$options = shlex.split(self.read())\n$args = self.read().strip('\\x00')")
    ctx.check("R1", call, frame is not None, "python-field-order", "in the same order: nonfatal, cwd, phase, options, args")
    E = dict(frame.env) if frame else {}
    ctx.check("R1", call, M.has(call.node, "$args = self.read().strip('\\x00')\n$args = $args.split('\\x00') if $args else []", E), "args-nul-split", "args are NUL separated (as __ebd_write_array prints them)")
    wa = fns.get("__ebd_write_array")
    ctx.check("R1", LIB + ":__ebd_write_array", wa is not None and 'printf "%s\\0" "$@"' in wa.body, "bash-array-nul", "__ebd_write_array prints each arg followed by NUL")
    ctx.floor("R1", 6)

    # ---- R2 exactly one reply ------------------------------------------------------------------------------
    writes = [c for c in A.calls(call.node) if A.unparse(c.func) in ("self.write", "self.ebd.write")]
    ctx.check("R2", call, len(writes) == 1, f"one-write-site:{len(writes)}", "__call__ has one reply site")
    # `ret` by role: what the command's run() produced
    res = M.one(call.node, "$ret = self.run($_)", E)
    E = dict(res.env) if res else E
    if writes:
        st = A.stmt_of(writes[0])
        g = CFG.cfg_of(call.node)
        wn = g.node_of(st)
        skipped = g.find_path([g.entry], lambda n: n is g.exit, avoid=lambda n: n is wn)  # a normal completion that sends nothing
        again = g.find_path([wn], lambda n: n is wn)  # the reply site can run twice
        after = g.find_path([wn], lambda n: n is g.raise_exit or n.kind in ("raise_stmt", "except"))  # something after the reply can still fail the request
        ctx.check("R2", call, wn is not None and skipped is None and again is None and after is None, "reply-on-every-normal-path", "the reply closes every normal completion: each one sends exactly one, and nothing that can fail follows it",
                  "the reply in IpcCommand.__call__ is conditional / inside a loop: some completions send no reply or several", node=st, witness=g.fmt_path(skipped or again or after) if (skipped or again or after) else None)
        ctx.check("R2", call, res is not None and M.pat("self.write(self._encode_ret($ret))").matches(writes[0], E) is not None, "reply-encoded", "what is sent is _encode_ret(ret)")
    for r in A.raises(call.node):
        e = A.unparse(r.exc) if r.exc is not None else "<re-raise>"
        ok = e.startswith(("IpcCommandError(", "IpcInternalError(")) or (r.exc is None and any(isinstance(p, ast.ExceptHandler) and p.type is not None and A.unparse(p.type) == "KeyboardInterrupt" for p in A.parents(r)))
        ctx.check("R2", call, ok, f"exceptional-exit:{e[:30]}", f"exceptional exit `{e[:50]}` is an IpcError (answered by run_generic_phase) or a user interrupt")
    hs = [h for n in A.body_walk(call.node) if isinstance(n, ast.Try) for h in n.handlers]
    cmd_h = [h for h in hs if h.type is not None and A.unparse(h.type) == "IpcCommandError"]
    RAISE = "raise IpcCommandError(msg=$e.msg, code=$e.code, name=self.name)"
    ok = len(cmd_h) == 1 and (M.has(call.node, "try:\n    ...\nexcept IpcCommandError as $e:\n    if $nonfatal:\n        $ret = ($e.code, $e.msg)\n    else:\n        " + RAISE, E)
                              or M.has(call.node, "try:\n    ...\nexcept IpcCommandError as $e:\n    if not $nonfatal:\n        " + RAISE + "\n    $ret = ($e.code, $e.msg)", E))
    ctx.check("R2", call, ok, "nonfatal-returns-code", "a nonfatal failure becomes the reply (code, message); a fatal one is raised")
    gen_h = [h for h in hs if h.type is not None and A.unparse(h.type) == "Exception"]
    ctx.check("R2", call, len(gen_h) == 1 and M.has(call.node, "try:\n    ...\nexcept Exception as $e:\n    raise IpcInternalError($_) from $e"), "bug-becomes-internal-error", "anything else is an internal error")
    n_w = 0
    for c in P.all_classes():
        if c.module.name != MOD:
            continue
        for m in c.methods.values():
            for x in A.calls(m.node):
                if A.unparse(x.func) in ("self.write", "self.ebd.write", "ebd.write"):
                    n_w += 1
                    ok = (c.name, m.name) in (("IpcCommand", "__call__"), ("IpcCommand", "write"))
                    ctx.check("R2", m, ok, f"who-may-reply:{c.name}.{m.name}", f"{c.name}.{m.name} is the reply path",
                              f"{c.name}.{m.name} writes to the daemon itself: the request gets a second reply and the channel is off by one", node=x)
    wm = IC.methods["write"]
    nw = [x for x in A.calls(wm.node) if A.unparse(x.func) == "self.ebd.write"]
    ctx.check("R2", wm, len(nw) == 1 and not any(isinstance(p, (ast.For, ast.While)) for p in A.parents(nw[0])), "write-sends-once", "IpcCommand.write performs one write to the daemon")
    rg = P.func("pkgcore.ebuild.ebd", "run_generic_phase")
    IS_IPC = M.pat("isinstance($e, ebd_ipc.IpcError)")
    ipc_if = [(n, IS_IPC.matches(n.test)) for n in A.body_walk(rg.node) if isinstance(n, ast.If) and IS_IPC.matches(n.test)]
    ctx.require(len(ipc_if) == 1, "run_generic_phase: IpcError reply branch not found")
    ipc_if, exc = [ipc_if[0][0]], ipc_if[0][1]
    proc = M.one(rg.node, "$ebd = request_ebuild_processor(...)")  # the daemon handle, by role
    ctx.require(proc is not None, "run_generic_phase: the ebuild processor handle not found")
    ebd_v = proc["ebd"]
    ws = [x for x in A.calls(ipc_if[0]) if A.unparse(x.func) == f"{ebd_v}.write"]
    # "before anything else": the write is unconditional in the branch and nothing in front of it touches the daemon or leaves the branch
    w_st = A.stmt_of(ws[0]) if ws else None
    first = w_st is not None and w_st in ipc_if[0].body and all(_inert(s_) and not any((dotted(x.func) or "").startswith(ebd_v + ".") for x in A.calls(s_)) for s_ in ipc_if[0].body[:ipc_if[0].body.index(w_st)])
    ctx.check("R2", rg, len(ws) == 1 and M.pat("$ebd.write($e.ret)").matches(ws[0], {**exc.env, **proc.env}) is not None and first, "fatal-reply-once", "a fatal IPC failure is answered exactly once, with the exception's pre-encoded line, before anything else",
              "run_generic_phase no longer answers a fatal IPC failure with exactly one `e.ret` line", node=ipc_if[0])
    ctx.check("R2", rg, any(isinstance(p, ast.ExceptHandler) and p.name == exc["e"] for p in A.parents(ipc_if[0])), "fatal-reply-in-handler", "the answer is sent from the exception handler of the phase run")
    ctx.floor("R2", 10)

    # ---- R3 one-line funnel --------------------------------------------------------------------------------------
    en = IC.methods["_encode_ret"]
    rets = A.returns(en.node)
    n_text = 0
    # the status half of a (status, text) reply, by role: first element unpacked from the `ret` parameter
    status = {m_["code"] for m_ in M.find(en.node, "$code, $text = ret")}
    COLLAPSE = M.pat("' '.join(str($_).splitlines())")
    for r in rets:
        if isinstance(r.value, ast.JoinedStr):
            n_text += 1
            vars_ = [v.value for v in r.value.values if isinstance(v, ast.FormattedValue)]
            for v in vars_:
                nm = A.unparse(v)
                if nm in status:
                    continue
                defs = [val for t_, val, st in A.assignments(en.node, nm) if st.lineno < r.lineno and any(p is q for p in A.parents(st) for q in A.parents(r) if isinstance(q, ast.If))]
                collapsed = any(COLLAPSE.search(d) for d in defs)
                ctx.check("R3", en, collapsed, f"collapsed:{nm}", f"`{nm}` is collapsed to one line before it is formatted into the reply",
                          f"_encode_ret formats `{nm}` into the reply without collapsing its lines: IpcError.ret (sent verbatim by run_generic_phase) can span several lines, and the bash side reads one line per reply", node=r)
            ctx.check("R3", en, "\x07" in "".join(p.value for p in r.value.values if isinstance(p, ast.Constant)), f"bell-separated@{r.lineno - en.node.lineno}", "status and text are separated by the bell character the bash side splits on")
    ctx.check("R3", en, n_text == 2, f"text-arms:{n_text}", "both text-carrying arms inspected")
    ie = P.func(MOD, "IpcError.__init__")
    ctx.check("R3", ie, M.has(ie.node, "self.ret = IpcCommand._encode_ret((code, msg))"), "error-ret-through-funnel", "IpcError.ret is produced by _encode_ret")
    ra = fns.get("__ebd_read_array")
    ctx.check("R3", LIB + ":__ebd_read_array", ra is not None and "IFS=$'\\07' read -u ${PKGCORE_EBD_READ_FD} -a $1" in ra.body, "bash-reads-one-line", "the bash side reads ONE line and splits it on the bell character")
    ctx.floor("R3", 6)

    # ---- R4 status check after every external install ---------------------------------------------------------------
    IW = P.cls(MOD, "_InstallWrapper")
    n_sp = 0
    for mn in ("_install_cmd", "_install_dirs_cmd"):
        m = IW.methods[mn]
        g = CFG.cfg_of(m.node)
        sp = [c for c in A.calls(m.node) if (dotted(c.func) or "").endswith("spawn_get_output")]
        ctx.require(sp, f"{mn}: spawn of `install` not found")
        for c in sp:
            n_sp += 1
            st = A.stmt_of(c)
            tgt = st.targets[0] if isinstance(st, ast.Assign) else None
            rv = A.unparse(tgt.elts[0]) if isinstance(tgt, ast.Tuple) else None
            ctx.require(rv, f"{mn}: status variable of the spawn not found")
            RV = {"rv": rv}
            checks = [n for n in A.body_walk(m.node) if isinstance(n, ast.If) and (M.pat("$rv != 0").matches(n.test, RV) or M.pat("$rv").matches(n.test, RV))
                      and any(isinstance(x, ast.Raise) and x.exc is not None and M.pat("IpcCommandError(..., code=$rv)").matches(x.exc, RV) for x in n.body)]
            sn = g.node_of(st)
            cn = {g.node_of(n) for n in checks}
            # no path from the spawn back to itself / to another spawn / to the generator's next yield that skips the check
            spawn_nodes = {g.node_of(A.stmt_of(x)) for x in sp}
            yields = {g.node_of(A.stmt_of(y)) for y in A.walk(m.node) if isinstance(y, ast.Yield)}
            loop_heads = {g.node_of(p_) for p_ in A.parents(st) if isinstance(p_, (ast.For, ast.While)) and g.node_of(p_) is not None}
            goal = lambda n: (n in spawn_nodes or n in yields or n in loop_heads or n is g.exit)
            p = g.find_path([sn], goal, avoid=lambda n: n in cn)
            ctx.check("R4", m, p is None, f"status-checked-before-next:{mn}", f"{mn}: after `install` runs, its status is checked (raise IpcCommandError(code={rv})) before the next invocation or completion",
                      f"{mn}: an `install` invocation's exit status can be overwritten by the next one before it is checked: a failed file followed by a successful one is reported as success", node=c, witness=g.fmt_path(p) if p else None)
            ctx.check("R4", m, any(k.arg == "collect_fds" for k in c.keywords), f"stderr-collected:{mn}", "stderr of `install` is collected for the failure message")
    ctx.check("R4", IW, n_sp == 2, f"spawn-sites:{n_sp}", "both external-install fallbacks inspected")
    ctx.floor("R4", 5)

    # ---- R5 error discipline -----------------------------------------------------------------------------------------------
    fam = [c for c in P.all_classes() if c.module.name == MOD and "_InstallWrapper" in [getattr(b, "name", b) for b in P.mro(c)]]
    ctx.check("R5", IW, len(fam) >= 15, f"family:{len(fam)}", f"{len(fam)} install/link helper classes inspected")
    n_eff = 0
    helper_unprotected = {}
    for c in fam:
        for m in c.methods.values():
            for x in A.calls(m.node):
                d = dotted(x.func) or A.unparse(x.func)
                if d not in EFFECTS:
                    continue
                if d == "open" and not (len(x.args) > 1 and "w" in str(A.try_literal(x.args[1], default=""))):
                    continue
                n_eff += 1
                if protected(x, m.node):
                    ctx.ob("R5", m, f"`{A.unparse(x)[:50]}` is under an OSError -> IpcCommandError conversion", node=x)
                    continue
                in_handler = next((p for p in A.parents(x) if isinstance(p, ast.ExceptHandler)), None)
                helper_unprotected.setdefault((c.name, m.name), []).append((x, in_handler))
    for (cn, mn), sites in sorted(helper_unprotected.items()):
        m = P.cls(MOD, cn).methods[mn]
        # a helper without its own conversion is fine when every call site of it is protected
        callers = [(c2, m2, x) for c2 in fam for m2 in c2.methods.values() for x in A.calls(m2.node) if A.unparse(x.func) in (f"self.{mn}",)]
        covered = bool(callers) and all(protected(x, m2.node) for _, m2, x in callers)
        for x, in_handler in sites:
            where = " (inside an `except` handler: sibling handlers of the same try do not cover it)" if in_handler is not None else ""
            ctx.check("R5", m, covered, f"effect-converted:{cn}.{mn}:{(dotted(x.func) or A.unparse(x.func))}", f"`{A.unparse(x)[:40]}` in {cn}.{mn}: every caller converts OSError",
                      f"{cn}.{mn} performs `{A.unparse(x)[:60]}`{where} with no OSError -> IpcCommandError conversion around it: its failure surfaces as an internal error that kills the build, even for nonfatal requests, instead of the helper's failure reply", node=x)
    ctx.check("R5", IW, n_eff >= 12, f"effect-sites:{n_eff}", f"{n_eff} filesystem effects inspected")
    ctx.floor("R5", 14)

    # ---- R6 helper liveness ---------------------------------------------------------------------------------------------------
    pa = IW.methods["parse_args"]
    init_calls = [x for x in A.calls(pa.node) if A.unparse(x.func) == "self._init_coroutines"]
    direct = [t_ for t_, v, _ in A.assignments(pa.node) if A.unparse(t_) == "self.install"]
    ctx.check("R6", pa, bool(init_calls) or bool(direct), "coroutines-restarted-per-request", "the file/dir coroutines are (re)created for every request",
              "_InstallWrapper creates its coroutines once per operation: after one request fails inside a coroutine (generator finished) every later request to that helper dies with StopIteration and is answered 'internal failure'", node=pa.node)
    ic = IW.methods.get("_init_coroutines")
    if ic is not None:
        made = {A.unparse(t_) for t_, v, _ in A.assignments(ic.node) if A.unparse(v).endswith("().send")}
        ctx.check("R6", ic, made == {"self.install", "self.install_dirs", "self.install_symlinks", "self.install_from_dirs"}, f"all-four-restarted:{len(made)}", "all four coroutines are restarted")
        choice = [x for x in A.calls(pa.node) if A.unparse(x.func) == "self.parse_install_options"]
        ctx.check("R6", pa, bool(init_calls) and bool(choice) and init_calls[0].lineno < choice[0].lineno, "restart-before-fallback-choice", "the restart precedes the per-request choice of the external-install fallback")
    ctx.floor("R6", 2)

    # ---- R7 every error a command can raise on purpose is one the reply path reports as a command failure ---------------
    # IpcCommand.__call__ turns exactly one class (and its subclasses) into a status reply / a named build failure; anything
    # else is re-raised as "internal failure" and a nonfatal helper gets no reply line at all.
    ipc = P.module(MOD)
    call = P.func(MOD, "IpcCommand.__call__")
    handled = None
    for h in (h for t in ast.walk(call.node) if isinstance(t, ast.Try) for h in t.handlers):
        # the handler that either answers with (code, message) or re-raises the same class with the helper's name attached
        if h.type is not None and any(isinstance(n, ast.Raise) and isinstance(n.exc, ast.Call) and A.unparse(n.exc.func) == A.unparse(h.type) for n in ast.walk(h)):
            handled = P.resolve_name(ipc, A.unparse(h.type))
    ctx.require(handled is not None and hasattr(handled, "methods"), "IpcCommand.__call__: the handler that answers a nonfatal command failure was not found")

    def derives(K, target):
        return any(c is target for c in P.mro(K))
    raised = {}
    for f_ in ipc.funcs.values():
        if f_ is call:
            continue
        for r in ast.walk(f_.node):
            if isinstance(r, ast.Raise) and r.exc is not None:
                nm = A.unparse(r.exc.func if isinstance(r.exc, ast.Call) else r.exc)
                K = P.resolve_name(ipc, nm)
                if hasattr(K, "methods") and K.module is ipc:
                    raised.setdefault(K.name, (K, f_, r))
    for nm, (K, f_, r) in sorted(raised.items()):
        ctx.check("R7", K, derives(K, handled), f"command-error-class:{nm}", f"{nm} (raised in {f_.qual}) derives from {handled.name}, which __call__ answers as a command failure",
                  f"{nm}, raised on purpose in {f_.qual}, does not derive from {handled.name}: IpcCommand.__call__ treats it as an internal failure — a nonfatal helper gets no status "
                  f"reply and the build dies with 'internal failure' instead of the helper's own message", node=r)
    ctx.floor("R7", 3)


F = "src/pkgcore/ebuild/ebd_ipc.py"
MUTANTS = [
    {"name": "extra-field-read", "file": F, "old": "        self.phase = self.read()\n", "new": "        self.phase = self.read()\n        self.user = self.read()\n", "rule": "R1"},
    {"name": "bash-drops-phase", "file": LIB, "old": "	__ebd_write_line ${EBUILD_PHASE}\n	__ebd_write_line ${opts}", "new": "	__ebd_write_line ${opts}", "rule": "R1"},
    {"name": "reply-only-on-success", "file": F, "old": "        # return completion status to the bash side\n        self.write(self._encode_ret(ret))", "new": "        # return completion status to the bash side\n        if ret is not None:\n            self.write(self._encode_ret(ret))", "rule": "R2"},
    {"name": "helper-replies-itself", "file": F, "old": "        if args.atom in self.opts.domain.all_installed_repos:\n            return 0", "new": "        if args.atom in self.opts.domain.all_installed_repos:\n            self.write(0)\n            return 0", "rule": "R2"},
    {"name": "collapse-moved-to-write", "file": F, "old": "            response = \" \".join(str(response).splitlines())\n", "new": "", "rule": "R3"},
    {"name": "revert-status-check", "file": F, "old": "                ret, output = spawn.spawn_get_output(command, collect_fds=(2,))\n                if ret != 0:\n                    raise IpcCommandError(\"\\n\".join(output), code=ret)", "new": "                ret, output = spawn.spawn_get_output(command, collect_fds=(2,))\n                if not ret:\n                    raise IpcCommandError(\"\\n\".join(output), code=ret)", "rule": "R4"},
    {"name": "status-check-after-loop", "file": F, "old": "                ret, output = spawn.spawn_get_output(command, collect_fds=(2,))\n                if ret != 0:\n                    raise IpcCommandError(\"\\n\".join(output), code=ret)\n\n    @coroutine\n    def _install_dirs(self):", "new": "                ret, output = spawn.spawn_get_output(command, collect_fds=(2,))\n            if ret != 0:\n                raise IpcCommandError(\"\\n\".join(output), code=ret)\n\n    @coroutine\n    def _install_dirs(self):", "rule": "R4"},
    {"name": "flattened-link-retry", "file": F, "old": "                try:\n                    self._link(args.source, target)\n                except FileExistsError:\n                    # overwrite target if it exists\n                    os.unlink(target)\n                    self._link(args.source, target)\n            except OSError as e:", "new": "                self._link(args.source, target)\n            except FileExistsError:\n                # overwrite target if it exists\n                os.unlink(target)\n                self._link(args.source, target)\n            except OSError as e:", "rule": "R5"},
    {"name": "revert-keepdir", "file": F, "old": "            try:\n                open(path, \"w\").close()\n            except OSError as e:\n                raise IpcCommandError(f\"failed creating file: {path!r}: {e.strerror}\")", "new": "            open(path, \"w\").close()", "rule": "R5"},
    {"name": "revert-coroutine-restart", "file": F, "old": "        self._init_coroutines()\n        args = super().parse_args(*args, **kwargs)", "new": "        args = super().parse_args(*args, **kwargs)", "rule": "R6"},
]
MUTANTS += [
    {"name": "unknown-options-not-a-command-error", "file": F, "old": "class UnknownOptions(IpcCommandError):", "new": "class UnknownOptions(IpcError):", "rule": "R7"},
]
TWINS = [
    {"name": "unknown-options-via-intermediate-class", "file": F, "old": "class UnknownOptions(IpcCommandError):", "new": "class _Unknown(IpcCommandError):\n    pass\n\n\nclass UnknownOptions(_Unknown):"},
]
