"""C01 — version comparison follows PMS and is a total preorder (structural clauses)."""
import ast

from ..core import generic as G
from ..core import astutil as A
from ..core import boolx, rx
from ..core.model import dotted
from ..core.sides import SideInterp

META = {
    "technique": "table agreement (suffix dict vs two literal regexes vs PMS order), operator-wiring table of the CPV rich comparisons and of _VersionMatch, two-sided provenance analysis of every cmp() in ver_cmp, branch-decision rule for the first numeric component",
    "level": "Decides structural clauses R1-R5 that are necessary conditions of PMS version ordering: the three suffix tables agree and are ordered alpha<beta<pre<rc<none<p with omitted numbers coerced to 0; every cmp(a,b) in ver_cmp takes a from version 1 and b from version 2; each CPV comparison method uses its own operator on ver_cmp(self…, other…) and strict fallbacks of the same direction; the version-operator table maps each operator to exactly its sign set and match() compares package-first; the first dotted component can never take the string-comparison branch. Does NOT decide that ver_cmp equals the PMS algorithm on all version strings nor transitivity.",
    "note": "assumes snakeoil.compatibility.cmp(a,b) is the three-way comparison (trusted base); regex facts come from the stdlib regex parser applied to the literal patterns",
}
META["technique"] += "; " + 'effect analysis (no in-place write to shared objects) on ver_cmp and the comparison methods'
META["level"] += " (R9) every return inside a component loop of ver_cmp is under a test." + " (R8) every return of ver_cmp is -1, 0, 1 or a cmp(...) result, because _VersionMatch.match looks the result up in a tuple over (-1, 0, 1)." +  " Added after the second round of independent changes: " + '(R6) ver_cmp, the CPV/Revision comparison methods and _VersionMatch.match write in place only to objects they created themselves (no memoised list, parameter or module table is edited by a comparison).'
META["technique"] += "; " + 'generic pack G on the anchored files (optional-flag shift, closures outliving a loop iteration, single-pass iterables consumed twice, %-templates built from data, in-place writes to class-level / memoised objects, generators mutating what they yielded, memo keys that are projections)'

PMS_SUFFIXES = ("alpha", "beta", "pre", "rc", "p")
OPS = {"__lt__": ast.Lt, "__le__": ast.LtE, "__gt__": ast.Gt, "__ge__": ast.GtE, "__eq__": ast.Eq}
STRICT = {"__lt__": ast.Lt, "__le__": ast.Lt, "__gt__": ast.Gt, "__ge__": ast.Gt}
OP_TABLE = {(-1,): "<", (-1, 0): "<=", (0,): "=", (0, 1): ">=", (1,): ">"}


def regex_literal(ctx, mod, name):
    v = mod.assigns.get(name)
    ctx.require(isinstance(v, ast.Call) and v.args, f"{mod.relpath}: {name} is not a regexp(<literal>) assignment")
    pat = A.try_literal(v.args[0])
    if not isinstance(pat, str):
        from ..core import constfold
        pat = constfold.try_fold(v.args[0], mod.assigns)  # generated from the tables at import time: still a constant of the program
    ctx.require(isinstance(pat, str), f"{mod.relpath}: pattern of {name} is neither a literal nor foldable from module-level constants")
    return pat, v


from ..core import effects  # noqa: E402


def run(ctx):
    P = ctx.program
    cpv = P.module("pkgcore.ebuild.cpv")
    ver_cmp = P.func("pkgcore.ebuild.cpv", "ver_cmp")
    ctx.explanation = META["level"]

    # ---- R1 suffix tables ------------------------------------------------
    sv_node = cpv.assigns.get("suffix_value")
    sv = A.try_literal(sv_node) if sv_node is not None else None
    ctx.require(isinstance(sv, dict), "cpv.suffix_value is not a literal dict")
    ctx.check("R1", cpv, set(sv) == set(PMS_SUFFIXES), "suffix_value-keys",
              f"suffix_value keys are the five PMS suffixes (got {sorted(sv)})", node=sv_node)
    if set(sv) == set(PMS_SUFFIXES):
        order_ok = sv["alpha"] < sv["beta"] < sv["pre"] < sv["rc"] < 0 < sv["p"]
        ctx.check("R1", cpv, order_ok, "suffix_value-order",
                  f"suffix values ordered alpha<beta<pre<rc<0<p (got {sv})", node=sv_node)
    pat, node = regex_literal(ctx, cpv, "suffix_regexp")
    br = rx.branches(pat)
    ctx.require(br, "suffix_regexp has no finite alternation")
    ctx.check("R1", cpv, any(b == set(PMS_SUFFIXES) for b in br), "suffix_regexp-alts",
              f"suffix_regexp alternation is the five PMS suffixes (got {[sorted(b) for b in br]})", node=node)
    tree = rx.parse(pat)
    ngroups = tree.state.groups - 1
    ctx.check("R1", cpv, ngroups == 2, "suffix_regexp-groups", "suffix_regexp has groups (name)(number)", node=node)
    # `p` is a prefix of `pre`: only the end anchor makes the split independent of the order of the alternatives
    # (ver_cmp applies the pattern with .match() to one whole suffix chunk)
    uses = [c for fi in cpv.funcs.values() for c in A.calls(fi.node) if isinstance(c.func, ast.Attribute) and dotted(c.func.value) == "suffix_regexp"]
    whole = bool(uses) and all(c.func.attr == "fullmatch" for c in uses)
    ctx.check("R1", cpv, whole or (rx.end_anchored(pat) and (rx.start_anchored(pat) or all(c.func.attr == "match" for c in uses))), "suffix_regexp-anchored",
              "suffix_regexp is anchored at both ends, so a suffix is split into (name)(number) as a whole whatever the order of the alternatives",
              f"suffix_regexp {pat!r} is not anchored at both ends: with `.match()` the first alternative that is a prefix wins (`pre1` splits as name `p`) or trailing text is ignored", node=node)
    pat2, node2 = regex_literal(ctx, cpv, "isvalid_version_re")
    br2 = rx.branches(pat2)
    ctx.check("R1", cpv, any(b == set(PMS_SUFFIXES) for b in br2), "isvalid_version_re-alts",
              f"isvalid_version_re suffix alternation is the five PMS suffixes (got {[sorted(b) for b in br2]})", node=node2)
    # omitted suffix number means 0: every .group(2) is consumed as int("0" + ...)
    g2 = [c for c in A.calls(ver_cmp.node) if A.call_attr(c) == "group" and c.args and A.is_const(c.args[0], 2)]
    deferred = []  # idiom anchors that went missing: reported after the rules that do not depend on them have been decided
    if len(g2) < 4:
        deferred.append("ver_cmp: fewer than 4 uses of the suffix-number group; idiom changed")
    for c in g2:
        par = getattr(c, "_parent", None)
        ok = (
            isinstance(par, ast.BinOp) and isinstance(par.op, ast.Add) and A.is_const(par.left, "0") and par.right is c
            and isinstance(getattr(par, "_parent", None), ast.Call) and dotted(par._parent.func) == "int"
        )
        ctx.check("R1", ver_cmp, ok, f"group2-coercion@{A.unparse(A.stmt_of(c))[:40]}",
                  'suffix number is read as int("0" + match.group(2)) (omitted number = 0)', node=c)
    # suffix name compared through suffix_value[...group(1)]
    g1 = [c for c in A.calls(ver_cmp.node) if A.call_attr(c) == "group" and c.args and A.is_const(c.args[0], 1)]
    for c in g1:
        par = getattr(c, "_parent", None)
        ok = isinstance(par, ast.Subscript) and dotted(par.value) == "suffix_value"
        ctx.check("R1", ver_cmp, ok, f"group1-lookup@{A.unparse(A.stmt_of(c))[:40]}",
                  "suffix name is ranked through suffix_value[...]", node=c)
    if not deferred:
        ctx.floor("R1", 9)

    # ---- R5 orientation of every three-way comparison in ver_cmp ----------
    params = ver_cmp.params()
    ctx.require(len(params) >= 4, "ver_cmp signature changed")
    seeds = {params[0]: {1}, params[1]: {1}, params[2]: {2}, params[3]: {2}}
    seen = []

    def on_call(call, env, interp):
        if dotted(call.func) != "cmp" or len(call.args) != 2 or id(call) in {id(s) for s in seen}:
            return
        seen.append(call)
        a, b = interp.sides(call.args[0], env), interp.sides(call.args[1], env)
        ok = a <= {1} and b <= {2} and (a or b)
        ctx.check("R5", ver_cmp, ok, f"cmp-orientation@{A.unparse(call)[:50]}",
                  f"cmp({A.unparse(call.args[0])}, {A.unparse(call.args[1])}): first operand from version 1 {sorted(a)}, second from version 2 {sorted(b)}",
                  node=call)

    SideInterp(seeds, on_call).run(ver_cmp.node)
    ctx.require(not deferred, "; ".join(deferred))
    ctx.floor("R5", 8)
    # suffix lists are consumed front to back: no from-the-end index on a version's suffix list
    for n in A.body_walk(ver_cmp.node):
        if isinstance(n, ast.Subscript) and isinstance(n.ctx, ast.Load) and isinstance(n.value, ast.Name):
            idx = A.try_literal(n.slice, default=None)
            if isinstance(idx, int) and idx < 0:
                base_sides = None
                tgt = n.value.id
                # only lists derived by splitting on "_" (suffix lists)
                srcs = [v for t, v, _ in A.assignments(ver_cmp.node, tgt)]
                is_suffix_list = any(isinstance(v, ast.Call) and A.call_attr(v) == "split" and v.args and A.is_const(v.args[0], "_") for v in srcs)
                if is_suffix_list:
                    ctx.check("R5", ver_cmp, False, f"suffix-from-end@{tgt}", "",
                              f"`{A.unparse(n)}` picks a suffix from the END of the list; PMS compares suffixes in order, the deciding one is the first extra suffix", node=n)
    # length tie-break: longer component list wins, oriented
    for n in A.body_walk(ver_cmp.node):
        if isinstance(n, ast.If) and isinstance(n.test, ast.Compare) and len(n.test.ops) == 1 and isinstance(n.test.ops[0], (ast.Gt, ast.Lt)):
            l, r = dotted(n.test.left), dotted(n.test.comparators[0])
            if l and r and l.endswith("_len") and r.endswith("_len") and len(n.body) == 1 and isinstance(n.body[0], ast.Return):
                val = A.try_literal(n.body[0].value)
                l1 = "1" in l.replace("_len", "")[-2:]
                gt = isinstance(n.test.ops[0], ast.Gt)
                first_longer = (l1 and gt) or (not l1 and not gt)
                ctx.check("R5", ver_cmp, val == (1 if first_longer else -1), f"len-tiebreak@{A.unparse(n.test)}",
                          "more dotted components wins (sign matches the longer side)", node=n)

    # ---- R4 first numeric component is compared as an integer ------------
    rstrips = [c for c in A.calls(ver_cmp.node) if A.call_attr(c) == "rstrip" and c.args and A.is_const(c.args[0], "0")]
    ctx.require(rstrips, "ver_cmp: no .rstrip('0') string-comparison branch found; idiom changed")
    for c in rstrips[:1]:
        loop = A.enclosing(c, (ast.For, ast.While))
        ctx.require(loop is not None, "ver_cmp: string-comparison branch is not inside the component loop")
        branch_if = None
        for p in A.parents(c):
            if p is loop:
                break
            if isinstance(p, ast.If):
                branch_if = p
        ctx.require(branch_if is not None, "ver_cmp: no branch decides between int and string comparison")
        in_body = any(A.contains_node(s, c) for s in branch_if.body)
        # idiom (a): loop skips the first component (iterates [1:] slices, first handled before)
        it = loop.iter if isinstance(loop, ast.For) else None
        skips_first = False
        if it is not None:
            sl = [n for n in ast.walk(it) if isinstance(n, ast.Slice) and A.is_const(n.lower, 1)]
            skips_first = len(sl) >= 2
        ok = skips_first
        how = "loop iterates [1:] slices"
        if not ok:
            # idiom (b): index variable from enumerate() forces the int branch for index 0
            counters = set()
            if it is not None and isinstance(it, ast.Call) and dotted(it.func) == "enumerate" and isinstance(loop.target, ast.Tuple):
                counters |= set(A.assigned_names(loop.target.elts[0]))
            idx_atoms = [k for k in boolx.atoms(branch_if.test, counters) if any(k == f"{n} == 0" for n in counters)]
            if idx_atoms:
                out = boolx.forced_outcome(branch_if.test, {idx_atoms[0]: True}, counters)
                # string branch must be unreachable when index == 0
                ok = out is not None and (out != in_body)
                how = f"index test {idx_atoms[0]} forces the integer branch"
        ctx.check("R4", ver_cmp, ok, "first-component-int",
                  f"first dotted component cannot reach the string-comparison branch ({how})",
                  "the component loop lets index 0 take the leading-zero string branch ('09' vs '1' compares as strings; PMS: first component is an integer)",
                  node=branch_if)
        # the int branch really converts both with int()
        other = branch_if.orelse if in_body else branch_if.body
        ints = [x for s in other for x in A.calls(s) if dotted(x.func) == "int"]
        ctx.check("R4", ver_cmp, len(ints) >= 2, "int-branch", "the other branch converts both components with int()", node=branch_if)
        # leading-zero test reads the first character of both components
        zero_tests = [n for n in ast.walk(branch_if.test) if isinstance(n, ast.Compare) and any(A.is_const(x, "0") for x in n.comparators)]
        ctx.check("R4", ver_cmp, len(zero_tests) >= 2, "leading-zero-both", "leading-zero test covers both components", node=branch_if)

    # ---- R2 CPV rich comparisons -----------------------------------------
    CPV = P.cls("pkgcore.ebuild.cpv", "CPV")
    for name, op in OPS.items():
        m = CPV.methods.get(name)
        ctx.require(m is not None, f"CPV.{name} not found")
        cmps = [n for n in A.body_walk(m.node) if isinstance(n, ast.Compare) and isinstance(n.left, ast.Call)
                and dotted(n.left.func) in ("ver_cmp", "cpv.ver_cmp")]
        ctx.require(len(cmps) == 1, f"CPV.{name}: expected exactly one ver_cmp(...) <op> 0 comparison")
        c = cmps[0]
        ok_op = len(c.ops) == 1 and isinstance(c.ops[0], op) and A.is_const(c.comparators[0], 0)
        ctx.check("R2", m, ok_op, "operator", f"{name} tests ver_cmp(...) {op.__name__} 0", node=c)
        args = [A.unparse(a) for a in c.left.args]
        ctx.check("R2", m, args == ["self.version", "self.revision", "other.version", "other.revision"], "ver_cmp-args",
                  "ver_cmp receives (self.version, self.revision, other.version, other.revision)", node=c)
        if name in STRICT:
            fb = [n for n in A.body_walk(m.node) if isinstance(n, ast.Return) and isinstance(n.value, ast.Compare)
                  and not isinstance(n.value.left, ast.Call)]
            ctx.require(len(fb) >= 2, f"CPV.{name}: fallback comparisons not found")
            for r in fb:
                v = r.value
                l, rr = dotted(v.left), dotted(v.comparators[0])
                ok = (len(v.ops) == 1 and isinstance(v.ops[0], STRICT[name]) and l and rr and l.startswith("self.")
                      and rr == "other." + l.split(".", 1)[1] and l.split(".", 1)[1] in ("package", "category"))
                ctx.check("R2", m, ok, f"fallback@{l}", f"different {l.split('.')[-1] if l else '?'}: strict {STRICT[name].__name__} of self vs other", node=r)
            # the ver_cmp comparison is only reached when category and package are equal
            guards = [p for p in A.parents(c) if isinstance(p, ast.If)]
            gtxt = " ".join(A.unparse(g.test) for g in guards)
            ctx.check("R2", m, "self.category == other.category" in gtxt and "self.package == other.package" in gtxt, "same-key-guard",
                      "versions are compared only under equal category and package", node=c)
    ne = CPV.methods.get("__ne__")
    if ne is not None:
        rets = A.returns(ne.node)
        ok = len(rets) == 1 and isinstance(rets[0].value, ast.UnaryOp) and isinstance(rets[0].value.op, ast.Not) and "__eq__" in A.unparse(rets[0].value)
        ctx.check("R2", ne, ok, "ne-is-not-eq", "__ne__ is the negation of __eq__", node=ne.node)
    ctx.floor("R2", 18)

    # ---- R3 version-operator restriction ---------------------------------
    VM = P.cls("pkgcore.ebuild.restricts", "_VersionMatch")
    t = A.try_literal(VM.assigns.get("_convert_op2str"))
    ctx.require(isinstance(t, dict), "_VersionMatch._convert_op2str is not a literal dict")
    ctx.check("R3", VM, t == OP_TABLE, "op-table", f"operator table maps each sign set to its operator (got {t})", node=VM.assigns["_convert_op2str"])
    inv = VM.assigns.get("_convert_str2op")
    ok_inv = isinstance(inv, ast.DictComp) and A.unparse(inv.key) != A.unparse(inv.value) and "_convert_op2str" in A.unparse(inv)
    if ok_inv:
        g = inv.generators[0]
        names = A.assigned_names(g.target)
        ok_inv = len(names) == 2 and A.unparse(inv.key) == names[1] and A.unparse(inv.value) == names[0]
    ctx.check("R3", VM, ok_inv, "op-table-inverse", "_convert_str2op is the inversion of _convert_op2str", node=inv)
    m = VM.methods.get("match")
    ctx.require(m is not None, "_VersionMatch.match not found")
    vc = [c for c in A.calls(m.node) if dotted(c.func) in ("cpv.ver_cmp", "ver_cmp")]
    ctx.require(len(vc) == 1 and len(vc[0].args) == 4, "_VersionMatch.match: ver_cmp call not found")
    call = vc[0]
    seeds = {"self": {2}, m.params()[1]: {1}}
    res = {}

    def on_call2(c, env, interp):
        if c is call:
            res["sides"] = [interp.sides(a, env) for a in c.args]

    SideInterp(seeds, on_call2).run(m.node)
    sd = res.get("sides")
    ctx.require(sd is not None, "_VersionMatch.match: could not evaluate ver_cmp argument provenance")
    ctx.check("R3", m, sd[0] == {1} and sd[1] <= {1} and sd[2] == {2} and sd[3] <= {2}, "match-orientation",
              "match() calls ver_cmp(package version, package revision, own version, own revision)", node=call)
    ctx.check("R3", m, A.unparse(call.args[0]).endswith(".version") and A.unparse(call.args[2]) == "self.ver", "match-version-args",
              "ver_cmp compares pkg.version with self.ver", node=call)
    par = getattr(call, "_parent", None)
    ok_in = isinstance(par, ast.Compare) and len(par.ops) == 1 and isinstance(par.ops[0], ast.In) and A.unparse(par.comparators[0]) == "self.vals"
    ctx.check("R3", m, ok_in, "match-in-vals", "result sign is tested for membership in self.vals", node=call)
    outer = getattr(par, "_parent", None) if ok_in else None
    ok_neg = isinstance(outer, ast.Compare) and len(outer.ops) == 1 and isinstance(outer.ops[0], ast.NotEq) and "self.negate" in A.unparse(outer)
    ctx.check("R3", m, ok_neg, "match-negate", "membership result is xor-ed with self.negate", node=call)
    # '~' ignores revisions: under droprev both revision operands are None
    drop_if = [n for n in A.body_walk(m.node) if isinstance(n, ast.If) and "droprev" in A.unparse(n.test)]
    ctx.require(drop_if, "_VersionMatch.match: no droprev branch")
    di = drop_if[0]
    pos = A.unparse(di.test) == "self.droprev"
    arm = di.body if pos else di.orelse
    vals = [v for s in arm for (t_, v, _) in A.assignments(ast.Module(body=[s], type_ignores=[]))] if False else []
    arm_assign = [n for s in arm for n in ast.walk(s) if isinstance(n, ast.Assign)]
    none_ok = bool(arm_assign) and all(
        all(A.is_const(e, None) for e in (a.value.elts if isinstance(a.value, ast.Tuple) else [a.value])) for a in arm_assign
    )
    ctx.check("R3", m, none_ok, "tilde-drops-revision", "under droprev both revisions handed to ver_cmp are None", node=di)
    other_arm = di.orelse if pos else di.body
    txt = " ".join(A.unparse(s) for s in other_arm)
    ctx.check("R3", m, "self.rev" in txt and ".revision" in txt, "revisions-used", "without droprev own and package revisions are compared", node=di)
    init = VM.methods.get("__init__")
    ctx.require(init is not None, "_VersionMatch.__init__ not found")
    tilde = [n for n in A.body_walk(init.node) if isinstance(n, ast.If) and A.unparse(n.test) in ("operator == '~'", "'~' == operator")]
    ctx.require(tilde, "_VersionMatch.__init__: no `operator == '~'` branch")
    ti = tilde[-1]
    bt = {A.unparse(a.targets[0]): A.try_literal(a.value, default="?") for s in ti.body for a in ast.walk(s) if isinstance(a, ast.Assign)}
    ctx.check("R3", init, bt.get("self.droprev") is True and bt.get("self.vals") == (0,), "tilde-init",
              "'~' sets droprev and the equality sign set (0,)", node=ti)
    bf = {A.unparse(a.targets[0]): A.unparse(a.value) for s in ti.orelse for a in ast.walk(s) if isinstance(a, ast.Assign)}
    ctx.check("R3", init, bf.get("self.droprev") == "False" and bf.get("self.vals") == "self._convert_str2op[operator]", "op-init",
              "other operators take their sign set from the table, droprev False", node=ti)
    ctx.floor("R3", 9)

    # ---- R6 comparison is a function of its operands: no writes to shared objects ------------------------------
    cmp_methods = [q for q in ("CPV.__eq__", "CPV.__ne__", "CPV.__lt__", "CPV.__le__", "CPV.__gt__", "CPV.__ge__", "CPV.__hash__") if P.func_opt("pkgcore.ebuild.cpv", q)]
    rev_methods = [f.qual for f in cpv.funcs.values() if f.qual.startswith("Revision.__") and f.name in ("__eq__", "__lt__", "__le__", "__gt__", "__ge__", "__hash__")]
    G.pure(ctx, "R6", [("pkgcore.ebuild.cpv", q, (), "a comparison that edits shared data answers differently the next time it is asked") for q in ["ver_cmp"] + cmp_methods + rev_methods]
           + [("pkgcore.ebuild.restricts", "_VersionMatch.match", (), "matching must not change the restriction or the package")])
    ctx.floor("R6", 10)

    # ---- R8 ver_cmp answers with a sign, not a magnitude ---------------------------------------------------------
    # _VersionMatch.match tests `ver_cmp(...) in self.vals` against tuples over {-1, 0, 1}: a result such as 2 or -25 has the
    # right sign for `<`/`>` tests on CPVs and matches no version operator at all.
    vm = P.func("pkgcore.ebuild.restricts", "_VersionMatch.match")
    member = [c for c in ast.walk(vm.node) if isinstance(c, ast.Compare) and len(c.ops) == 1 and isinstance(c.ops[0], (ast.In, ast.NotIn))
              and isinstance(c.left, ast.Call) and (dotted(c.left.func) or "").endswith("ver_cmp")]
    if member:
        fx = effects.engine(P).fx(ver_cmp)

        def signed(e, at, depth=0):
            if isinstance(e, ast.Constant):
                return e.value in (-1, 0, 1) and not isinstance(e.value, bool)
            if isinstance(e, ast.UnaryOp) and isinstance(e.op, ast.USub):
                return isinstance(e.operand, ast.Constant) and e.operand.value in (0, 1)
            if isinstance(e, ast.Call):
                return dotted(e.func) == "cmp"
            if isinstance(e, ast.IfExp):
                return signed(e.body, at, depth) and signed(e.orelse, at, depth)
            if isinstance(e, ast.Name) and depth < 4:
                ds = fx.defs_at(e.id, at)
                return bool(ds) and all(d.kind == "assign" and d.value is not None and signed(d.value, d.stmt, depth + 1) for d in ds)
            return False
        for r in A.returns(ver_cmp.node):
            ctx.check("R8", ver_cmp, r.value is not None and signed(r.value, r), f"sign-result:{A.unparse(r.value)[:40] if r.value is not None else 'None'}",
                      f"`{A.unparse(r)}` is -1, 0, 1 or a cmp(...) result",
                      f"ver_cmp returns `{A.unparse(r.value) if r.value is not None else None}`, which is not confined to -1 / 0 / 1: _VersionMatch.match looks the result up in "
                      f"a tuple over (-1, 0, 1), so a magnitude matches no operator although its sign is right", node=r)
        ctx.floor("R8", 8)
    else:
        ctx.ob("R8", vm, "_VersionMatch.match no longer tests the comparator's result by membership: any correctly signed result is acceptable")

    # ---- R9 a component loop only returns once a component decided ---------------------------------------------------
    # every loop of ver_cmp walks pairs of components; a `return` that is not under a test inside the loop body ends the
    # comparison at the first pair whatever its outcome (0 for `01` vs `1`), and everything after it is never looked at
    n9 = 0
    for loop in [n for n in A.body_walk(ver_cmp.node) if isinstance(n, (ast.For, ast.While))]:
        for r in [x for st_ in loop.body for x in ast.walk(st_) if isinstance(x, ast.Return)]:
            n9 += 1
            guarded = any(isinstance(p_, (ast.If, ast.Try, ast.Match)) for p_ in A.parents(r) if A.contains_node(loop, p_) and p_ is not loop)
            ctx.check("R9", ver_cmp, guarded, f"loop-return-unconditional:{A.unparse(r)[:40]}", f"`{A.unparse(r)}` inside the component loop is taken only under a test",
                      f"`{A.unparse(r)}` ends the loop over version components unconditionally at the first pair: when that pair compares equal (spelled differently, e.g. `01` vs `1`, "
                      f"`1.010` vs `1.01`) the result is 0 although later components, the letter, suffixes or the revision differ", node=r)
    ctx.require(n9 >= 3, f"ver_cmp: only {n9} returns inside component loops; idiom changed")

MUTANTS = [
    {"name": "suffix-order-swap", "file": "src/pkgcore/ebuild/cpv.py", "old": '"pre": -2, "p": 1, "alpha": -4, "beta": -3, "rc": -1', "new": '"pre": -1, "p": 1, "alpha": -4, "beta": -3, "rc": -2', "rule": "R1"},
    {"name": "cmp-swapped-end-of-list", "file": "src/pkgcore/ebuild/cpv.py", "old": "                return cmp(val, 0)\n", "new": "                return cmp(0, val)\n", "rule": "R5"},
    {"name": "lt-uses-le", "file": "src/pkgcore/ebuild/cpv.py", "old": "                        < 0\n", "new": "                        <= 0\n", "rule": "R2"},
    {"name": "match-args-swapped", "file": "src/pkgcore/ebuild/restricts.py", "old": "cpv.ver_cmp(pkg.version, r2, self.ver, r1)", "new": "cpv.ver_cmp(self.ver, r1, pkg.version, r2)", "rule": "R3"},
    {"name": "tilde-keeps-own-rev", "file": "src/pkgcore/ebuild/restricts.py", "old": "            r1, r2 = None, None\n", "new": "            r1, r2 = self.rev, None\n", "rule": "R3"},
    {"name": "group2-uncoerced", "file": "src/pkgcore/ebuild/cpv.py", "old": 'return cmp(0, int("0" + match.group(2)))', "new": 'return cmp(0, int(match.group(2) or 1))', "rule": "R1"},
    {"name": "le-fallback-nonstrict", "file": "src/pkgcore/ebuild/cpv.py", "old": "                        <= 0\n                    )\n                return self.package < other.package", "new": "                        <= 0\n                    )\n                return self.package > other.package", "rule": "R2"},
]
MUTANTS += [
    {"name": "split-memoised-in-module-dict", "file": "src/pkgcore/ebuild/cpv.py", "old": '        ver_parts1 = parts1[0].split(".")\n', "new": '        ver_parts1 = suffix_value.setdefault(parts1[0], parts1[0].split("."))\n', "rule": "R6"},
]
MUTANTS += [
    {"name": "letter-difference-instead-of-sign", "file": "src/pkgcore/ebuild/cpv.py", "old": "            return cmp(letters[0], letters[1])\n", "new": "            return letters[0] - letters[1]\n", "rule": "R8"},
]
MUTANTS += [
    {"name": "component-loop-returns-unconditionally", "file": "src/pkgcore/ebuild/cpv.py", "old": "            c = cmp(v1, v2)\n            if c:\n                return c\n", "new": "            return cmp(v1, v2)\n", "rule": "R9"},
]
TWINS = [
    {"name": "sign-through-a-local", "file": "src/pkgcore/ebuild/cpv.py", "old": "            return cmp(letters[0], letters[1])\n", "new": "            res = cmp(letters[0], letters[1])\n            return res\n"},
    {"name": "split-copied-from-memo", "file": "src/pkgcore/ebuild/cpv.py", "old": '        ver_parts1 = parts1[0].split(".")\n', "new": '        ver_parts1 = list(suffix_value.get(parts1[0], parts1[0].split(".")))\n'},
    {"name": "rename-local", "file": "src/pkgcore/ebuild/cpv.py", "old": "            c = cmp(v1, v2)\n            if c:\n                return c\n", "new": "            res = cmp(v1, v2)\n            if res:\n                return res\n"},
]
