"""C18 — merging places exactly the package contents on the live filesystem (structural clauses)."""
import ast

from ..core import astutil as A
from ..core import match as M
from ..core.cfg import cfg_of
from ..core.model import dotted

META = {
    "technique": "CFG ordering rule on the metadata syscalls of ensure_perms (lchown before chmod before utime on every path; none for symlinks' mode/time), scoping rule for the hardlink-candidate table of merge_contents, taint rule 'metadata is applied to the path the data was written to', allow-list of filesystem-mutating primitives reachable from merge_contents",
    "level": "Decides: (R1) ensure_perms changes ownership before mode before mtime on every path (chown clears set-id bits, so any other order loses the recorded mode), never chmods/utimes a symlink and keeps the mode of a directory that already exists; (R2) merge_contents handles directories (sorted) before other entries, keys hardlink candidates by (dev, inode), keeps that table alive across its retry loop, and every non-directory reaches copyfile(mkdirs=True) unless a hardlink succeeded; (R3) copyfile applies ownership/mode/mtime to the very path it wrote the data to, before any rename; (R4) the only filesystem-mutating primitives in fs/ops.py's merge path are the allow-listed ones and their path arguments derive from the entry's location. Does NOT decide the resulting filesystem for concrete trees.",
    "note": "POSIX fact: chown(2) clears S_ISUID/S_ISGID on non-directories; the data-transfer primitive and ensure_dirs are snakeoil (trusted base)",
}
META["technique"] += "; " + 'generic pack G on the anchored files (optional-flag shift, closures outliving a loop iteration, single-pass iterables consumed twice, %-templates built from data, in-place writes to class-level / memoised objects, generators mutating what they yielded, memo keys that are projections)'
META["technique"] += "; truth-table decision (boolx) of the lchown guard; constant-True rule for the enforcement switches when no live object is given"
META["level"] += " R1 also: with no live object given every attribute is enforced, and os.lchown runs iff ownership is to be enforced and at least one id is recorded."

MOD = "pkgcore.fs.ops"
MUTATORS = {"os.lchown", "os.chown", "os.chmod", "os.utime", "os.mkdir", "os.unlink", "os.link", "os.rename", "os.symlink", "os.mkfifo", "os.mknod", "os.rmdir",
            "os.remove", "os.makedirs", "os.truncate", "shutil.rmtree", "shutil.move", "shutil.copy", "shutil.copyfile", "os.removedirs", "os.replace"}
ALLOWED = {"ensure_perms": {"os.lchown", "os.chmod", "os.utime"}, "mkdir": {"os.mkdir"}, "copyfile": {"os.symlink", "os.mkfifo", "os.mknod", "os.rename"},
           "do_link": {"os.link", "os.rename"}, "merge_contents": {"os.unlink"}}


def os_calls(fn, names=None):
    out = []
    for c in A.calls(fn.node):
        d = dotted(c.func)
        if d and (d in MUTATORS or (names and d in names)):
            out.append((d, c))
    return out


def from_location(fn, expr, seen=None):
    """expr reads an entry's `.location`, directly or through locals of fn assigned from such an expression"""
    seen = set() if seen is None else seen
    if any(isinstance(n, ast.Attribute) and n.attr == "location" for n in ast.walk(expr)):
        return True
    for name in sorted(A.names_in(expr) - seen):
        seen.add(name)
        if any(from_location(fn, v, seen) for _, v, _ in A.assignments(fn.node, name) if isinstance(v, ast.expr)):
            return True
    return False


def unknown_live_enforced(ctx, ep, live, rule):
    """with no live object given (a freshly created entry or the staged '#new' copy) ensure_perms enforces every attribute"""
    # nothing known about the live object (a freshly created entry / staged copy): every attribute is enforced.  The switches
    # are the boolean locals in the guards of the three syscalls; on the `live is None` side each must be the constant True.
    switches = {}
    for d, c in os_calls(ep):
        gd = [p for p in A.parents(c) if isinstance(p, ast.If)]
        for nm in (sorted(A.names_in(gd[0].test)) if gd else []):
            if any(isinstance(v, ast.Constant) and isinstance(v.value, bool) for _, v, _ in A.assignments(ep.node, nm)):
                switches[nm] = d
    ctx.require(len(switches) == 3, f"ensure_perms: the three enforcement switches were not found in the guards of lchown/chmod/utime ({sorted(switches)})")
    unk = M.guarded(ep.node.body, f"{live} is None")
    ctx.require(len(unk) >= 1, f"ensure_perms: the `{live} is None` decision was not found")
    ifn, arm = unk[0][0], unk[0][1]
    for nm, d in sorted(switches.items()):
        vals = [v for _, v, _ in A.assignments(ast.Module(body=list(arm), type_ignores=[]), nm)]
        if not vals:   # set once before the decision and only revised when the live object is known
            vals = [v for st in ep.node.body if st.lineno < ifn.lineno and isinstance(st, (ast.Assign, ast.AnnAssign)) for t, v, _ in A.assignments(ast.Module(body=[st], type_ignores=[]), nm)][-1:]
        ok = bool(vals) and all(A.is_const(v, True) for v in vals)
        ctx.check(rule, ep, ok, f"unknown-live-enforces:{d}", f"with no live object given, {d} is not skipped (`{nm}` is True)",
                  f"ensure_perms: when nothing is known about the live object (`{live} is None`: a freshly created entry or staged copy) `{nm}` is `{A.unparse(vals[0]) if vals else '<unset>'}` instead of True, so {d} can be skipped and the entry keeps whatever the creating process gave it", node=(vals[0] if vals else ifn))


def run(ctx):
    P = ctx.program
    ctx.explanation = META["level"]
    ep = P.func(MOD, "ensure_perms")
    g = cfg_of(ep.node)
    calls = {d: g.node_of(c) for d, c in os_calls(ep)}
    for need in ("os.lchown", "os.chmod", "os.utime"):
        ctx.require(need in calls, f"ensure_perms: {need} call not found")
    # ---- R1 ----------------------------------------------------------------
    ctx.require(len(ep.params()) >= 2, "ensure_perms: (entry, live-object) parameters not found")
    entry, live = ep.params()[:2]
    for first, second in (("os.lchown", "os.chmod"), ("os.lchown", "os.utime"), ("os.chmod", "os.utime")):
        back = calls[first] in g.reach([calls[second]])
        fwd = calls[second] in g.reach([calls[first]])
        ctx.check("R1", ep, fwd and not back, f"order:{first}<{second}", f"ensure_perms: {first} precedes {second} on every path",
                  f"ensure_perms can run {second} before {first}: a chown after chmod clears the setuid/setgid bits the package recorded", node=calls[second].ast)
    for d in ("os.chmod", "os.utime"):
        c = [x for n_, x in os_calls(ep) if n_ == d][0]
        guard = [p for p in A.parents(c) if isinstance(p, ast.If) and M.pat(f"not fs.issym({entry})").matches(p.test)]
        ok = bool(guard) and any(A.contains_node(s, c) for s in guard[0].body)
        ctx.check("R1", ep, ok, f"symlink-skips:{d}", f"ensure_perms never calls {d} on a symlink entry", node=c)
    # the local that switches chmod on/off is whatever guards the chmod call together with "a mode is recorded"
    sw = M.one(ep.node, f"if $do_mode and $m is not None:\n    os.chmod({entry}.location, $m)")
    keep = [n for n in A.body_walk(ep.node) if isinstance(n, ast.If) and M.pat(f"fs.isdir({entry}) and fs.isdir({live})").matches(n.test)]
    sets = [v for _, v, _ in A.assignments(keep[0], sw["do_mode"])] if keep and sw is not None else []   # assignments in the if-branch only
    ok = bool(sets) and all(A.is_const(v, False) for v in sets)
    ctx.check("R1", ep, ok, "existing-dir-keeps-mode", "a directory that already exists keeps its own mode")
    # every call targets the entry's own location
    for d, c in os_calls(ep):
        ctx.check("R1", ep, A.unparse(c.args[0]) == f"{entry}.location", f"target:{d}", f"{d} is applied to the entry's own location", node=c)
    unknown_live_enforced(ctx, ep, live, "R1")
    # ownership is changed when the switch is on and EITHER id is recorded (-1 = "leave alone" for lchown, so a half-recorded
    # owner must still be applied); decided as a truth table over the three atoms of the guard, not by spelling
    from ..core import boolx
    lc = [c for d, c in os_calls(ep) if d == "os.lchown"][0]
    gd = [p for p in A.parents(lc) if isinstance(p, ast.If)]
    ids = [a.id for a in lc.args[1:3] if isinstance(a, ast.Name)]
    sws = [nm for nm in (A.names_in(gd[0].test) if gd else ()) if nm not in ids]
    ctx.require(len(ids) == 2 and len(sws) == 1, "ensure_perms: guard of os.lchown (switch, uid, gid) not recognised")
    keys = boolx.atoms(gd[0].test)
    want = {sws[0], f"{ids[0]} == -1", f"{ids[1]} == -1"}
    ok = set(keys) == want and all(boolx.evaluate(gd[0].test, env) == (env[sws[0]] and not (env[f"{ids[0]} == -1"] and env[f"{ids[1]} == -1"]))
                                  for env in boolx.assignments(keys))
    ctx.check("R1", ep, ok, "chown-when-either-id-recorded", "os.lchown runs when ownership is to be enforced and at least one of uid / gid is recorded",
              f"ensure_perms guards os.lchown with `{A.unparse(gd[0].test)}`: that is not `{sws[0]} and ({ids[0]} != -1 or {ids[1]} != -1)`, so an entry that records only one of uid / gid keeps the creating process' ids (or a recorded owner is skipped)", node=gd[0])
    ctx.floor("R1", 13)

    # ---- R2 merge_contents ------------------------------------------------------------
    mc = P.func(MOD, "merge_contents")
    body = mc.node.body
    whiles = [n for n in body if isinstance(n, ast.While)]
    ctx.require(len(whiles) == 1, "merge_contents: retry loop not found")
    wl = whiles[0]
    dir_loop = [n for n in body if isinstance(n, ast.For)]
    ctx.require(dir_loop and dir_loop[0].lineno < wl.lineno, "merge_contents: directory pass not found before the file pass")
    file_loops = [n for n in ast.walk(wl) if isinstance(n, ast.For)]
    ctx.require(len(file_loops) == 1 and isinstance(file_loops[0].target, ast.Name), "merge_contents: loop over the non-directory entries not found inside the retry loop")
    fl = file_loops[0]
    xv = fl.target.id                      # the entry being merged, however the loop variable is spelled
    diter, fiter = A.unparse(dir_loop[0].iter), A.unparse(fl.iter)
    sorts = [n for n in body if isinstance(n, ast.Expr) and M.pat("$d.sort()").matches(n.value, {"d": diter}) and n.lineno < dir_loop[0].lineno]
    ctx.check("R2", mc, bool(sorts), "dirs-sorted", "directories are sorted (parents first) before being created")
    dsrc = [v for t, v, st in A.assignments(mc.node, diter) if M.has(v, "cset.iterdirs()") and st.lineno < dir_loop[0].lineno]
    fsrc = [v for t, v, st in A.assignments(mc.node, fiter) if M.has(v, "cset.iterdirs(invert=True)") and st.lineno < wl.lineno]
    ctx.check("R2", mc, bool(dsrc) and bool(fsrc), "two-passes", "directories come from iterdirs(), everything else from iterdirs(invert=True)")
    tbl = [(t, v, st) for t, v, st in A.assignments(mc.node) if isinstance(t, ast.Name) and isinstance(v, ast.Dict) and not v.keys]
    cand = [c for c in A.calls(wl) if A.call_attr(c) == "setdefault"]
    ctx.require(tbl and cand, "merge_contents: hardlink candidate table not found")
    tname = A.unparse(cand[0].func.value)
    decl = [st for t, v, st in tbl if t.id == tname]
    ctx.require(decl, f"merge_contents: declaration of {tname} not found")
    inside = any(p is wl for p in A.parents(decl[0]))
    ctx.check("R2", mc, not inside and decl[0].lineno < wl.lineno, "hardlink-table-outlives-retry",
              "the hardlink-candidate table is created once, before the retry loop",
              f"`{tname} = {{}}` is (re)created inside the retry loop: after a tolerated symlink-over-directory conflict the table is reset and later members of a hardlink group are copied as new inodes", node=decl[0])
    # roles inside the file pass: $key = the table key, $cands = the group's earlier members, $x = the entry
    grp = M.one(fl, "$cands = $tbl.setdefault($key, [])", {"tbl": tname})
    keys = [v for t, v, _ in A.assignments(fl, grp["key"])] if grp else []
    ctx.check("R2", mc, bool(keys) and all(M.pat("($x.dev, $x.inode)").matches(v, {"x": xv}) for v in keys), "hardlink-key", "hardlink candidates are keyed by (dev, inode) of the source entry")
    att = M.one(fl, "if any(($t._can_be_hardlinked($x) and do_link($t, $x) for $t in $cands)):\n    continue\n$cands.append($x)", {"x": xv, "cands": grp["cands"]}) if grp else None
    ctx.check("R2", mc, att is not None, "hardlink-attempt", "a file is linked to an earlier member only if their recorded attributes allow it and do_link succeeds")
    cf = [c for c in A.calls(wl) if dotted(c.func) == "copyfile"]
    ok = len(cf) == 1 and M.pat("copyfile($x, mkdirs=True)").matches(cf[0], {"x": xv}) is not None and getattr(A.stmt_of(cf[0]), "_parent", None) is fl
    ctx.check("R2", mc, ok, "copies-rest", "every other non-directory entry goes through copyfile(x, mkdirs=True)")
    cont = [n for n in ast.walk(wl) if isinstance(n, ast.Continue)]
    ctx.check("R2", mc, len(cont) == 1 and att is not None and getattr(cont[0], "_parent", None) is att.node, "skip-only-when-linked", "copyfile is skipped only when a hardlink was made")
    ctx.floor("R2", 7)

    # ---- R3 copyfile applies metadata to the path it wrote ---------------------------------
    cp = P.func(MOD, "copyfile")
    writers = [c for c in A.calls(cp.node) if dotted(c.func) in ("os.symlink", "os.mkfifo", "os.mknod") or A.call_attr(c) == "transfer_to_path"]
    ctx.require(len(writers) >= 4, "copyfile: content writers not found")
    dests = set()
    for c in writers:
        a = c.args[1] if dotted(c.func) == "os.symlink" else c.args[0]
        dests.add(A.unparse(a))
    ctx.check("R3", cp, len(dests) == 1, "single-write-target", f"all content writers of copyfile write to one path variable ({sorted(dests)})")
    wvar = sorted(dests)[0]
    epc = [c for c in A.calls(cp.node) if dotted(c.func) == "ensure_perms"]
    ctx.require(len(epc) == 1, "copyfile: ensure_perms call not found")
    arg = epc[0].args[0]
    loc = None
    if isinstance(arg, ast.Call) and A.call_attr(arg) == "change_attributes":
        loc = next((A.unparse(k.value) for k in arg.keywords if k.arg == "location"), None)
    ctx.check("R3", cp, loc == wvar, "perms-on-written-path",
              f"ownership/mode/mtime are applied to `{wvar}`, the path the data was written to",
              f"copyfile applies ownership/mode/mtime via `{A.unparse(epc[0])}` instead of to `{wvar}` where the data went: when the destination pre-exists the staged copy keeps umask defaults and the OLD object (or a symlink's target) gets the package's metadata", node=epc[0])
    g2 = cfg_of(cp.node)
    ren = [c for c in A.calls(cp.node) if dotted(c.func) == "os.rename"]
    ctx.require(len(ren) == 1, "copyfile: final rename not found")
    doms = g2.dominators()
    ctx.check("R3", cp, g2.node_of(epc[0]) in doms.get(g2.node_of(ren[0]), ()), "perms-before-rename", "metadata is complete before the staged copy is renamed into place",
              "copyfile renames the staged copy into place before applying its ownership/mode/mtime", node=ren[0])
    ctx.floor("R3", 3)

    # ---- R4 allow-list ----------------------------------------------------------------------
    for fname, allowed in ALLOWED.items():
        f = P.func(MOD, fname)
        for d, c in os_calls(f):
            ctx.check("R4", f, d in allowed, f"primitive:{d}", f"{fname} uses allow-listed primitive {d}", f"{fname} calls {d}, which is not on the merge path's allow-list {sorted(allowed)}", node=c)
            ok = bool(c.args) and from_location(f, c.args[0]) or d in ("os.rename", "os.link", "os.symlink")
            ctx.check("R4", f, ok, f"path-arg:{d}", f"{d}'s path derives from the entry's location", f"{fname}: `{A.unparse(c)[:60]}` operates on a path that does not derive from the entry", node=c)
    unl = [c for d, c in os_calls(mc) if d == "os.unlink"]
    ok = len(unl) == 1 and any(isinstance(p, ast.ExceptHandler) and "FileExistsError" in A.unparse(p.type) for p in A.parents(unl[0]))
    ctx.check("R4", mc, ok, "unlink-only-dangling", "merge_contents unlinks only to replace a dangling symlink that blocks mkdir")
    ctx.floor("R4", 10)


MUTANTS = [
    {"name": "chown-after-chmod", "file": "src/pkgcore/fs/ops.py", "old": "    if do_chown and (o != -1 or g != -1):\n        os.lchown(d1.location, o, g)\n    if not fs.issym(d1):\n        if do_mode and m is not None:\n            os.chmod(d1.location, m)\n        if do_mtime and t is not None:\n            os.utime(d1.location, (t, t))\n", "new": "    if not fs.issym(d1):\n        if do_mode and m is not None:\n            os.chmod(d1.location, m)\n        if do_mtime and t is not None:\n            os.utime(d1.location, (t, t))\n    if do_chown and (o != -1 or g != -1):\n        os.lchown(d1.location, o, g)\n", "rule": "R1"},
    {"name": "hardlink-table-in-loop", "file": "src/pkgcore/fs/ops.py", "old": "    merged_inodes = {}\n    while True:\n        try:\n", "new": "    while True:\n        merged_inodes = {}\n        try:\n", "rule": "R2"},
    {"name": "perms-on-final-path", "file": "src/pkgcore/fs/ops.py", "old": "    ensure_perms(obj.change_attributes(location=fp))\n", "new": "    ensure_perms(obj)\n", "rule": "R3"},
    {"name": "existing-dir-chmod", "file": "src/pkgcore/fs/ops.py", "old": "                # if it's preexisting, keep its perms.\n                do_mode = False", "new": "                # if it's preexisting, keep its perms.\n                do_mode = m is not None", "rule": "R1"},
    {"name": "symlink-chmod", "file": "src/pkgcore/fs/ops.py", "old": "    if not fs.issym(d1):\n        if do_mode and m is not None:", "new": "    if True:\n        if do_mode and m is not None:", "rule": "R1"},
    {"name": "rmtree-on-conflict", "file": "src/pkgcore/fs/ops.py", "old": "            except FileExistsError:\n                os.unlink(x.location)\n                mkdir(x)", "new": "            except FileExistsError:\n                os.remove(x.location)\n                mkdir(x)", "rule": "R4"},
    {"name": "hardlink-key-inode-only", "file": "src/pkgcore/fs/ops.py", "old": "                    key = (x.dev, x.inode)", "new": "                    key = x.inode", "rule": "R2"},
]
TWINS = []
