"""C11 — stacked USE configuration applies entries in order, including -* resets (structural clauses)."""
import ast

from ..core import generic as G
from ..core import astutil as A
from ..core import match as M
from ..core.model import dotted

META = {
    "technique": "producer/consumer agreement on the wildcard negation tokens ('*', 'PREFIX_*') between the chunk consumer and every rewriter that collapses chunk streams; identity (aliasing) rule for the shared global-settings list captured by the per-key default factory; slice-origin rule for the package.use splitter; delta-filter decision rule of the collapse's second pass; interleaving rule of update_from_stream",
    "level": "Decides: (R1) the collapse optimiser treats the wildcard negations the consumer gives a non-local meaning ('*' clears everything earlier, 'X_*' clears a prefix) specially instead of as ordinary flags; (R2) package_use_splitter emits only the tokens after the last bare '-*' (slices start at the reset index), turns '-*' inside a USE_EXPAND group into '-<group>_*' and validates every flag; (R3) the list of global chunks that the per-package default factory captured is only ever mutated in place - rebinding it is allowed only together with rebinding the dict; clone/freeze copy both; (R4) in the collapse's second pass a specific negation is dropped only when the collapsed global chunk already disables that flag and a specific enable only when it already enables it (unknown flags keep both); (R5) a package-specific entry is appended only after the key's list was brought up to date with the globals. Does NOT decide rendered flag sets for concrete histories.",
    "note": "chunks are (key, neg, pos) triples; incremental_chunked is the single consumer of rendered chunk streams",
}
META["technique"] += "; " + 'effect analysis on the render/lookup functions; positive-identification rule for the global fold'
META["level"] += " Added after the second round of independent changes: " + '(R6) render_pkg / render_to_dict / pull_data and the collapse builder write only to objects they created (incremental_* only to their accumulator); (R7) a chunk is folded into the collapsed global chunk only under a positive test (AlwaysTrue / is_simple), never by exclusion.'
META["technique"] += "; " + 'generic pack G on the anchored files (optional-flag shift, closures outliving a loop iteration, single-pass iterables consumed twice, %-templates built from data, in-place writes to class-level / memoised objects, generators mutating what they yielded, memo keys that are projections)'
MISC = "pkgcore.ebuild.misc"


META["technique"] += "; filter rule on render_pkg (every applied chunk passed `.match(pkg)`)"
META["level"] += " (R8) ChunkedDataDict.render_pkg and PayloadDict.render_pkg apply only chunks filtered by `<restriction>.match(pkg)`, whichever list they come from."


def run(ctx):
    P = ctx.program
    ctx.explanation = META["level"]
    cons = P.func(MISC, "incremental_chunked")
    bld = P.func(MISC, "_build_cp_atom_payload")
    # ---- R1 -----------------------------------------------------------------
    # the wildcard tokens the consumer gives a non-local meaning: constants looked up in a chunk's `.neg`, suffix tests on its flags
    special = set()
    for n in A.body_walk(cons.node):
        if isinstance(n, ast.Compare) and isinstance(n.ops[0], ast.In) and isinstance(n.left, ast.Constant) and isinstance(n.comparators[0], ast.Attribute) and n.comparators[0].attr == "neg":
            special.add(n.left.value)
        if isinstance(n, ast.Call) and A.call_attr(n) == "endswith" and n.args and isinstance(n.args[0], ast.Constant):
            special.add(n.args[0].value)
    ctx.require(special >= {"*", "_*"}, f"incremental_chunked: wildcard handling not found ({special})")
    ctx.check("R1", cons, M.has(cons.node, "for $c in iterables:\n    if '*' in $c.neg:\n        orig.clear()"), "consumer-star-clears", "the consumer clears everything earlier on a '*' negation")
    consts = set(A.str_constants(bld.node))
    for tok in sorted(special):
        ctx.check("R1", bld, any(tok == c or (tok == "_*" and c.endswith("_*")) for c in consts), f"rewriter-knows:{tok}",
                  f"the collapse optimiser handles the wildcard negation token {tok!r} specially",
                  f"_build_cp_atom_payload never looks for the wildcard negation {tok!r}: it locks it like an ordinary flag, so a global `+x` followed by a global `-*` collapses into one chunk (neg=*, pos=x) and x survives the reset")
    users = [f.qual for f in P.all_funcs() for c in A.calls(f.node) if (dotted(c.func) or "").split(".")[-1] in ("_build_cp_atom_payload", "_cached_build_cp_atom_payload")]
    ctx.check("R1", bld, len(users) >= 4, "rewriter-users", f"the collapse feeds optimise/expand-globals/render paths ({sorted(set(users))})")
    ctx.floor("R1", 4)

    # ---- R2 splitter -----------------------------------------------------------------
    sp = P.func("pkgcore.ebuild.domain", "package_use_splitter.<locals>.f")
    tok = sp.params()[0]
    sl = [n for n in A.body_walk(sp.node) if isinstance(n, ast.Subscript) and A.unparse(n.value) == tok and isinstance(n.slice, ast.Slice)]
    ctx.require(len(sl) >= 2, "package_use_splitter: token slices not found")
    # the start index is located by its role: it starts at 0 and the scan over the tokens moves it to the position of a bare '-*'
    scan = M.one(sp.node, "$start = 0\nfor $idx, $flag in enumerate($_):\n    if $flag == '-*':\n        $start = $idx")
    start = scan["start"] if scan else None
    for n in sl:
        lo = A.unparse(n.slice.lower) if n.slice.lower is not None else None
        ctx.check("R2", sp, start is not None and lo == start, f"slice-from-reset@{A.unparse(n)}", f"`{A.unparse(n)}` starts at the index of the last bare '-*'",
                  f"package_use_splitter emits `{A.unparse(n)}`: flags written before a bare '-*' on the same line are emitted again and stay enabled", node=n)
    reset = [m.node for m in M.find(sp.node, "if $f == '-*':\n    ...")]
    outer_m = M.one(sp.node, "if $flag == '-*':\n    $start = $idx", scan.env) if scan else None
    ctx.check("R2", sp, len(reset) >= 2 and outer_m is not None, "reset-index", "a bare '-*' moves the start index to itself")
    inner = [r for r in reset if outer_m is None or r is not outer_m.node]
    ok = False
    group_pat = M.pat("if $f == '-*':\n    $buf.clear()\n    yield f'-{$$group}_*'")
    for r in inner:
        ys = [y for s_ in r.body for y in ast.walk(s_) if isinstance(y, ast.Yield) and isinstance(y.value, ast.JoinedStr)]
        clears = [c for s_ in r.body for c in A.calls(s_) if A.call_attr(c) == "clear"]
        if ys and clears:
            g = group_pat.matches(r)
            # ... and the buffer that is dropped is the one the group's flags are collected in and emitted from
            ok = g is not None and M.has(sp.node, "$buf.append($_)", {"buf": g["buf"]}) and M.has(sp.node, "yield from $buf", {"buf": g["buf"]})
    ctx.check("R2", sp, ok, "group-reset", "'-*' inside a USE_EXPAND group drops the group's buffered flags and emits '-<group>_*'",
              "package_use_splitter no longer turns '-*' inside a USE_EXPAND group into '-<group>_*': the group's earlier flags (from other layers) are not cleared")
    valid = [c for c in A.calls(sp.node) if A.call_attr(c) == "is_valid_use_flag"]
    ctx.check("R2", sp, len(valid) == 2, "flags-validated", "plain and expanded flags are validated")
    ctx.floor("R2", 5)

    # ---- R3 identity of the shared globals list -------------------------------------------
    K = P.cls(MISC, "ChunkedDataDict")
    init = K.methods["__init__"]
    ctx.check("R3", init, M.has(init.node, "self._global_settings = []\nself._dict = defaultdict(partial(list, self._global_settings))"), "factory-captures-list", "new keys start from a copy of the live globals list (captured by the default factory)")
    for name, m in sorted(K.methods.items()):
        rebinds = [st for t, v, st in A.assignments(m.node) if A.unparse(t) == "self._global_settings"]
        if not rebinds or name == "__init__":
            continue
        dict_rebinds = [st for t, v, st in A.assignments(m.node) if A.unparse(t) == "self._dict"]
        ctx.check("R3", m, bool(dict_rebinds), f"rebinding-globals:{name}", f"{name} rebinds the globals list only together with the dict (freeze/optimize-frozen)",
                  f"ChunkedDataDict.{name} rebinds self._global_settings while self._dict keeps the default factory bound to the OLD list: keys first created later start from stale globals", node=rebinds[0])
    eg = K.methods["_expand_globals"]
    ctx.check("R3", eg, M.has(eg.node, "self._global_settings.extend(new_globals)") and M.has(eg.node, "self._global_settings[:] = $_"), "expand-in-place", "_expand_globals extends and re-collapses the globals list in place")
    cl = K.methods["clone"]
    ctx.check("R3", cl, M.has(cl.node.body, "$o = self.__class__()\nfor $k, $vs in self._dict.items():\n    $o._dict[$k].extend($vs)\n$o._global_settings = list(self._global_settings)\nreturn $o"),
              "clone-copies-both", "clone copies both the per-key lists and the globals")
    fr = K.methods["freeze"]
    ctx.check("R3", fr, M.has(fr.node, "self._dict = mappings.ImmutableDict($_)\nself._global_settings = tuple(self._global_settings)"), "freeze-both", "freeze freezes both")
    ctx.floor("R3", 5)

    # ---- R4 second-pass delta filter ----------------------------------------------------------
    # the lock table and its two bound-method aliases are located by how they are produced, not by their names
    tbl = M.one(bld.node, "$locked = {}\n$ldefault = $locked.setdefault")
    E = dict(tbl.env) if tbl else {}
    getter = M.one(bld.node, "$lget = $locked.get", E)
    ctx.require(getter is not None, "_build_cp_atom_payload: `locked.get` alias not found")
    second = M.find(bld.node, "for $key, $neg, $pos in reversed($l):\n    ...", getter.env)
    ctx.require(second, "_build_cp_atom_payload: second pass not found")
    loop, E2 = second[-1].node, second[-1].env
    filt = {A.unparse(t): A.unparse(v) for n in loop.body if isinstance(n, ast.Assign) for t, v in [(n.targets[0], n.value)]}
    ctx.check("R4", bld, M.has(loop.body, "$neg = tuple(($x for $x in $neg if $lget($x, True)))", E2), "neg-delta", "a specific '-x' is dropped only if the collapsed global already disables x (unknown flags keep their negation)",
              f"second pass filters negations with `{filt.get(E2['neg'])}`: a specific '-x' (or '-*') for a flag the global chunk never mentions is silently dropped")
    ctx.check("R4", bld, M.has(loop.body, "$pos = tuple(($y for $y in $pos if not $lget($y, False)))", E2), "pos-delta", "a specific 'x' is dropped only if the collapsed global already enables x",
              f"second pass filters enables with `{filt.get(E2['pos'])}`")
    # first pass: the loop over the reversed input that feeds the lock table
    first = M.one(bld.node, "$i = reversed($i)\nfor $data in $i:\n    ...")
    fl = None
    if first is not None:
        f_ = M.one(bld.node, "for $data in $i:\n    ...", first.env)
        fl = f_.node if f_ else None
    ctx.check("R4", bld, fl is not None and tbl is not None and M.has(fl, "for $n in $data.neg:\n    $ldefault($n, False)", {**E, "data": first["data"]}) and M.has(fl, "for $p in $data.pos:\n    $ldefault($p, True)", {**E, "data": first["data"]}),
              "rightmost-wins", "walking right to left, the first (rightmost) mention of a flag in a global chunk decides it")
    ctx.check("R4", bld, first is not None and M.has(bld.node, "$i = list(sequence)\n$i = reversed($i)", {"i": first["i"]}), "right-to-left", "globals are traced right to left")
    ctx.floor("R4", 4)

    # ---- R5 update_from_stream interleaving -----------------------------------------------------
    ufs = K.methods["update_from_stream"]
    ctx.check("R5", ufs, M.has(ufs.node, "for $c in stream:\n    if $_:\n        $new = ($x for $x in self._global_settings if $x not in self._dict[$c.key.key])\n        self._dict[$c.key.key].extend($new)\n        self._dict[$c.key.key].append($c)"),
              "globals-before-specific", "before appending a specific chunk the key's list receives the globals it has not seen yet")
    ctx.check("R5", ufs, M.has(ufs.node, "for $c in stream:\n    if getattr($c.key, 'key', None) is not None:\n        ...\n    else:\n        self.add_global($c)"), "globals-go-global", "a non-atom chunk is added as a global")
    ag = K.methods["_add_global"]
    ok = M.has(ag.node.body, "$payload = self.mk_item(...)\nfor $vals in self._dict.values():\n    $vals.append($payload)\nself._expand_globals([$payload])")
    ctx.check("R5", ag, ok, "global-reaches-all-keys", "a new global is appended to every existing key and to the globals list")
    mg = K.methods["merge"]
    ok = M.has(mg.node.body, "$d = self._dict\n$new = cdict._global_settings\nif $new:\n    $untouched = set($d)\n    $untouched.difference_update(cdict._dict)\n    for $k in $untouched:\n        $d[$k].extend($new)\n    self._expand_globals($new)")
    ctx.check("R5", mg, ok, "merge-globals-to-untouched", "merge appends the merged globals to the keys the merged dict did not touch")
    ctx.floor("R5", 4)

    # ---- R6 rendering per-package data is read-only on the stored tables ---------------------------------------------
    G.pure(ctx, "R6", [(MISC, q, (), "a lookup that edits the stored tables changes what the next package gets") for q in (
        "collapsed_restrict_to_data.pull_data", "collapsed_restrict_to_data.iter_pull_data", "non_incremental_collapsed_restrict_to_data.pull_data",
        "non_incremental_collapsed_restrict_to_data.iter_pull_data", "ChunkedDataDict.render_pkg", "ChunkedDataDict.render_to_dict",
        "ChunkedDataDict.render_to_payload", "PayloadDict.render_pkg", "_build_cp_atom_payload", "optimize_incrementals", "incremental_expansion_license") if P.func_opt(MISC, q)]
    + [(MISC, q, ("param:orig",), "orig= is the documented accumulator; nothing else may be written") for q in ("incremental_expansion", "incremental_chunked")])
    ctx.floor("R6", 8)
    # ---- R7 only chunks KNOWN to apply to every package are folded into the collapsed global chunk --------------------
    folds = []
    for loop in [n for n in A.body_walk(bld.node) if isinstance(n, ast.For)]:
        for st in loop.body:
            if isinstance(st, ast.If) and any(isinstance(x, ast.Continue) for x in st.body) and any(isinstance(c, ast.Call) for b_ in st.body for c in ast.walk(b_)):
                folds.append((loop, st))
    ctx.require(folds, "_build_cp_atom_payload: the fold-into-global arm (lock flags, continue) not found")
    for loop, st in folds:
        negs = [n for n in ast.walk(st.test) if isinstance(n, ast.UnaryOp) and isinstance(n.op, ast.Not)] + \
               [n for n in ast.walk(st.test) if isinstance(n, ast.Compare) and any(isinstance(o, (ast.NotEq, ast.IsNot, ast.NotIn)) for o in n.ops)]
        positive = any(isinstance(n, ast.Attribute) and n.attr == "AlwaysTrue" for n in ast.walk(st.test)) and any(
            (isinstance(n, ast.Constant) and n.value == "is_simple") or (isinstance(n, ast.Attribute) and n.attr == "is_simple") for n in ast.walk(st.test))
        ctx.check("R7", bld, positive and not negs, "global-fold-positive-test",
                  "a chunk is folded into the global only when its restriction is positively identified as universal (AlwaysTrue, or a simple cat/pkg atom for the per-key collapse)",
                  f"the fold-into-global test `{A.unparse(st.test)[:80]}` classifies by exclusion: every restriction that is not explicitly recognised (a category or package "
                  f"glob such as dev-libs/*) is folded into the collapsed global chunk and its flags apply to packages it does not match", node=st)
    ctx.floor("R7", 1)

    # ---- R8 a package is only given chunks whose restriction matches it -----------------------------------------------
    # (also the "global" list holds keyed chunks: category / package globs land there)
    for q in ("ChunkedDataDict.render_pkg", "PayloadDict.render_pkg"):
        rp = P.func(MISC, q)
        pkgp = rp.params()[1]
        appl = [c for c in A.calls(rp.node) if (dotted(c.func) or "") in ("incremental_chunked", "incremental_expansion")]
        ctx.require(appl, f"{q}: the application of the chunks (incremental_chunked / incremental_expansion) not found")
        for c in appl:
            data = c.args[1] if dotted(c.func) == "incremental_chunked" and len(c.args) > 1 else (c.args[0] if c.args else None)

            def filtered(e, depth=0):
                if e is None or depth > 3:
                    return False
                if isinstance(e, ast.Name):
                    ds = [v for t, v, _ in A.assignments(rp.node, e.id)]
                    return bool(ds) and all(filtered(v, depth + 1) for v in ds)
                comps = [n for n in ast.walk(e) if isinstance(n, (ast.GeneratorExp, ast.ListComp))]
                return any(any((A.call_attr(x) == "match" and x.args and A.unparse(x.args[0]) == pkgp) for i_ in g_.ifs for x in ast.walk(i_) if isinstance(x, ast.Call))
                           for cmp_ in comps for g_ in cmp_.generators)
            ctx.check("R8", rp, filtered(data), f"chunks-filtered-by-match:{q.split('.')[0]}", f"{q}: every chunk applied was tested with `.match({pkgp})`",
                      f"{q} applies `{A.unparse(data)[:60] if data is not None else '?'}` without testing each chunk's restriction against the package: keyed chunks kept in the "
                      f"global list (category / package globs) are applied to packages they do not match", node=c)
    ctx.floor("R8", 2)


MUTANTS = [
    {"name": "splitter-slice-from-zero", "file": "src/pkgcore/ebuild/domain.py", "old": "                yield from tokens[start_idx:idx]", "new": "                yield from tokens[:idx]", "rule": "R2"},
    {"name": "globals-rebound", "file": "src/pkgcore/ebuild/misc.py", "old": "            self._global_settings[:] = list(\n                _build_cp_atom_payload(self._global_settings, restrict)\n            )", "new": "            self._global_settings = list(\n                _build_cp_atom_payload(self._global_settings, restrict)\n            )", "rule": "R3"},
    {"name": "neg-delta-default", "file": "src/pkgcore/ebuild/misc.py", "old": "        neg = tuple(x for x in neg if lget(x, True))\n        pos = tuple(x for x in pos if not lget(x, False))", "new": "        neg = tuple(x for x in neg if lget(x))\n        pos = tuple(x for x in pos if not lget(x))", "rule": "R4"},
    {"name": "specific-before-globals", "file": "src/pkgcore/ebuild/misc.py", "old": "                self._dict[cinst.key.key].extend(new_globals)\n                self._dict[cinst.key.key].append(cinst)", "new": "                self._dict[cinst.key.key].append(cinst)", "rule": "R5"},
    {"name": "clone-shares-globals", "file": "src/pkgcore/ebuild/misc.py", "old": "        obj._global_settings = list(self._global_settings)\n        return obj", "new": "        obj._global_settings = self._global_settings\n        return obj", "rule": "R3"},
    {"name": "group-reset-lost", "file": "src/pkgcore/ebuild/domain.py", "old": "                    if flag == \"-*\":\n                        buffer.clear()\n                        yield f\"-{use_expand}_*\"\n                        continue", "new": "                    if flag == \"-*\":\n                        buffer.clear()\n                        continue", "rule": "R2"},
]
TWINS = []

MUTANTS += [
    {"name": "payload-render-unfiltered", "file": "src/pkgcore/ebuild/misc.py", "old": "            item.data for item in items if item.restrict.match(pkg)\n", "new": "            item.data for item in items\n", "rule": "R8"},
]
