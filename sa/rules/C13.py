"""C13 — package visibility follows mask, keyword and license configuration (structural clauses)."""
import ast
import itertools

from ..core import astutil as A
from ..core import boolx
from ..core.dtable import Walker
from ..core.model import dotted

META = {
    "technique": "composition rule of the visibility filter (negated masks OR unmasks, AND keyword/license filters, sentinel polarity), layering rule of the mask stack (repo masks are the bottom layer that profile negations can cancel; user masks on top), decision table of the keyword acceptance function by path enumeration over opaque predicates incl. the empty-KEYWORDS row, wildcard-awareness rule for every restriction the keyword filter factory can return, order-preservation rule of the license token stream",
    "level": "Decides: (R1) generate_filter builds And(Or(not masked, unmasked) or just not masked, *extra) and filter_repo filters with sentinel True; masks = repo masks, then each profile layer's (-removals, +additions) in order, then user masks; unmasks likewise; (R2) _apply_keywords_filter accepts on '**' regardless of the package's keywords, on '*' for any keyword not starting with '-' or '~', on '~*' for any '~' keyword, else on membership; every restriction _make_keywords_filter can return either routes through that function or is only used when no wildcard token is accepted; an empty accept entry means ~ARCH exactly on a stable system; (R3) the license filter expands ACCEPT_LICENSE followed by the matching package.license tokens, in that order and without de-duplication (the stream is order-sensitive), per alternative of the package's LICENSE, and compares with issuperset. Does NOT decide visibility for concrete configurations.",
    "note": "atom.match, incremental_expansion_license (C12) and the DNF of LICENSE (C06) are taken as given",
}
DM = "pkgcore.ebuild.domain"


def run(ctx):
    P = ctx.program
    ctx.explanation = META["level"]
    gf = P.func(DM, "generate_filter")
    fr = P.func(DM, "domain.filter_repo")
    # ---- R1 composition ---------------------------------------------------------
    mk = {A.unparse(t): v for t, v, _ in A.assignments(gf.node) if isinstance(v, ast.Call) and dotted(v.func) == "make_mask_filter"}
    ctx.require(set(mk) >= {"masking", "unmasking"}, "generate_filter: masking/unmasking filters not found")
    def kw(c, name):
        return next((A.try_literal(k.value) for k in c.keywords if k.arg == name), None)
    ctx.check("R1", gf, A.unparse(mk["masking"].args[0]) == gf.params()[0] and kw(mk["masking"], "negate") is True, "masking-negated", "the mask filter is built from the masks, negated (a package passes when no mask matches)")
    ctx.check("R1", gf, A.unparse(mk["unmasking"].args[0]) == gf.params()[1] and kw(mk["unmasking"], "negate") in (False, None), "unmasking-positive", "the unmask filter is built from the unmasks, not negated")
    orc = [c for c in A.calls(gf.node) if dotted(c.func) == "packages.OrRestriction"]
    ctx.check("R1", gf, len(orc) == 1 and [A.unparse(a) for a in orc[0].args] == ["masking", "unmasking"], "mask-or-unmask", "visible = not masked OR unmasked")
    ret = A.returns(gf.node)
    ctx.check("R1", gf, len(ret) == 1 and isinstance(ret[0].value, ast.Call) and dotted(ret[0].value.func) == "packages.AndRestriction" and "r + extra" in A.unparse(ret[0].value), "and-extra", "mask logic AND every extra (keyword, license) filter")
    only_mask = [n for n in A.body_walk(gf.node) if isinstance(n, ast.Assign) and A.unparse(n.value) == "(masking,)"]
    ctx.check("R1", gf, bool(only_mask), "masks-without-unmasks", "without unmasks the mask filter alone decides")
    rr = A.returns(fr.node)
    ctx.check("R1", fr, len(rr) == 1 and A.unparse(rr[0].value) == "filtered.tree(repo, filters, True)", "sentinel-true", "the repository is filtered keeping packages that match the visibility restriction")
    # mask layering
    gm = [v for t, v, _ in A.assignments(fr.node, "global_masks")]
    ok = bool(gm) and A.unparse(gm[0]) == "[((), repo.pkg_masks)]"
    ctx.check("R1", fr, ok, "repo-masks-bottom-layer", "repository masks are the first (bottom) layer of the mask stack, so a profile's '-atom' can cancel them",
              "filter_repo no longer puts repo.pkg_masks at the bottom of the layered mask stack: a profile negation (-atom) cannot cancel a repository-level mask any more")
    ext = [c for c in A.calls(fr.node) if A.unparse(c.func) == "global_masks.extend" and A.unparse(c.args[0]) == "self.profile._incremental_masks"]
    ctx.check("R1", fr, len(ext) == 1, "profile-masks-after-repo", "profile mask layers follow the repository masks")
    loops = [n for n in A.body_walk(fr.node) if isinstance(n, ast.For)]
    for lp, coll, src in [(l, c, s) for l in loops for c, s in (("masks", "global_masks"), ("unmasks", "self.profile._incremental_unmasks")) if A.unparse(l.iter) == s]:
        body = [A.unparse(s) for s in lp.body]
        ctx.check("R1", fr, body == [f"{coll}.difference_update(neg)", f"{coll}.update(pos)"] and A.unparse(lp.target) == "(neg, pos)", f"layer-order:{coll}", f"each {coll} layer first removes its negations, then adds its additions", f"{coll} layer body is {body}", node=lp)
    txt = A.unparse(fr.node)
    i_loop = txt.find("masks.update(pos)")
    i_user = txt.find("masks.update(pkg_masks)")
    ctx.check("R1", fr, 0 <= i_loop < i_user, "user-masks-last", "user package.mask entries are added after the profile layers (a profile cannot cancel them)")
    ctx.check("R1", fr, txt.find("unmasks.update(pos)") < txt.find("unmasks.update(pkg_unmasks)") and "unmasks.update(pkg_unmasks)" in txt, "user-unmasks-last", "user package.unmask entries are added last")
    gfcall = [c for c in A.calls(fr.node) if dotted(c.func) == "generate_filter"]
    ctx.check("R1", fr, len(gfcall) == 1 and [A.unparse(a) for a in gfcall[0].args] == ["masks", "unmasks", "*pkg_filters"], "filter-call", "generate_filter(masks, unmasks, *pkg_filters)")
    ctx.floor("R1", 12)

    # ---- R2 keywords ---------------------------------------------------------------------------
    ak = P.func(DM, "domain._apply_keywords_filter")
    # decision table: atoms = membership of the three wildcards in `allowed`, plus per-keyword classes
    rows_bad = []
    n_rows = 0
    kinds = ["stable", "testing", "negative"]  # first char none / '~' / '-'
    for n in range(0, 3):
        for kws in itertools.product(kinds, repeat=n):
            for starstar, star, tstar in itertools.product([False, True], repeat=3):
                for member in itertools.product([False, True], repeat=n):
                    def oracle(e, env, w, kws=kws, member=member, starstar=starstar, star=star, tstar=tstar):
                        t = A.unparse(e)
                        if t == "'**' in allowed":
                            return starstar
                        if t == "'*' in allowed":
                            return star
                        if t == "'~*' in allowed":
                            return tstar
                        if isinstance(e, ast.Compare) and len(e.ops) == 1 and isinstance(e.left, ast.Subscript) and A.try_literal(e.left.slice) == 0:
                            v = env.get(A.unparse(e.left.value))
                            if isinstance(v, tuple) and v[0] == "child":
                                first = {"stable": "a", "testing": "~", "negative": "-"}[kws[v[1]]]
                                rhs = A.try_literal(e.comparators[0])
                                if isinstance(e.ops[0], ast.NotIn):
                                    return first not in rhs
                                if isinstance(e.ops[0], ast.In):
                                    return first in rhs
                                if isinstance(e.ops[0], ast.Eq):
                                    return first == rhs
                                if isinstance(e.ops[0], ast.NotEq):
                                    return first != rhs
                        if isinstance(e, ast.Compare) and isinstance(e.ops[0], ast.In) and A.unparse(e.comparators[0]) == "allowed" and isinstance(e.left, ast.Name):
                            v = env.get(e.left.id)
                            if isinstance(v, tuple) and v[0] == "child":
                                return member[v[1]]
                        if t == "data.pull_data(pkg)":
                            return ("opaque", "allowed")
                        if t in ("pkg.keywords",):
                            return ("children",)
                        if isinstance(e, ast.Call) and dotted(e.func) == "any" and isinstance(e.args[0], ast.GeneratorExp):
                            g = e.args[0]
                            gen = g.generators[0]
                            if A.unparse(gen.iter) == "pkg_keywords":
                                res = False
                                for i in range(w.n):
                                    env2 = dict(env)
                                    env2[gen.target.id] = ("child", i)
                                    if all(w.truth(w.ev(c, env2)) for c in gen.ifs):
                                        res = True
                                return res
                        return NotImplemented
                    w = Walker(oracle, ("pkg_keywords",), n)
                    # skip the profile.keywords augmentation loop: treat self.profile.keywords as empty
                    fn = ast.FunctionDef(name="f", args=ak.node.args, body=[s for s in ak.node.body if not (isinstance(s, ast.For) and "self.profile.keywords" in A.unparse(s.iter))], decorator_list=[])
                    try:
                        res = w.run(fn, {"pkg_keywords": ("children",), "allowed": ("opaque", "allowed")})
                    except Exception as e:
                        ctx.require(False, f"_apply_keywords_filter: decision-table walk failed: {e}")
                    want = starstar or (star and any(k == "stable" for k in kws)) or (tstar and any(k == "testing" for k in kws)) or any(member)
                    n_rows += 1
                    if bool(res) != want:
                        rows_bad.append((kws, starstar, star, tstar, member, res, want))
    ctx.ob("R2", ak, f"_apply_keywords_filter decision table: {n_rows} rows (0-2 keywords x kinds x wildcard flags x membership)")
    if rows_bad:
        kws, ss, s_, ts, mem, res, want = rows_bad[0]
        ctx.fail("R2", ak, f"keyword-table:{len(kws)}kw:**={ss},*={s_},~*={ts}", f"_apply_keywords_filter: package keywords of kinds {list(kws)} (in accept set: {list(mem)}), accept set contains **={ss} *={s_} ~*={ts}: returns {res!r}, expected {want} ({len(rows_bad)} of {n_rows} rows differ)", node=ak.node)
    prof = [s for s in ak.node.body if isinstance(s, ast.For) and "self.profile.keywords" in A.unparse(s.iter)]
    ctx.check("R2", ak, bool(prof) and "pkg_keywords += keywords" in A.unparse(prof[0]) and "atom.match(pkg)" in A.unparse(prof[0]), "profile-keywords-added", "matching profile package.keywords entries extend the package's keywords")
    mkf = P.func(DM, "domain._make_keywords_filter")
    for r in A.returns(mkf.node):
        v = A.unparse(r.value)
        if "_apply_keywords_filter" in v:
            ctx.ob("R2", mkf, "slow path routes through _apply_keywords_filter", node=r)
            continue
        guards = [p for p in A.parents(r) if isinstance(p, ast.If)]
        ok = False
        for g in guards:
            ats = boolx.atoms(g.test)
            wild = [a for a in ats if "'*'" in a and "'~*'" in a and "'**'" in a and "intersection" in a]
            if wild and boolx.forced_outcome(g.test, {wild[0]: True}) is False:
                ok = True
        ctx.check("R2", mkf, ok, "fast-path-wildcard-guard", "the plain containment shortcut is only taken when no wildcard keyword is accepted",
                  f"_make_keywords_filter returns `{v[:70]}` without checking for '**', '*' or '~*' in the accepted keywords: the wildcards are compared literally and accept nothing", node=r)
    stab = [n for n in A.body_walk(mkf.node) if isinstance(n, ast.If) and A.unparse(n.test) == "self.unstable_arch not in default_keys"]
    ctx.require(stab, "_make_keywords_filter: stable-system branch not found")
    inner = [n for n in stab[0].body if isinstance(n, ast.FunctionDef)]
    ok = bool(inner) and A.unparse(inner[0].body[0]).replace("\n", " ").startswith("if not v:") and "return (r, self.unstable_arch)" in A.unparse(inner[0])
    ctx.check("R2", mkf, ok, "empty-entry-means-unstable", "on a stable system an accept entry without keywords means ~ARCH")
    ctx.check("R2", mkf, any("non_incremental_collapsed_restrict_to_data" in A.unparse(s) for s in stab[0].orelse), "unstable-system-plain", "on an unstable system entries are taken as written")
    ctx.floor("R2", 5)

    # ---- R3 license -----------------------------------------------------------------------------
    al = P.func(DM, "domain._apply_license_filter")
    raw = [(t, v) for t, v, _ in A.assignments(al.node) if A.unparse(t) == "raw_accepted_licenses"]
    ctx.require(raw, "_apply_license_filter: token stream not found")
    ctx.check("R3", al, A.unparse(raw[0][1]) == f"{al.params()[1]} + matched_pkg_licenses", "license-stream-order",
              "the token stream is ACCEPT_LICENSE followed by the matching package.license tokens, unmodified",
              f"_apply_license_filter builds the token stream as `{A.unparse(raw[0][1])}`: the stream is order-sensitive (-*, @group, repeated tokens), de-duplicating or reordering it changes which licenses are accepted")
    lp = [n for n in A.body_walk(al.node) if isinstance(n, ast.For) and "dnf_solutions()" in A.unparse(n.iter)]
    ctx.check("R3", al, bool(lp) and A.unparse(lp[0].iter) == "pkg.license.dnf_solutions()", "per-alternative", "every alternative (DNF solution) of LICENSE is tried")
    call = [c for c in A.calls(al.node) if dotted(c.func) == "incremental_expansion_license"]
    ok = len(call) == 1 and [A.unparse(a) for a in call[0].args[:4]] == ["pkg", A.unparse(lp[0].target) if lp else "", "license_manager.groups", "raw_accepted_licenses"]
    ctx.check("R3", al, ok, "expansion-call", "the accepted set is expanded for this package / alternative with the repository's license groups")
    sup = [n for n in A.body_walk(al.node) if isinstance(n, ast.If) and "issuperset" in A.unparse(n.test)]
    ctx.check("R3", al, bool(sup) and A.unparse(sup[0].body[0]) == "return True" and A.unparse(al.node.body[-1]) == "return False", "superset-decides", "a package is accepted iff some alternative is a subset of the accepted set")
    coll = [n for n in A.body_walk(al.node) if isinstance(n, ast.For) and A.unparse(n.iter) == "self.pkg_licenses"]
    ctx.check("R3", al, bool(coll) and "matched_pkg_licenses += licenses" in A.unparse(coll[0]) and "atom.match(pkg)" in A.unparse(coll[0]), "matching-entries-in-order", "matching package.license entries are appended in file order")
    ctx.floor("R3", 5)


MUTANTS = [
    {"name": "repo-masks-last", "file": "src/pkgcore/ebuild/domain.py", "old": "        global_masks = [((), repo.pkg_masks)]\n        if profile:\n            global_masks.extend(self.profile._incremental_masks)\n        masks = set()\n        for neg, pos in global_masks:\n            masks.difference_update(neg)\n            masks.update(pos)\n", "new": "        global_masks = []\n        if profile:\n            global_masks.extend(self.profile._incremental_masks)\n        masks = set()\n        for neg, pos in global_masks:\n            masks.difference_update(neg)\n            masks.update(pos)\n        masks.update(repo.pkg_masks)\n", "rule": "R1"},
    {"name": "starstar-needs-keyword", "file": "src/pkgcore/ebuild/domain.py", "old": "        if \"**\" in allowed:\n            return True\n", "new": "        if \"**\" in allowed and pkg_keywords:\n            return True\n", "rule": "R2"},
    {"name": "license-dedup", "file": "src/pkgcore/ebuild/domain.py", "old": "        raw_accepted_licenses = master_licenses + matched_pkg_licenses", "new": "        raw_accepted_licenses = stable_unique(master_licenses + matched_pkg_licenses)", "rule": "R3"},
    {"name": "fast-path-unguarded", "file": "src/pkgcore/ebuild/domain.py", "old": "            and not self.profile.keywords\n            and not {\"*\", \"~*\", \"**\"}.intersection(default_keys)\n        ):", "new": "            and not self.profile.keywords\n        ):", "rule": "R2"},
    {"name": "mask-not-negated", "file": "src/pkgcore/ebuild/domain.py", "old": "    masking = make_mask_filter(masks, negate=True)", "new": "    masking = make_mask_filter(masks, negate=False)", "rule": "R1"},
    {"name": "star-accepts-testing", "file": "src/pkgcore/ebuild/domain.py", "old": "                if k[0] not in \"-~\":", "new": "                if k[0] not in \"-\":", "rule": "R2"},
    {"name": "layer-add-before-remove", "file": "src/pkgcore/ebuild/domain.py", "old": "        for neg, pos in global_masks:\n            masks.difference_update(neg)\n            masks.update(pos)", "new": "        for neg, pos in global_masks:\n            masks.update(pos)\n            masks.difference_update(neg)", "rule": "R1"},
]
TWINS = []
