"""C13 — package visibility follows mask, keyword and license configuration (structural clauses)."""
import ast
import itertools

from ..core import generic as G
from ..core import astutil as A
from ..core import boolx
from ..core import match as M
from ..core.dtable import Walker
from ..core.model import dotted

META = {
    "technique": "composition rule of the visibility filter (negated masks OR unmasks, AND keyword/license filters, sentinel polarity), layering rule of the mask stack (repo masks are the bottom layer that profile negations can cancel; user masks on top), decision table of the keyword acceptance function by path enumeration over opaque predicates incl. the empty-KEYWORDS row, wildcard-awareness rule for every restriction the keyword filter factory can return, order-preservation rule of the license token stream",
    "level": "Decides: (R1) generate_filter builds And(Or(not masked, unmasked) or just not masked, *extra) and filter_repo filters with sentinel True; masks = repo masks, then each profile layer's (-removals, +additions) in order, then user masks; unmasks likewise; (R2) _apply_keywords_filter accepts on '**' regardless of the package's keywords, on '*' for any keyword not starting with '-' or '~', on '~*' for any '~' keyword, else on membership; every restriction _make_keywords_filter can return either routes through that function or is only used when no wildcard token is accepted; an empty accept entry means ~ARCH exactly on a stable system; (R3) the license filter expands ACCEPT_LICENSE followed by the matching package.license tokens, in that order and without de-duplication (the stream is order-sensitive), per alternative of the package's LICENSE, and compares with issuperset. Does NOT decide visibility for concrete configurations.",
    "note": "atom.match, incremental_expansion_license (C12) and the DNF of LICENSE (C06) are taken as given",
}
META["technique"] += "; " + 'effect analysis on the visibility decision functions'
META["level"] += " Added after the second round of independent changes: " + "(R4) pull_data / iter_pull_data and the keyword and license decision functions write to nothing but objects they created: one package's entry cannot leak into the shared defaults."
META["technique"] += "; " + 'generic pack G on the anchored files (optional-flag shift, closures outliving a loop iteration, single-pass iterables consumed twice, %-templates built from data, in-place writes to class-level / memoised objects, generators mutating what they yielded, memo keys that are projections)'
DM = "pkgcore.ebuild.domain"


def _kw(c, name):
    return next((A.try_literal(k.value) for k in c.keywords if k.arg == name), None)


def _inert(st):
    """a statement without effect (what an inserted logging line / pass looks like)"""
    return isinstance(st, ast.Pass) or (isinstance(st, ast.Expr) and isinstance(st.value, ast.Constant))


def _method_calls_on(node, var):
    """calls `var.<method>(...)` under node (var: current spelling of a local)"""
    return [c for c in A.calls(node) if isinstance(c.func, ast.Attribute) and isinstance(c.func.value, ast.Name) and c.func.value.id == var]


META["technique"] += "; fixpoint-shape rule for the @group expansion"
META["level"] += " (R5) Licenses._expand_groups repeats its pass over the group table (loop or recursion), so nested @group references are resolved."


def run(ctx):
    P = ctx.program
    ctx.explanation = META["level"]
    gf = P.func(DM, "generate_filter")
    fr = P.func(DM, "domain.filter_repo")
    # ---- R1 composition ---------------------------------------------------------
    # the two filters are identified by what they are built FROM (the masks / unmasks parameter), not by their local names
    p_masks, p_unmasks = gf.params()[0], gf.params()[1]
    p_extra = gf.node.args.vararg.arg if gf.node.args.vararg else None
    mk = {}
    for t, v, _ in A.assignments(gf.node):
        if isinstance(t, ast.Name) and isinstance(v, ast.Call) and dotted(v.func) == "make_mask_filter" and v.args:
            mk.setdefault(A.unparse(v.args[0]), (t.id, v))
    ctx.require(p_masks in mk and p_unmasks in mk and p_extra, "generate_filter: masking/unmasking filters not found")
    masking, mcall = mk[p_masks]
    unmasking, ucall = mk[p_unmasks]
    E = {"masking": masking, "unmasking": unmasking}
    ctx.check("R1", gf, len(mcall.args) == 1 and _kw(mcall, "negate") is True, "masking-negated", "the mask filter is built from the masks, negated (a package passes when no mask matches)")
    ctx.check("R1", gf, len(ucall.args) == 1 and _kw(ucall, "negate") in (False, None), "unmasking-positive", "the unmask filter is built from the unmasks, not negated")
    orc = [c for c in A.calls(gf.node) if dotted(c.func) == "packages.OrRestriction"]
    ctx.check("R1", gf, len(orc) == 1 and [A.unparse(a) for a in orc[0].args] == [masking, unmasking], "mask-or-unmask", "visible = not masked OR unmasked")
    ret = A.returns(gf.node)
    conj = M.one(gf.node, f"return packages.AndRestriction(*($r + {p_extra}), ...)") or M.one(gf.node, f"return packages.AndRestriction(*$r, *{p_extra}, ...)")
    ctx.check("R1", gf, len(ret) == 1 and conj is not None, "and-extra", "mask logic AND every extra (keyword, license) filter")
    if conj:
        E["r"] = conj["r"]
    ctx.check("R1", gf, M.has(gf.node, "$r = ($masking,)", E), "masks-without-unmasks", "without unmasks the mask filter alone decides")
    # the two sets are identified by the user-level parameter that is merged into them
    gfcall = [c for c in A.calls(fr.node) if dotted(c.func) == "generate_filter"]
    um = M.one(fr.node, "$masks.update(pkg_masks)")
    uu = M.one(fr.node, "$unmasks.update(pkg_unmasks)")

    def role(m, key, pos):
        if m is not None:
            return m[key]
        if len(gfcall) == 1 and len(gfcall[0].args) > pos and isinstance(gfcall[0].args[pos], ast.Name):
            return gfcall[0].args[pos].id
        return None
    masks, unmasks = role(um, "masks", 0), role(uu, "unmasks", 1)
    rr = A.returns(fr.node)
    fl = M.one(fr.node, "$filters = generate_filter(...)")
    sent = len(rr) == 1 and (M.pat("return filtered.tree(repo, generate_filter(...), True)").matches(rr[0]) is not None
                             or (fl is not None and M.pat("return filtered.tree(repo, $filters, True)").matches(rr[0], fl.env) is not None))
    ctx.check("R1", fr, sent, "sentinel-true", "the repository is filtered keeping packages that match the visibility restriction")
    # mask layering: the loops that fold (negations, additions) layers into each set
    loops = [n for n in A.body_walk(fr.node) if isinstance(n, ast.For)]
    layer = {"masks": [l for l in loops if masks and _method_calls_on(l, masks)], "unmasks": [l for l in loops if unmasks and _method_calls_on(l, unmasks)]}
    stack = layer["masks"][0].iter if len(layer["masks"]) == 1 else None      # the layered mask stack the loop runs over
    gm = stack.id if isinstance(stack, ast.Name) else None
    gma = A.assignments(fr.node, gm) if gm else []
    ok = bool(gma) and M.pat("[((), repo.pkg_masks)]").matches(gma[0][1]) is not None and gma[0][2].lineno < layer["masks"][0].lineno
    ctx.check("R1", fr, ok, "repo-masks-bottom-layer", "repository masks are the first (bottom) layer of the mask stack, so a profile's '-atom' can cancel them",
              "filter_repo no longer puts repo.pkg_masks at the bottom of the layered mask stack: a profile negation (-atom) cannot cancel a repository-level mask any more")
    grow = _method_calls_on(fr.node, gm) if gm else []     # every mutation of the stack; exactly one is expected: the profile layers
    ext = [c for c in grow if c.func.attr == "extend" and len(c.args) == 1 and A.unparse(c.args[0]) == "self.profile._incremental_masks"]
    ctx.check("R1", fr, len(ext) == 1 and len(grow) == 1 and bool(gma) and gma[0][2].lineno < ext[0].lineno < layer["masks"][0].lineno, "profile-masks-after-repo", "profile mask layers follow the repository masks")
    for coll, var, src in (("masks", masks, None), ("unmasks", unmasks, "self.profile._incremental_unmasks")):
        lps = layer[coll]
        if not lps:
            ctx.check("R1", fr, False, f"layer-order:{coll}", f"each {coll} layer first removes its negations, then adds its additions", f"filter_repo has no loop folding the profile layers into {coll}")
            continue
        for lp in lps:
            body = [A.unparse(s) for s in lp.body if not _inert(s)]
            shape = M.pat("for $neg, $pos in $_:\n    $c.difference_update($neg)\n    $c.update($pos)").matches(lp, {"c": var})
            ok = shape is not None and len(body) == 2 and (src is None or A.unparse(lp.iter) == src)
            ctx.check("R1", fr, ok, f"layer-order:{coll}", f"each {coll} layer first removes its negations, then adds its additions", f"{coll} layer body is {body}", node=lp)

    def after_layers(m, coll):
        return m is not None and all(m.node.lineno > l.end_lineno for l in layer[coll])
    ctx.check("R1", fr, after_layers(um, "masks"), "user-masks-last", "user package.mask entries are added after the profile layers (a profile cannot cancel them)")
    ctx.check("R1", fr, after_layers(uu, "unmasks"), "user-unmasks-last", "user package.unmask entries are added last")
    ctx.check("R1", fr, len(gfcall) == 1 and masks is not None and unmasks is not None and [A.unparse(a) for a in gfcall[0].args] == [masks, unmasks, "*pkg_filters"]
              and all(gfcall[0].lineno > m.node.lineno for m in (um, uu) if m is not None), "filter-call", "generate_filter(masks, unmasks, *pkg_filters)")
    ctx.floor("R1", 12)

    # ---- R2 keywords ---------------------------------------------------------------------------
    ak = P.func(DM, "domain._apply_keywords_filter")
    # the locals are identified by what they are read from
    pkm = M.one(ak.node, "$pk = pkg.keywords")
    alm = M.one(ak.node, "$allowed = data.pull_data(pkg)")
    ctx.require(pkm is not None and alm is not None, "_apply_keywords_filter: reads of pkg.keywords / data.pull_data(pkg) not found")
    v_pk, v_allowed = pkm["pk"], alm["allowed"]
    ALLOWED = ("opaque", "allowed")
    # decision table: atoms = membership of the three wildcards in the accept set, plus per-keyword classes
    rows_bad = []
    n_rows = 0
    kinds = ["stable", "testing", "negative"]  # first char none / '~' / '-'
    for n in range(0, 3):
        for kws in itertools.product(kinds, repeat=n):
            for starstar, star, tstar in itertools.product([False, True], repeat=3):
                for member in itertools.product([False, True], repeat=n):
                    def oracle(e, env, w, kws=kws, member=member, starstar=starstar, star=star, tstar=tstar):
                        def val(x):
                            try:
                                return w.ev(x, env)
                            except Exception:
                                return None
                        if isinstance(e, ast.Compare) and len(e.ops) == 1 and isinstance(e.ops[0], ast.In) and isinstance(e.left, ast.Constant) and e.left.value in ("**", "*", "~*") and val(e.comparators[0]) == ALLOWED:
                            return {"**": starstar, "*": star, "~*": tstar}[e.left.value]
                        if isinstance(e, ast.Compare) and len(e.ops) == 1 and isinstance(e.left, ast.Subscript) and A.try_literal(e.left.slice) == 0:
                            v = env.get(A.unparse(e.left.value))
                            if isinstance(v, tuple) and v[0] == "child":
                                first = {"stable": "a", "testing": "~", "negative": "-"}[kws[v[1]]]
                                rhs = A.try_literal(e.comparators[0])
                                if isinstance(e.ops[0], ast.NotIn):
                                    return first not in rhs
                                if isinstance(e.ops[0], ast.In):
                                    return first in rhs
                                if isinstance(e.ops[0], ast.Eq):
                                    return first == rhs
                                if isinstance(e.ops[0], ast.NotEq):
                                    return first != rhs
                        if isinstance(e, ast.Compare) and len(e.ops) == 1 and isinstance(e.ops[0], ast.In) and isinstance(e.left, ast.Name) and val(e.comparators[0]) == ALLOWED:
                            v = env.get(e.left.id)
                            if isinstance(v, tuple) and v[0] == "child":
                                return member[v[1]]
                        t = A.unparse(e)
                        if t == "data.pull_data(pkg)":
                            return ALLOWED
                        if t in ("pkg.keywords",):
                            return ("children",)
                        if isinstance(e, ast.Call) and dotted(e.func) == "any" and e.args and isinstance(e.args[0], ast.GeneratorExp):
                            g = e.args[0]
                            gen = g.generators[0]
                            if val(gen.iter) == ("children",) and isinstance(gen.target, ast.Name):
                                res = False
                                for i in range(w.n):
                                    env2 = dict(env)
                                    env2[gen.target.id] = ("child", i)
                                    if all(w.truth(w.ev(c, env2)) for c in gen.ifs):
                                        res = True
                                return res
                        return NotImplemented
                    w = Walker(oracle, (v_pk,), n)
                    # skip the profile.keywords augmentation loop: treat self.profile.keywords as empty
                    fn = ast.FunctionDef(name="f", args=ak.node.args, body=[s for s in ak.node.body if not (isinstance(s, ast.For) and "self.profile.keywords" in A.unparse(s.iter))], decorator_list=[])
                    try:
                        res = w.run(fn, {v_pk: ("children",), v_allowed: ALLOWED})
                    except Exception as e:
                        ctx.require(False, f"_apply_keywords_filter: decision-table walk failed: {e}")
                    want = starstar or (star and any(k == "stable" for k in kws)) or (tstar and any(k == "testing" for k in kws)) or any(member)
                    n_rows += 1
                    if bool(res) != want:
                        rows_bad.append((kws, starstar, star, tstar, member, res, want))
    ctx.ob("R2", ak, f"_apply_keywords_filter decision table: {n_rows} rows (0-2 keywords x kinds x wildcard flags x membership)")
    if rows_bad:
        kws, ss, s_, ts, mem, res, want = rows_bad[0]
        ctx.fail("R2", ak, f"keyword-table:{len(kws)}kw:**={ss},*={s_},~*={ts}", f"_apply_keywords_filter: package keywords of kinds {list(kws)} (in accept set: {list(mem)}), accept set contains **={ss} *={s_} ~*={ts}: returns {res!r}, expected {want} ({len(rows_bad)} of {n_rows} rows differ)", node=ak.node)
    ctx.check("R2", ak, M.has(ak.node.body, "$pk = pkg.keywords\nfor $atom, $kws in self.profile.keywords:\n    if $atom.match(pkg):\n        $pk += $kws\n$allowed = data.pull_data(pkg)", {"pk": v_pk, "allowed": v_allowed}),
              "profile-keywords-added", "matching profile package.keywords entries extend the package's keywords")
    mkf = P.func(DM, "domain._make_keywords_filter")

    def resolved(e):
        """the expression plus, one level deep, what the locals it names were assigned"""
        out = [e]
        for nm in {x.id for x in ast.walk(e) if isinstance(x, ast.Name)}:
            out.extend(v for _, v, _ in A.assignments(mkf.node, nm) if isinstance(v, ast.expr))
        return out
    for r in A.returns(mkf.node):
        v = A.unparse(r.value)
        if any(isinstance(x, ast.Attribute) and x.attr == "_apply_keywords_filter" for e in resolved(r.value) for x in ast.walk(e)):
            ctx.ob("R2", mkf, "slow path routes through _apply_keywords_filter", node=r)
            continue
        guards = [p for p in A.parents(r) if isinstance(p, ast.If)]
        ok = False
        for g in guards:
            ats = boolx.atoms(g.test)
            wild = [a for a in ats if "'*'" in a and "'~*'" in a and "'**'" in a and "intersection" in a]
            if wild and boolx.forced_outcome(g.test, {wild[0]: True}) is False:
                ok = True
        ctx.check("R2", mkf, ok, "fast-path-wildcard-guard", "the plain containment shortcut is only taken when no wildcard keyword is accepted",
                  f"_make_keywords_filter returns `{v[:70]}` without checking for '**', '*' or '~*' in the accepted keywords: the wildcards are compared literally and accept nothing", node=r)
    stab_g = M.guarded(mkf.node.body, "self.unstable_arch not in default_keys")
    ctx.require(stab_g, "_make_keywords_filter: stable-system branch not found")
    stab = [ast.If(test=stab_g[0][0].test, body=list(stab_g[0][1]), orelse=list(stab_g[0][2]))]
    ok = M.has(stab[0].body, "def $f($r, $v):\n    if not $v:\n        return ($r, self.unstable_arch)\n    return ($r, $v)\n$data = collapsed_restrict_to_data($_, ($f(*$i) for $i in accept_keywords))")
    ctx.check("R2", mkf, ok, "empty-entry-means-unstable", "on a stable system an accept entry without keywords means ~ARCH")
    ctx.check("R2", mkf, M.has(stab[0].orelse, "$data = non_incremental_collapsed_restrict_to_data($_, accept_keywords)"), "unstable-system-plain", "on an unstable system entries are taken as written")
    ctx.floor("R2", 5)

    # ---- R3 license -----------------------------------------------------------------------------
    al = P.func(DM, "domain._apply_license_filter")
    p_master = al.params()[1]
    call = [c for c in A.calls(al.node) if dotted(c.func) == "incremental_expansion_license"]
    # the token stream is what is handed to the expansion as 4th argument; the matched tokens are what the package.license loop collects
    coll = M.one(al.node, "for $atom, $lic in self.pkg_licenses:\n    if $atom.match(pkg):\n        $matched += $lic")
    v_raw = None
    stream = None
    if len(call) == 1 and len(call[0].args) >= 4:
        stream = call[0].args[3]
        if isinstance(stream, ast.Name):
            v_raw = stream.id
            defs = [v for _, v, st in A.assignments(al.node, v_raw) if st.lineno < call[0].lineno]
            stream = defs[-1] if defs else None
    else:
        m = M.one(al.node, f"$raw = {p_master} + $_") or M.one(al.node, f"$raw = $_({p_master} + $_)")
        if m:
            v_raw = m["raw"]
            stream = A.assignments(al.node, v_raw)[0][1]
    ctx.require(stream is not None, "_apply_license_filter: token stream not found")
    ok = coll is not None and M.pat(f"{p_master} + $matched").matches(stream, {"matched": coll["matched"]}) is not None and (v_raw is None or len(A.assignments(al.node, v_raw)) == 1)
    ctx.check("R3", al, ok, "license-stream-order",
              "the token stream is ACCEPT_LICENSE followed by the matching package.license tokens, unmodified",
              f"_apply_license_filter builds the token stream as `{A.unparse(stream)}`: the stream is order-sensitive (-*, @group, repeated tokens), de-duplicating or reordering it changes which licenses are accepted")
    lp = [n for n in A.body_walk(al.node) if isinstance(n, ast.For) and any(isinstance(x, ast.Attribute) and x.attr == "dnf_solutions" for x in ast.walk(n.iter))]
    ctx.check("R3", al, bool(lp) and A.unparse(lp[0].iter) == "pkg.license.dnf_solutions()" and isinstance(lp[0].target, ast.Name), "per-alternative", "every alternative (DNF solution) of LICENSE is tried")
    alt = lp[0].target.id if lp and isinstance(lp[0].target, ast.Name) else None
    lm = M.one(al.node, "$lm = getattr(pkg.repo, 'licenses', $_)")
    ok = len(call) == 1 and alt is not None and lm is not None and len(call[0].args) >= 4 and A.contains_node(lp[0], call[0]) \
        and [A.unparse(a) for a in call[0].args[:4]] == ["pkg", alt, f"{lm['lm']}.groups", A.unparse(call[0].args[3]) if v_raw is None else v_raw]
    ctx.check("R3", al, ok, "expansion-call", "the accepted set is expanded for this package / alternative with the repository's license groups")
    dec = M.has(al.node.body, "for $alt in pkg.license.dnf_solutions():\n    $acc = incremental_expansion_license(...)\n    if $acc.issuperset($alt):\n        return True\nreturn False")
    rets = A.returns(al.node)
    last = rets[-1] if rets else None
    tail_ok = last is not None and last in al.node.body and all(_inert(s) for s in al.node.body[al.node.body.index(last) + 1:])
    ctx.check("R3", al, dec and tail_ok and [A.unparse(r) for r in rets] == ["return True", "return False"], "superset-decides", "a package is accepted iff some alternative is a subset of the accepted set")
    ctx.check("R3", al, coll is not None and M.has(al.node.body, "$matched = []\nfor $atom, $lic in self.pkg_licenses:\n    ...", coll.env) and len(A.assignments(al.node, coll["matched"])) == 2, "matching-entries-in-order", "matching package.license entries are appended in file order")
    ctx.floor("R3", 5)

    # ---- R4 deciding visibility of one package leaves the filter's tables alone ------------------------------------
    G.pure(ctx, "R4", [("pkgcore.ebuild.misc", q, (), "tokens of one package's entry written into the shared defaults are accepted for every later package")
                        for q in ("collapsed_restrict_to_data.pull_data", "collapsed_restrict_to_data.iter_pull_data",
                                  "non_incremental_collapsed_restrict_to_data.pull_data", "non_incremental_collapsed_restrict_to_data.iter_pull_data")]
           + [(DM, q, (), "a visibility decision must not edit the package or the domain tables") for q in ("domain._apply_keywords_filter", "domain._apply_license_filter")]
           + [("pkgcore.ebuild.misc", "incremental_expansion", ("param:orig",), "orig= is the documented accumulator"),
              ("pkgcore.ebuild.misc", "incremental_expansion_license", (), "")])
    ctx.floor("R4", 8)

    # ---- R5 @group references are expanded until none is left ------------------------------------------------------
    # a group may name a group that names a group; one pass over the table resolves one level only (and which level
    # depends on dict order).  Necessary: the expansion pass is repeated (a loop around it, or recursion).
    eg = P.func("pkgcore.ebuild.repo_objs", "Licenses._expand_groups")
    passes = [n for n in A.body_walk(eg.node) if isinstance(n, ast.For) and "items" in A.unparse(n.iter)]
    ctx.require(passes, "Licenses._expand_groups: the pass over the group table was not found")
    repeated = any(isinstance(p_, ast.While) for p_ in A.parents(passes[0])) or any((A.call_attr(c) or "") == "_expand_groups" for c in A.calls(eg.node)) \
        or any(isinstance(p_, ast.For) for p_ in A.parents(passes[0]))
    ctx.check("R5", eg, repeated, "group-expansion-repeats", "the expansion of @group references is repeated until no reference is left",
              "Licenses._expand_groups makes a single pass over the groups: a group that references a group which itself references another keeps a literal '@name' token, "
              "which no license ever equals — packages under the inner group's licenses are filtered out although ACCEPT_LICENSE accepts them", node=passes[0])
    el = P.func("pkgcore.ebuild.misc", "incremental_expansion_license")
    ctx.check("R5", el, any(isinstance(n, ast.Constant) and n.value == "@" for n in ast.walk(el.node)), "license-expander-knows-groups", "incremental_expansion_license treats '@' tokens as group references")
    ctx.floor("R5", 2)

MUTANTS = [
    {"name": "repo-masks-last", "file": "src/pkgcore/ebuild/domain.py", "old": "        global_masks = [((), repo.pkg_masks)]\n        if profile:\n            global_masks.extend(self.profile._incremental_masks)\n        masks = set()\n        for neg, pos in global_masks:\n            masks.difference_update(neg)\n            masks.update(pos)\n", "new": "        global_masks = []\n        if profile:\n            global_masks.extend(self.profile._incremental_masks)\n        masks = set()\n        for neg, pos in global_masks:\n            masks.difference_update(neg)\n            masks.update(pos)\n        masks.update(repo.pkg_masks)\n", "rule": "R1"},
    {"name": "starstar-needs-keyword", "file": "src/pkgcore/ebuild/domain.py", "old": "        if \"**\" in allowed:\n            return True\n", "new": "        if \"**\" in allowed and pkg_keywords:\n            return True\n", "rule": "R2"},
    {"name": "license-dedup", "file": "src/pkgcore/ebuild/domain.py", "old": "        raw_accepted_licenses = master_licenses + matched_pkg_licenses", "new": "        raw_accepted_licenses = stable_unique(master_licenses + matched_pkg_licenses)", "rule": "R3"},
    {"name": "fast-path-unguarded", "file": "src/pkgcore/ebuild/domain.py", "old": "            and not self.profile.keywords\n            and not {\"*\", \"~*\", \"**\"}.intersection(default_keys)\n        ):", "new": "            and not self.profile.keywords\n        ):", "rule": "R2"},
    {"name": "mask-not-negated", "file": "src/pkgcore/ebuild/domain.py", "old": "    masking = make_mask_filter(masks, negate=True)", "new": "    masking = make_mask_filter(masks, negate=False)", "rule": "R1"},
    {"name": "star-accepts-testing", "file": "src/pkgcore/ebuild/domain.py", "old": "                if k[0] not in \"-~\":", "new": "                if k[0] not in \"-\":", "rule": "R2"},
    {"name": "layer-add-before-remove", "file": "src/pkgcore/ebuild/domain.py", "old": "        for neg, pos in global_masks:\n            masks.difference_update(neg)\n            masks.update(pos)", "new": "        for neg, pos in global_masks:\n            masks.update(pos)\n            masks.difference_update(neg)", "rule": "R1"},
]
MUTANTS += [
    {"name": "license-groups-single-pass", "file": "src/pkgcore/ebuild/repo_objs.py", "old": "        keep_going = True\n        while keep_going:\n            keep_going = False\n", "new": "        keep_going = True\n        if keep_going:\n            keep_going = False\n", "rule": "R5"},
]
TWINS = []
