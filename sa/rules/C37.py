"""C37 — Bugzilla searches keep their meaning when rendered, combined and batched."""
import ast

from ..core import astutil as A
from ..core.model import dotted

META = {
    "technique": "loop-carried-state rule (the chart slot handed to each child is the one returned by the previous child), marker pairing (OP at the entry slot, CP at the running slot, group returns the slot after CP), rebuild-key uniqueness (a split criterion is addressed by its position, never by a non-unique attribute), accounting-shape rule for the batch budget (every value is charged its encoded length plus one separator, unconditionally; budget = limit - base - encoded fixed part), partition shape (each value appended exactly once, in order; last batch flushed), combination rule for `&`",
    "level": "Decides the structural clauses: slots are threaded through nested groups so no two conditions share a slot and OP/CP balance; `&` concatenates chart conditions (Bugzilla ANDs top-level charts) and any_of refuses simple parameters; batching splits exactly one axis, rebuilds the query by replacing only that axis (by key for the unique simple keys, by index for charts), keeps value order, charges each value its separator, and measures the fixed part from the query rendered without the split values. Reports as a known finding that `&` UNIONS the values of a simple key present on both sides (Bugzilla ORs within a key), which is not the conjunction. Does NOT evaluate rendered charts.",
    "note": "",
}
MOD = "pkgcore.bugzilla.query"


def run(ctx):
    P = ctx.program
    ctx.explanation = META["level"]
    # ---- R1 slot threading ------------------------------------------------------------------------
    sites = [(P.func(MOD, "ChartGroup.render"), "self.children"), (P.func(MOD, "BugQuery.params"), "self.charts")]
    for fn, coll in sites:
        loops = [n for n in A.body_walk(fn.node) if isinstance(n, ast.For) and A.unparse(n.iter).endswith(coll) or (isinstance(n, ast.For) and coll in A.unparse(n.iter))]
        ctx.require(len(loops) == 1, f"{fn.qual}: loop over {coll} not found")
        lp = loops[0]
        calls = [c for c in A.calls(lp) if dotted(c.func) == "_render"]
        ctx.require(len(calls) == 1, f"{fn.qual}: _render call not found")
        c = calls[0]
        st = A.stmt_of(c)
        slot_arg = c.args[1]
        tgt = st.targets[0] if isinstance(st, ast.Assign) else None
        threaded = isinstance(slot_arg, ast.Name) and isinstance(tgt, ast.Tuple) and len(tgt.elts) == 2 and A.unparse(tgt.elts[1]) == slot_arg.id and A.unparse(lp.iter) == coll
        ctx.check("R1", fn, threaded, f"slot-threaded:{A.unparse(slot_arg)[:20]}", f"{fn.qual}: each child is rendered at the slot returned by the previous child (`{A.unparse(st)[:50]}`)",
                  f"{fn.qual} renders a child at `{A.unparse(slot_arg)}`, which is not the running slot returned by the previous child: a nested group occupying several slots is overlapped by its following sibling (duplicate f/o/v slots)", node=c)
        ctx.check("R1", fn, "params.extend(rendered)" in A.unparse(lp), f"children-collected:{fn.name}", "every child's parameters are collected")
    gr = sites[0][0]
    t = A.unparse(gr.node)
    first = gr.node.body[0]
    ctx.check("R1", gr, "(f'f{slot}', 'OP')" in A.unparse(first) and "(f'j{slot}', str(self.join))" in A.unparse(first), "group-open", "a group opens with OP (and its join) at its entry slot")
    ctx.check("R1", gr, A.unparse(gr.node.body[1]) == "slot += 1", "children-after-open", "children start at the slot after OP")
    last2 = [A.unparse(s) for s in gr.node.body[-2:]]
    ctx.check("R1", gr, last2 == ["params.append((f'f{slot}', 'CP'))", "return (params, slot + 1)"], f"group-close:{last2[0][:30]}", "CP goes at the running slot after the last child; the group hands back the slot after CP",
              f"ChartGroup.render closes with {last2}", node=gr.node)
    rf = P.func(MOD, "_render")
    tr = A.unparse(rf.node)
    ctx.check("R1", rf, "return chart.render(slot)" in tr and "return (chart.render(slot), slot + 1)" in tr, "criterion-takes-one-slot", "a criterion takes exactly one slot; a group reports its own extent")
    cr = P.func(MOD, "Criterion.render")
    keys = {A.unparse(n) for n in A.walk(cr.node) if isinstance(n, ast.JoinedStr)}
    ctx.check("R1", cr, keys == {"f'f{slot}'", "f'o{slot}'", "f'v{slot}'", "f'n{slot}'"}, f"criterion-keys:{len(keys)}", "a criterion writes only f/o/v/n of its own slot")
    pm = sites[1][0]
    ctx.check("R1", pm, "slot = 1" in A.unparse(pm.node), "slots-start-at-1", "top-level slots start at 1")
    ctx.floor("R1", 10)

    # ---- R2 rebuild addressing ----------------------------------------------------------------------------
    sa = P.func(MOD, "BugQuery._split_axis")
    rc = P.func(MOD, "BugQuery._rebuild_chart")
    parts = [c for c in A.calls(sa.node) if dotted(c.func) == "functools.partial" and A.unparse(c.args[0]) == "self._rebuild_chart"]
    ctx.require(len(parts) == 1, "_split_axis: partial(self._rebuild_chart, ...) not found")
    bound = parts[0].args[1]
    gen = next((p for p in A.parents(parts[0]) if isinstance(p, (ast.GeneratorExp, ast.ListComp))), None)
    ctx.require(gen is not None, "_split_axis: chart candidate comprehension not found")
    it = gen.generators[0]
    by_index = isinstance(it.iter, ast.Call) and dotted(it.iter.func) == "enumerate" and isinstance(it.target, ast.Tuple) and A.unparse(it.target.elts[0]) == A.unparse(bound)
    ctx.check("R2", sa, by_index, f"chart-addressed-by-position:{A.unparse(bound)}", "the split criterion is addressed by its position in charts",
              f"_split_axis binds _rebuild_chart to `{A.unparse(bound)}`: chart fields are not unique (package_list_any(A) & package_list_any(B)), so every batch overwrites ALL criteria on that field with the batch slice and the other condition is no longer repeated unchanged", node=parts[0])
    stores = [t_ for t_, v, _ in A.assignments(rc.node) if isinstance(t_, ast.Subscript) and A.unparse(t_.slice) == rc.params()[1]]
    ctx.check("R2", rc, len(stores) == 1 and "with_values(values)" in A.unparse(rc.node), "rebuild-replaces-one", "_rebuild_chart replaces exactly the addressed element",
              "_rebuild_chart no longer replaces exactly one addressed criterion", node=rc.node)
    rs = P.func(MOD, "BugQuery._rebuild_simple")
    ctx.check("R2", rs, "tuple((x for x in self.simple if x[0] != key))" in A.unparse(rs.node) and "simple += ((key, tuple(values)),)" in A.unparse(rs.node), "simple-rebuilt-by-key", "the id axis is rebuilt by key")
    ms = P.func(MOD, "_merge_simple")
    ctx.check("R2", ms, "dict(left)" in A.unparse(ms.node) and "return tuple(merged.items())" in A.unparse(ms.node), "simple-keys-unique", "simple keys are unique (merged through a dict), so addressing by key is safe")
    t = A.unparse(sa.node)
    ctx.check("R2", sa, "if key == 'id'" in t and "isinstance(chart, Criterion) and chart.splittable" in t, "axes", "only the id parameter and criteria marked splittable can be split")
    ctx.check("R2", rc, "dataclasses.replace(self, charts=tuple(charts))" in A.unparse(rc.node) and "dataclasses.replace(self, simple=simple)" in A.unparse(rs.node), "others-unchanged", "everything else is carried over unchanged (dataclasses.replace)")
    ctx.floor("R2", 6)

    # ---- R3 budget accounting -----------------------------------------------------------------------------------
    ba = P.func(MOD, "BugQuery.batches")
    loops = [n for n in ba.node.body if isinstance(n, ast.For)]
    ctx.require(len(loops) == 1, "batches: value loop not found")
    lp = loops[0]
    val = A.unparse(lp.target)
    cost = [v for t_, v, _ in A.assignments(lp, "cost")]
    ok = len(cost) == 1 and A.unparse(cost[0]) == f"len(urllib.parse.urlencode(((key, {val}),))) + 1"
    ctx.check("R3", ba, ok, f"cost-includes-separator:{A.unparse(cost[0])[-12:] if cost else ''}", "each value is charged its encoded length plus one separator",
              f"per-value cost is `{A.unparse(cost[0]) if cost else '?'}`: without the separator the '&' between the fixed parameters and the first value is unaccounted, and a batch can exceed the budget by one although every single value fits", node=lp)
    acc = [s for s in lp.body if isinstance(s, ast.AugAssign) and A.unparse(s.target) == "used"]
    ctx.check("R3", ba, len(acc) == 1 and A.unparse(acc[0].value) == "cost", f"accumulates-cost:{A.unparse(acc[0].value)[:30] if acc else ''}", "`used` grows by exactly the cost, for every value (first of a batch included)",
              f"`used` is advanced by `{A.unparse(acc[0].value) if acc else '?'}`: the first value of a batch is not charged its separator", node=lp)
    fl = [n for n in lp.body if isinstance(n, ast.If)]
    ok = len(fl) == 1 and A.unparse(fl[0].test) == "batch and used + cost > budget" and "yield rebuild(batch)" in A.unparse(fl[0]) and "batch, used = ([], 0)" in A.unparse(fl[0])
    ctx.check("R3", ba, ok, f"flush-test:{A.unparse(fl[0].test)[:40] if fl else ''}", "a non-empty batch is flushed when the next value would exceed the budget (a single value always goes through)",
              f"the flush test is `{A.unparse(fl[0].test) if fl else '?'}`", node=lp)
    t = A.unparse(ba.node)
    ctx.check("R3", ba, "empty = rebuild(())" in t and "budget = max_length - base_length - len(urllib.parse.urlencode(empty.params()))" in t, "budget-from-fixed-part", "budget = limit - base - encoded length of the query without the split values")
    ctx.floor("R3", 4)

    # ---- R4 partition in order -----------------------------------------------------------------------------------------
    app = [s for s in lp.body if isinstance(s, ast.Expr) and A.unparse(s.value) == f"batch.append({val})"]
    from ..core import cfg as CFG
    g = CFG.cfg_of(ba.node)
    skip = None
    if len(app) == 1:
        an_ = g.node_of(app[0])
        head = g.node_of(lp)
        skip = g.find_path([g.node_of(lp.body[0])], lambda n: n is head or n is g.exit, avoid=lambda n: n is an_)
    ctx.check("R4", ba, len(app) == 1 and skip is None and bool(fl) and lp.body.index(app[0]) > lp.body.index(fl[0]), "each-value-once-in-order", "every value is appended exactly once on every path of an iteration, after the possible flush, in iteration order",
              "an iteration of the batching loop can end without appending its value: the value is in no batch", node=lp, witness=g.fmt_path(skip) if skip else None)
    ctx.check("R4", ba, A.unparse(lp.iter) == "values" and "key, values, rebuild = axis" in t, "iterates-axis-values", "the loop walks the axis values in their original order")
    ctx.check("R4", ba, A.unparse(ba.node.body[-1]) == "yield rebuild(batch)", "last-batch-flushed", "the last batch is always emitted")
    first = ba.node.body[1] if isinstance(ba.node.body[0], ast.Expr) else ba.node.body[0]
    ctx.check("R4", ba, "self._split_axis()) is None" in A.unparse(first) and "yield self" in A.unparse(first), "unsplittable-is-one-batch", "a query without a splittable axis is its own single batch")
    ctx.check("R4", sa, "max(candidates, key=lambda axis: len(''.join(axis[1])))" in A.unparse(sa.node), "one-axis", "exactly one axis (the widest) is split")
    ctx.floor("R4", 5)

    # ---- R5 combination ---------------------------------------------------------------------------------------------------
    an = P.func(MOD, "BugQuery.__and__")
    kw = {k.arg: A.unparse(k.value) for c in A.calls(an.node) if dotted(c.func) == "BugQuery" for k in c.keywords}
    ctx.check("R5", an, kw.get("charts") == "self.charts + other.charts", f"charts-concatenated:{kw.get('charts')}", "`&` keeps every chart condition of both sides (top-level charts are ANDed)",
              f"`&` combines charts as `{kw.get('charts')}`", node=an.node)
    ctx.check("R5", an, kw.get("simple") == "_merge_simple(self.simple, other.simple)", "simple-merged", "simple parameters are merged per key")
    ao = P.func(MOD, "BugQuery.any_of")
    ctx.check("R5", ao, "if query.simple:" in A.unparse(ao.node) and "raise BugzillaUsageError" in A.unparse(ao.node) and "ChartGroup(Join.OR, tuple(charts))" in A.unparse(ao.node), "any_of-charts-only", "any_of refuses simple parameters (they cannot be ORed in a chart group)")
    tm = A.unparse(ms.node)
    if "existing + tuple((x for x in values if x not in existing))" in tm:
        ctx.fail("R5", ms, "same-key-simple-values-unioned", "`a & b` with the same simple key on both sides (ids([1,2]) & ids([2,3]), category() & product(X)) UNIONS the values; Bugzilla ORs the values of one key, so the result is broader than the conjunction of the two constraints", node=ms.node)
    else:
        ctx.ob("R5", ms, "_merge_simple no longer unions same-key values")
    ctx.floor("R5", 3)


F = "src/pkgcore/bugzilla/query.py"
MUTANTS = [
    {"name": "slot-by-offset", "file": F, "old": "        slot += 1\n        for child in self.children:\n            rendered, slot = _render(child, slot)\n            params.extend(rendered)\n        params.append((f\"f{slot}\", \"CP\"))\n        return params, slot + 1", "new": "        close = slot + 1\n        for offset, child in enumerate(self.children, 1):\n            rendered, close = _render(child, slot + offset)\n            params.extend(rendered)\n        params.append((f\"f{close}\", \"CP\"))\n        return params, close + 1", "rule": "R1"},
    {"name": "cp-shares-last-slot", "file": F, "old": "        params.append((f\"f{slot}\", \"CP\"))\n        return params, slot + 1", "new": "        params.append((f\"f{slot - 1}\", \"CP\"))\n        return params, slot", "rule": "R1"},
    {"name": "toplevel-slot-not-threaded", "file": F, "old": "            rendered, slot = _render(chart, slot)\n            params.extend(rendered)\n        if self.limit", "new": "            rendered, _ = _render(chart, slot)\n            slot += 1\n            params.extend(rendered)\n        if self.limit", "rule": "R1"},
    {"name": "rebuild-by-field", "file": F, "old": "            (chart.field, chart.values, functools.partial(self._rebuild_chart, index))\n            for index, chart in enumerate(self.charts)", "new": "            (chart.field, chart.values, functools.partial(self._rebuild_chart, chart.field))\n            for chart in self.charts", "rule": "R2"},
    {"name": "cost-without-separator", "file": F, "old": "            cost = len(urllib.parse.urlencode(((key, value),))) + 1", "new": "            cost = len(urllib.parse.urlencode(((key, value),)))", "rule": "R3"},
    {"name": "first-value-free-separator", "file": F, "old": "            batch.append(value)\n            used += cost", "new": "            used += cost if batch else cost - 1\n            batch.append(value)", "rule": "R3"},
    {"name": "budget-ignores-fixed", "file": F, "old": "        budget = max_length - base_length - len(urllib.parse.urlencode(empty.params()))", "new": "        budget = max_length - base_length", "rule": "R3"},
    {"name": "value-dropped-at-flush", "file": F, "old": "                yield rebuild(batch)\n                batch, used = [], 0\n            batch.append(value)", "new": "                yield rebuild(batch)\n                batch, used = [], 0\n                continue\n            batch.append(value)", "rule": "R4"},
    {"name": "and-drops-left-charts", "file": F, "old": "            charts=self.charts + other.charts,", "new": "            charts=other.charts or self.charts,", "rule": "R5"},
]
TWINS = []
