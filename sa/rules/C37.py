"""C37 — Bugzilla searches keep their meaning when rendered, combined and batched."""
import ast

from ..core import astutil as A
from ..core import match as M
from ..core.model import dotted

META = {
    "technique": "loop-carried-state rule (the chart slot handed to each child is the one returned by the previous child), marker pairing (OP at the entry slot, CP at the running slot, group returns the slot after CP), rebuild-key uniqueness (a split criterion is addressed by its position, never by a non-unique attribute), accounting-shape rule for the batch budget (every value is charged its encoded length plus one separator, unconditionally; budget = limit - base - encoded fixed part), partition shape (each value appended exactly once, in order; last batch flushed), combination rule for `&`",
    "level": "Decides the structural clauses: slots are threaded through nested groups so no two conditions share a slot and OP/CP balance; `&` concatenates chart conditions (Bugzilla ANDs top-level charts) and any_of refuses simple parameters; batching splits exactly one axis, rebuilds the query by replacing only that axis (by key for the unique simple keys, by index for charts), keeps value order, charges each value its separator, and measures the fixed part from the query rendered without the split values. Reports as a known finding that `&` UNIONS the values of a simple key present on both sides (Bugzilla ORs within a key), which is not the conjunction. Does NOT evaluate rendered charts.",
    "note": "",
}
META["technique"] += "; " + 'generic pack G on the anchored files (optional-flag shift, closures outliving a loop iteration, single-pass iterables consumed twice, %-templates built from data, in-place writes to class-level / memoised objects, generators mutating what they yielded, memo keys that are projections)'
MOD = "pkgcore.bugzilla.query"


def _alt(node, pats, env=None):
    """first match of the first alternative spelling that matches"""
    for p in pats:
        m = M.one(node, p, env)
        if m is not None:
            return m
    return None


def _effective(stmts):
    """statements that do something (no `pass`, no bare constant expression)"""
    return [s for s in stmts if not isinstance(s, ast.Pass) and not (isinstance(s, ast.Expr) and isinstance(s.value, ast.Constant))]


def _stores(node, name):
    return [n for n in A.walk(node) if isinstance(n, ast.Name) and n.id == name and isinstance(n.ctx, ast.Store)]


def _name(node):
    return node.id if isinstance(node, ast.Name) else None


def run(ctx):
    P = ctx.program
    ctx.explanation = META["level"]
    # ---- R1 slot threading ------------------------------------------------------------------------
    # per site: the collection walked, and how the parameter list every child is collected into is produced
    sites = [(P.func(MOD, "ChartGroup.render"), "self.children", ["$p = [(f'f{slot}', 'OP'), (f'j{slot}', str(self.join))]"]),
             (P.func(MOD, "BugQuery.params"), "self.charts", ["$p: $_ = []\nreturn $p", "$p = []\nreturn $p"])]
    running = {}
    for fn, coll, collector in sites:
        loops = [n for n in A.body_walk(fn.node) if isinstance(n, ast.For) and coll in A.unparse(n.iter)]
        ctx.require(len(loops) == 1, f"{fn.qual}: loop over {coll} not found")
        lp = loops[0]
        calls = [c for c in A.calls(lp) if dotted(c.func) == "_render"]
        ctx.require(len(calls) == 1, f"{fn.qual}: _render call not found")
        c = calls[0]
        st = A.stmt_of(c)
        slot_arg = c.args[1]
        tgt = st.targets[0] if isinstance(st, ast.Assign) else None
        threaded = isinstance(slot_arg, ast.Name) and isinstance(tgt, ast.Tuple) and len(tgt.elts) == 2 and A.unparse(tgt.elts[1]) == slot_arg.id and A.unparse(lp.iter) == coll
        ctx.check("R1", fn, threaded, f"slot-threaded:{A.unparse(slot_arg)[:20]}", f"{fn.qual}: each child is rendered at the slot returned by the previous child (`{A.unparse(st)[:50]}`)",
                  f"{fn.qual} renders a child at `{A.unparse(slot_arg)}`, which is not the running slot returned by the previous child: a nested group occupying several slots is overlapped by its following sibling (duplicate f/o/v slots)", node=c)
        running[fn.qual] = _name(slot_arg) if threaded else None
        got = _alt(fn.node, collector)
        env = {"p": got["p"]} if got else {}
        ctx.check("R1", fn, got is not None and M.has(lp, "$r, $s = _render($c, $$at)\n$p.extend($r)", env), f"children-collected:{fn.name}", "every child's parameters are collected")
    gr = sites[0][0]
    opn = M.one(gr.node, "$p = [(f'f{slot}', 'OP'), (f'j{slot}', str(self.join))]")
    slot_stores = _stores(gr.node, "slot")
    ctx.check("R1", gr, opn is not None and opn.node in gr.node.body and all(n.lineno > opn.node.lineno for n in slot_stores), "group-open", "a group opens with OP (and its join) at its entry slot")
    seq = [m for m in M.find(gr.node, "$p = [(f'f{slot}', 'OP'), (f'j{slot}', str(self.join))]\nslot += 1\nfor $c in self.children:\n    $r, slot = _render($c, slot)") if m.node in gr.node.body]
    ctx.check("R1", gr, bool(seq) and len(slot_stores) == 2, "children-after-open", "children start at the slot after OP")
    env = {"p": opn["p"]} if opn else {}
    close = [m for m in M.find(gr.node, "for $c in self.children:\n    ...\n$p.append((f'f{slot}', 'CP'))\nreturn ($p, slot + 1)", env) if m.node in gr.node.body]
    appends = M.find(gr.node, "$p.append($_)", env)
    last2 = [A.unparse(s) for s in _effective(gr.node.body)[-2:]]
    ctx.check("R1", gr, bool(close) and len(appends) == 1 and len(A.returns(gr.node)) == 1, f"group-close:{last2[0][:30]}", "CP goes at the running slot after the last child; the group hands back the slot after CP",
              f"ChartGroup.render closes with {last2}", node=gr.node)
    rf = P.func(MOD, "_render")
    one_slot = [m for m in M.find(rf.node, "if isinstance(chart, ChartGroup):\n    return chart.render(slot)\nreturn (chart.render(slot), slot + 1)") if m.node in rf.node.body]
    ctx.check("R1", rf, bool(one_slot) and len(A.returns(rf.node)) == 2, "criterion-takes-one-slot", "a criterion takes exactly one slot; a group reports its own extent")
    cr = P.func(MOD, "Criterion.render")
    keys = {A.unparse(n) for n in A.walk(cr.node) if isinstance(n, ast.JoinedStr)}
    ctx.check("R1", cr, keys == {"f'f{slot}'", "f'o{slot}'", "f'v{slot}'", "f'n{slot}'"}, f"criterion-keys:{len(keys)}", "a criterion writes only f/o/v/n of its own slot")
    pm = sites[1][0]
    s = running[pm.qual]
    start = [m for m in M.find(pm.node, "$s = 1\nfor $c in self.charts:\n    $r, $s = _render($c, $s)", {"s": s} if s else None) if m.node in pm.node.body]
    ctx.check("R1", pm, bool(start) and len(_stores(pm.node, start[0]["s"])) == 2, "slots-start-at-1", "top-level slots start at 1")
    ctx.floor("R1", 10)

    # ---- R2 rebuild addressing ----------------------------------------------------------------------------
    sa = P.func(MOD, "BugQuery._split_axis")
    rc = P.func(MOD, "BugQuery._rebuild_chart")
    parts = [c for c in A.calls(sa.node) if dotted(c.func) == "functools.partial" and A.unparse(c.args[0]) == "self._rebuild_chart"]
    ctx.require(len(parts) == 1, "_split_axis: partial(self._rebuild_chart, ...) not found")
    bound = parts[0].args[1]
    gen = next((p for p in A.parents(parts[0]) if isinstance(p, (ast.GeneratorExp, ast.ListComp))), None)
    ctx.require(gen is not None, "_split_axis: chart candidate comprehension not found")
    it = gen.generators[0]
    by_index = isinstance(it.iter, ast.Call) and dotted(it.iter.func) == "enumerate" and isinstance(it.target, ast.Tuple) and A.unparse(it.target.elts[0]) == A.unparse(bound)
    ctx.check("R2", sa, by_index, f"chart-addressed-by-position:{A.unparse(bound)}", "the split criterion is addressed by its position in charts",
              f"_split_axis binds _rebuild_chart to `{A.unparse(bound)}`: chart fields are not unique (package_list_any(A) & package_list_any(B)), so every batch overwrites ALL criteria on that field with the batch slice and the other condition is no longer repeated unchanged", node=parts[0])
    idx = rc.params()[1]
    stores = [(t_, v) for t_, v, _ in A.assignments(rc.node) if isinstance(t_, ast.Subscript) and A.unparse(t_.slice) == idx]
    copy = M.one(rc.node, "$c = list(self.charts)")
    one_elt = False
    if len(stores) == 1 and copy is not None:
        t_, v = stores[0]
        one_elt = _name(t_.value) == copy["c"] and any(M.pat(p).matches(v, copy.env) for p in (f"typing.cast($_, $c[{idx}]).with_values(values)", f"$c[{idx}].with_values(values)"))
    ctx.check("R2", rc, one_elt, "rebuild-replaces-one", "_rebuild_chart replaces exactly the addressed element",
              "_rebuild_chart no longer replaces exactly one addressed criterion", node=rc.node)
    rs = P.func(MOD, "BugQuery._rebuild_simple")
    kept = M.one(rs.node, "$s = tuple(($x for $x in self.simple if $x[0] != key))")
    senv = {"s": kept["s"]} if kept else {}
    ctx.check("R2", rs, kept is not None and M.has(rs.node, "$s += ((key, tuple(values)),)", senv), "simple-rebuilt-by-key", "the id axis is rebuilt by key")
    ms = P.func(MOD, "_merge_simple")
    mrg = _alt(ms.node, ["$m: $_ = dict(left)\nreturn tuple($m.items())", "$m = dict(left)\nreturn tuple($m.items())"])
    ctx.check("R2", ms, mrg is not None and mrg.node in ms.node.body, "simple-keys-unique", "simple keys are unique (merged through a dict), so addressing by key is safe")
    chart_var = it.target.elts[-1] if isinstance(it.target, ast.Tuple) else it.target
    chart_axis = _name(chart_var) is not None and len(it.ifs) == 1 and M.pat("isinstance($c, Criterion) and $c.splittable").matches(it.ifs[0], {"c": chart_var.id}) is not None
    id_axis = M.has(sa.node, "[($k, $v, functools.partial(self._rebuild_simple, $k)) for $k, $v in self.simple if $k == 'id']")
    ctx.check("R2", sa, chart_axis and id_axis, "axes", "only the id parameter and criteria marked splittable can be split")
    ctx.check("R2", rc, copy is not None and M.has(rc.node, "return dataclasses.replace(self, charts=tuple($c))", copy.env) and M.has(rs.node, "return dataclasses.replace(self, simple=$s)", senv), "others-unchanged", "everything else is carried over unchanged (dataclasses.replace)")
    ctx.floor("R2", 6)

    # ---- R3 budget accounting -----------------------------------------------------------------------------------
    ba = P.func(MOD, "BugQuery.batches")
    loops = [n for n in ba.node.body if isinstance(n, ast.For)]
    ctx.require(len(loops) == 1, "batches: value loop not found")
    lp = loops[0]
    val = A.unparse(lp.target)
    # the axis is unpacked into (key, values, rebuild): the roles of the three locals
    unpack = [m for m in M.find(ba.node, "$key, $values, $rebuild = $axis") if m.node in ba.node.body and m.node.lineno < lp.lineno]
    E = dict(unpack[0].env) if len(unpack) == 1 else {}
    unsplit = [m for m in M.find(ba.node, "if ($axis := self._split_axis()) is None:\n    yield self\n    return\n$key, $values, $rebuild = $axis", E) if m.node in ba.node.body]
    E.pop("axis", None)
    # cost: the per-value local computed from the encoded pair
    cost_st = [s for s in lp.body if isinstance(s, ast.Assign) and len(s.targets) == 1 and _name(s.targets[0]) and any(dotted(c.func) == "urllib.parse.urlencode" for c in A.calls(s.value))]
    cost = [s.value for s in cost_st]
    ok = len(cost) == 1 and "key" in E and M.pat(f"len(urllib.parse.urlencode((($key, {val}),))) + 1").matches(cost[0], E) is not None
    ctx.check("R3", ba, ok, f"cost-includes-separator:{A.unparse(cost[0])[-12:] if cost else ''}", "each value is charged its encoded length plus one separator",
              f"per-value cost is `{A.unparse(cost[0]) if cost else '?'}`: without the separator the '&' between the fixed parameters and the first value is unaccounted, and a batch can exceed the budget by one although every single value fits", node=lp)
    if len(cost_st) == 1:
        E["cost"] = cost_st[0].targets[0].id
    # used: the running total, i.e. the local that is advanced once per value
    acc = [s for s in lp.body if isinstance(s, ast.AugAssign) and _name(s.target)]
    ctx.check("R3", ba, len(acc) == 1 and isinstance(acc[0].op, ast.Add) and "cost" in E and _name(acc[0].value) == E["cost"], f"accumulates-cost:{A.unparse(acc[0].value)[:30] if acc else ''}", "`used` grows by exactly the cost, for every value (first of a batch included)",
              f"`used` is advanced by `{A.unparse(acc[0].value) if acc else '?'}`: the first value of a batch is not charged its separator", node=lp)
    if len(acc) == 1:
        E["used"] = acc[0].target.id
    # batch: the list every value is appended to
    app = [s for s in lp.body if isinstance(s, ast.Expr) and M.pat(f"$batch.append({val})").matches(s.value) is not None]
    if len(app) == 1:
        E["batch"] = app[0].value.func.value.id
    fl = [n for n in lp.body if isinstance(n, ast.If)]
    flush = M.pat("if $batch and $used + $cost > $budget:\n    yield $rebuild($batch)\n    $batch, $used = ([], 0)").matches(fl[0], E) if len(fl) == 1 else None
    ctx.check("R3", ba, flush is not None and not fl[0].orelse, f"flush-test:{A.unparse(fl[0].test)[:40] if fl else ''}", "a non-empty batch is flushed when the next value would exceed the budget (a single value always goes through)",
              f"the flush test is `{A.unparse(fl[0].test) if fl else '?'}`", node=lp)
    if flush is not None:
        E = dict(flush.env)
    fixed = [m for m in M.find(ba.node, "$empty = $rebuild(())\n$budget = max_length - base_length - len(urllib.parse.urlencode($empty.params()))", E) if m.node in ba.node.body and m.node.lineno < lp.lineno]
    ctx.check("R3", ba, bool(fixed) and "rebuild" in E, "budget-from-fixed-part", "budget = limit - base - encoded length of the query without the split values")
    ctx.floor("R3", 4)

    # ---- R4 partition in order -----------------------------------------------------------------------------------------
    from ..core import cfg as CFG
    g = CFG.cfg_of(ba.node)
    skip = None
    head = g.node_of(lp)
    if len(app) == 1:
        an_ = g.node_of(app[0])
        skip = g.find_path([g.node_of(lp.body[0])], lambda n: n is head or n is g.exit, avoid=lambda n: n is an_)
    ctx.check("R4", ba, len(app) == 1 and skip is None and bool(fl) and lp.body.index(app[0]) > lp.body.index(fl[0]), "each-value-once-in-order", "every value is appended exactly once on every path of an iteration, after the possible flush, in iteration order",
              "an iteration of the batching loop can end without appending its value: the value is in no batch", node=lp, witness=g.fmt_path(skip) if skip else None)
    ctx.check("R4", ba, "values" in E and _name(lp.iter) == E["values"], "iterates-axis-values", "the loop walks the axis values in their original order")
    # after the loop, every way out of the function passes `yield rebuild(batch)`
    tail = ba.node.body[ba.node.body.index(lp) + 1:]
    final = [g.node_of(s) for s in tail if isinstance(s, ast.Expr) and "batch" in E and "rebuild" in E and M.pat("yield $rebuild($batch)").matches(s.value, E) is not None]
    missed = g.find_path([head], lambda n: n is g.exit, avoid=lambda n: n in final)
    ctx.check("R4", ba, bool(final) and missed is None, "last-batch-flushed", "the last batch is always emitted")
    ctx.check("R4", ba, len(unsplit) == 1 and _effective(ba.node.body)[0] is unsplit[0].node, "unsplittable-is-one-batch", "a query without a splittable axis is its own single batch")
    cands = M.one(sa.node, "$cands.extend($$g)", {"$g": gen})
    ctx.check("R4", sa, cands is not None and M.has(sa.node, "return max($cands, key=lambda $a: len(''.join($a[1])))", {"cands": cands["cands"]}), "one-axis", "exactly one axis (the widest) is split")
    ctx.floor("R4", 5)

    # ---- R5 combination ---------------------------------------------------------------------------------------------------
    an = P.func(MOD, "BugQuery.__and__")
    kw = {k.arg: A.unparse(k.value) for c in A.calls(an.node) if dotted(c.func) == "BugQuery" for k in c.keywords}
    ctx.check("R5", an, kw.get("charts") == "self.charts + other.charts", f"charts-concatenated:{kw.get('charts')}", "`&` keeps every chart condition of both sides (top-level charts are ANDed)",
              f"`&` combines charts as `{kw.get('charts')}`", node=an.node)
    ctx.check("R5", an, kw.get("simple") == "_merge_simple(self.simple, other.simple)", "simple-merged", "simple parameters are merged per key")
    ao = P.func(MOD, "BugQuery.any_of")
    body = "for $q in queries:\n    if $q.simple:\n        raise BugzillaUsageError(...)\n    $ch.extend($q.charts)\nreturn cls(charts=(ChartGroup(Join.OR, tuple($ch)),))"
    ored = _alt(ao.node, ["$ch: $_ = []\n" + body, "$ch = []\n" + body])
    ctx.check("R5", ao, ored is not None and ored.node in ao.node.body, "any_of-charts-only", "any_of refuses simple parameters (they cannot be ORed in a chart group)")
    menv = {"m": mrg["m"]} if mrg else {}
    if M.has(ms.node, "for $k, $v in right:\n    $e = $m.get($k, ())\n    $m[$k] = $e + tuple(($x for $x in $v if $x not in $e))", menv):
        ctx.fail("R5", ms, "same-key-simple-values-unioned", "`a & b` with the same simple key on both sides (ids([1,2]) & ids([2,3]), category() & product(X)) UNIONS the values; Bugzilla ORs the values of one key, so the result is broader than the conjunction of the two constraints", node=ms.node)
    else:
        ctx.ob("R5", ms, "_merge_simple no longer unions same-key values")
    ctx.floor("R5", 3)


F = "src/pkgcore/bugzilla/query.py"
MUTANTS = [
    {"name": "slot-by-offset", "file": F, "old": "        slot += 1\n        for child in self.children:\n            rendered, slot = _render(child, slot)\n            params.extend(rendered)\n        params.append((f\"f{slot}\", \"CP\"))\n        return params, slot + 1", "new": "        close = slot + 1\n        for offset, child in enumerate(self.children, 1):\n            rendered, close = _render(child, slot + offset)\n            params.extend(rendered)\n        params.append((f\"f{close}\", \"CP\"))\n        return params, close + 1", "rule": "R1"},
    {"name": "cp-shares-last-slot", "file": F, "old": "        params.append((f\"f{slot}\", \"CP\"))\n        return params, slot + 1", "new": "        params.append((f\"f{slot - 1}\", \"CP\"))\n        return params, slot", "rule": "R1"},
    {"name": "toplevel-slot-not-threaded", "file": F, "old": "            rendered, slot = _render(chart, slot)\n            params.extend(rendered)\n        if self.limit", "new": "            rendered, _ = _render(chart, slot)\n            slot += 1\n            params.extend(rendered)\n        if self.limit", "rule": "R1"},
    {"name": "rebuild-by-field", "file": F, "old": "            (chart.field, chart.values, functools.partial(self._rebuild_chart, index))\n            for index, chart in enumerate(self.charts)", "new": "            (chart.field, chart.values, functools.partial(self._rebuild_chart, chart.field))\n            for chart in self.charts", "rule": "R2"},
    {"name": "cost-without-separator", "file": F, "old": "            cost = len(urllib.parse.urlencode(((key, value),))) + 1", "new": "            cost = len(urllib.parse.urlencode(((key, value),)))", "rule": "R3"},
    {"name": "first-value-free-separator", "file": F, "old": "            batch.append(value)\n            used += cost", "new": "            used += cost if batch else cost - 1\n            batch.append(value)", "rule": "R3"},
    {"name": "budget-ignores-fixed", "file": F, "old": "        budget = max_length - base_length - len(urllib.parse.urlencode(empty.params()))", "new": "        budget = max_length - base_length", "rule": "R3"},
    {"name": "value-dropped-at-flush", "file": F, "old": "                yield rebuild(batch)\n                batch, used = [], 0\n            batch.append(value)", "new": "                yield rebuild(batch)\n                batch, used = [], 0\n                continue\n            batch.append(value)", "rule": "R4"},
    {"name": "and-drops-left-charts", "file": F, "old": "            charts=self.charts + other.charts,", "new": "            charts=other.charts or self.charts,", "rule": "R5"},
]
TWINS = []
