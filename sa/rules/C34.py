"""C34 — saved-environment filtering removes exactly the named definitions (scanner contracts)."""
import ast

from ..core import astutil as A
from ..core import rx as RX
from ..core.model import dotted

META = {
    "technique": "symbolic template composition of the name regex (alternation grouped before anchoring, whitelist = negative lookahead around the anchored form), scanner return-position contract (a skip function's `return pos + 1` may only follow the fact that buff[pos] is the construct's closing character), known-bad-idiom rule (escaped-ness decided by one character of look-behind), sibling agreement of the escape-aware scanners (backslash consumes the next character), output-window discipline in process_scope (filtered definitions cut the window at the command start; the final write is bounded before the sentinel)",
    "level": "Decides the structural clauses: name patterns are compiled as ^(?:a|b|...)$ (and (?!^(?:...)$) for whitelists) and applied with .match; every scanner that honours backslash escapes consumes them pairwise and none decides escaped-ness by looking one character back; in the ${...} arm of walk_dollar_expansion every return hands back the index after a closing brace; a filtered variable/function closes the output window at the start of its command and nothing past the NUL sentinel is written; functions are scanned with the brace as terminator and variables by the same quoting dispatch bash uses for dumps. Does NOT decide the scanner on concrete dumps (bash is the oracle there).",
    "note": "",
}
MOD = "pkgcore.ebuild.filter_env"


def template(fn, name, before_line):
    """Possible string templates of local `name` (JoinedStr composition; `J` = '|'.join(tokens), `T` = a raw token)."""
    outs = []
    for t, v, st in A.assignments(fn.node, name):
        if st.lineno >= before_line:
            continue
        outs.append((st, v))
    return outs


def render(fn, e, depth=0):
    """Render an expression to a template string over placeholders J (joined tokens) and T (single raw token)."""
    if isinstance(e, ast.Constant) and isinstance(e.value, str):
        return [e.value]
    if isinstance(e, ast.Call) and A.call_attr(e) == "join" and isinstance(e.func.value, ast.Constant) and e.func.value.value == "|":
        return ["\x01"]
    if isinstance(e, ast.Subscript) and A.unparse(e.value) == "tokens":
        return ["\x02"]
    if isinstance(e, ast.JoinedStr):
        outs = [""]
        for p in e.values:
            if isinstance(p, ast.Constant):
                outs = [o + p.value for o in outs]
            else:
                subs = render(fn, p.value, depth + 1)
                outs = [o + s for o in outs for s in subs]
        return outs
    if isinstance(e, ast.Name) and depth < 6:
        res = []
        ref = getattr(e, "lineno", 10**9)
        defs = [(st, v) for t, v, st in A.assignments(fn.node, e.id) if st.lineno < ref]
        if not defs:
            return ["\x03"]
        last_line = max(st.lineno for st, _ in defs)
        # all definitions at the deepest common position: take those not overwritten unconditionally
        top = [d for d in defs if d[0] in fn.node.body]
        cut = max((st.lineno for st, _ in top), default=0)
        for st, v in defs:
            if st.lineno >= cut:
                res.extend(render(fn, v, depth + 1))
        return res
    return ["\x03"]


def run(ctx):
    P = ctx.program
    ctx.explanation = META["level"]
    # ---- R1 regex construction --------------------------------------------------------------------
    br = P.func(MOD, "build_regex_string")
    comp = [c for c in A.calls(br.node) if dotted(c.func) == "re.compile"]
    ctx.require(len(comp) == 1, "build_regex_string: re.compile not found")
    forms = sorted(set(render(br, comp[0].args[0])))
    ctx.require(forms and all("\x03" not in f for f in forms), f"build_regex_string: pattern template not understood: {forms!r}")
    show = lambda f: f.replace("\x01", "<a|b|..>").replace("\x02", "<token>")
    for f in forms:
        core = f
        inv = core.startswith("(?!") and core.endswith(")")
        if inv:
            core = core[3:-1]
        ok = core in ("^(?:\x01)$", "^(?:\x02)$")
        ctx.check("R1", br, ok, f"anchored-group:{show(f)}", f"pattern form {show(f)}: the alternation is grouped inside the anchors",
                  f"build_regex_string compiles {show(f)}: the anchors bind to the first/last alternative only, so with re.match the first pattern is a PREFIX match (T_A also hits T_AB){' — a single token can carry its own alternation' if chr(2) in f else ''}", node=comp[0])
    ctx.check("R1", br, any(f.startswith("(?!") for f in forms) and any(not f.startswith("(?!") for f in forms), f"whitelist-form:{len(forms)}", "whitelist mode wraps the anchored form in a negative lookahead")
    mr = P.func(MOD, "main_run")
    t = A.unparse(mr.node)
    ctx.check("R1", mr, "build_regex_string(vars_to_filter, invert=vars_is_whitelist).match" in t and "build_regex_string(funcs_to_filter, invert=funcs_is_whitelist).match" in t, "applied-with-match", "patterns are applied with .match, whitelist flags routed to invert")
    ctx.check("R1", mr, "data = data + '\\x00'" in t, "sentinel-appended", "the dump is terminated by the NUL sentinel the scanners rely on")
    ctx.floor("R1", 4)

    # ---- R2 return-position contract ---------------------------------------------------------------------
    wd = P.func(MOD, "walk_dollar_expansion")
    body = wd.node.body
    brace_if = [n for n in body if isinstance(n, ast.If) and A.unparse(n.test) == "buff[pos] != '{'"]
    ctx.require(len(brace_if) == 1, "walk_dollar_expansion: the non-brace arm not found")
    tail = body[body.index(brace_if[0]) + 1:]
    loop = [n for n in tail if isinstance(n, ast.While)]
    ctx.require(len(loop) == 1 and "buff[pos] != '}'" in A.unparse(loop[0].test), "walk_dollar_expansion: closing-brace scan not found")
    n_ret = 0
    for st in tail:
        for r in [x for x in A.walk(st) if isinstance(x, ast.Return)]:
            n_ret += 1
            if st is tail[-1] and isinstance(st, ast.Return):
                ctx.check("R2", wd, A.unparse(r.value) == "pos + 1" and tail[-2] is loop[0], "return-after-brace-scan", "the ${...} arm returns pos + 1 right after the scan stopped on '}'")
                continue
            conds = [p.test for p in A.parents(r) if isinstance(p, ast.If)]
            facts = []
            dead = False
            flat = []
            for c in conds:
                flat.extend(c.values if isinstance(c, ast.BoolOp) and isinstance(c.op, ast.And) else [c])
            for c in flat:
                if isinstance(c, ast.Compare) and isinstance(c.ops[0], ast.Eq) and isinstance(c.comparators[0], ast.Constant) and isinstance(c.comparators[0].value, str):
                    if A.unparse(c.left) == "buff[pos]":
                        facts.append(c.comparators[0].value)
                    elif A.unparse(c.left) == "pos":
                        dead = True  # an index compared with a character: never true
            if dead:
                ctx.ob("R2", wd, f"`if {A.unparse(conds[0])}` compares the index with a character: the shortcut is dead code (the general scan handles ${{$}})", node=r)
                continue
            ok = not (A.unparse(r.value) == "pos + 1" and facts and facts[-1] != "}")
            facts = facts or ["?"]
            ctx.check("R2", wd, ok, f"shortcut-return-past-brace:{facts[-1] if facts else ''}", f"shortcut `return {A.unparse(r.value)}` lands after the closing brace",
                      f"walk_dollar_expansion returns `pos + 1` where buff[pos] == {facts[-1]!r}: that is the index OF the closing brace of `${{{facts[-1]}}}`, not the position after it — the brace is handed to the caller as free-standing and closes the enclosing {{ }} group / function early (stray bytes after filtering)", node=r)
    ctx.check("R2", wd, n_ret >= 1, f"brace-arm-returns:{n_ret}", f"{n_ret} return(s) of the ${{...}} arm inspected")
    first = [n for n in body if isinstance(n, ast.If)][:2]
    ctx.check("R2", wd, A.unparse(first[0]).startswith("if buff[pos] == '(':\n    return process_scope(None, buff, pos + 1, None, None, ')') + 1"), "subshell-arm", "$( ) is scanned as a nested scope and returns past ')'")
    ctx.check("R2", wd, "walk_statement_dollared_quote_parsing(buff, pos + 1, \"'\") + 1" in A.unparse(first[1]) and "not disable_quote" in A.unparse(first[1].test), "ansi-quote-arm", "$'..' is scanned by the ANSI-C quote scanner (not inside double quotes) and returns past the quote")
    ctx.floor("R2", 4)

    # ---- R3 escape handling -------------------------------------------------------------------------------
    n_lb = 0
    for f in P.module(MOD).funcs.values():
        for n in A.walk(f.node):
            if isinstance(n, ast.Compare) and isinstance(n.left, ast.Subscript) and isinstance(n.left.slice, ast.BinOp) and isinstance(n.left.slice.op, ast.Sub) and any(isinstance(c, ast.Constant) and c.value == "\\" for c in n.comparators):
                n_lb += 1
                ctx.fail("R3", f, f"escape-by-lookbehind:{A.unparse(n)[:40]}", f"`{A.unparse(n)}` decides whether a character is escaped by looking ONE character back: an escaped backslash before the quote (\\\\') is mistaken for an escape, the quote is not closed and the scan runs on into the following definitions", node=n)
    ctx.ob("R3", MOD, f"no scanner decides escaped-ness by look-behind ({n_lb} sites)")
    for name in ("walk_statement_dollared_quote_parsing", "walk_command_complex", "raw_walk_command_escaped_parsing"):
        f = P.func(MOD, name)
        loops = [n for n in f.node.body if isinstance(n, ast.While)]
        if not ctx.check("R3", f, len(loops) == 1, f"char-loop:{name}", f"{name} walks the buffer in one loop", f"{name} no longer walks the buffer character by character", node=f.node):
            continue
        lp = loops[0]
        arms = [n for n in A.walk(lp) if isinstance(n, ast.If) and isinstance(n.test, ast.Compare) and any(isinstance(c, ast.Constant) and c.value == "\\" for c in n.test.comparators)]
        ok = len(arms) == 1 and [A.unparse(s) for s in arms[0].body] == ["pos += 1"] and A.unparse(lp.body[-1]) == "pos += 1"
        ctx.check("R3", f, ok, f"backslash-consumes-next:{name}", f"{name}: a backslash consumes the following character (escapes are taken pairwise)",
                  f"{name} does not consume backslash escapes pairwise", node=lp)
    dq = P.func(MOD, "walk_statement_dollared_quote_parsing")
    lp = [n for n in dq.node.body if isinstance(n, ast.While)]
    if lp:
        first_if = lp[0].body[0]
        ctx.check("R3", dq, isinstance(first_if, ast.If) and A.unparse(first_if.test) == "buff[pos] == endchar" and A.unparse(first_if.body[0]) == "return pos", "ansi-quote-ends-at-unescaped-quote", "the ANSI-C quote ends at the first quote not consumed by an escape")
    np_ = P.func(MOD, "walk_statement_no_parsing")
    ctx.check("R3", np_, "buff.find(endchar, pos)" in A.unparse(np_.node), "single-quote-raw", "single quotes end at the next quote, no escapes")
    ctx.floor("R3", 5)

    # ---- R4 output windows ----------------------------------------------------------------------------------
    ps = P.func(MOD, "process_scope")
    t = A.unparse(ps.node)
    cuts = [st for tg, v, st in A.assignments(ps.node, "window_end") if A.unparse(v) == "com_start"]
    conds = sorted(A.unparse(next(p for p in A.parents(st) if isinstance(p, ast.If)).test) for st in cuts)
    ctx.check("R4", ps, conds == ["func_match is not None and func_match(func_name)", "var_match is not None and var_match(var_name)"], f"cut-at-command-start:{len(cuts)}", "a matching function / variable closes the output window at the start of its command",
              f"the output window is cut under {conds}", node=ps.node)
    ctx.check("R4", ps, "com_start = pos" in t and "out.write(buff[window_start:window_end].encode('utf-8'))" in t and "window_start = pos" in t, "window-flush", "the window before a filtered definition is flushed and a new one starts after it")
    ctx.check("R4", ps, "limit = end - 1 if buff[-1:] == endchar else end" in t and "window_end = min(window_end, limit)" in t, "final-write-bounded", "the final write stops before the terminator of the scope (no stray NUL)",
              "process_scope's final write is no longer bounded before the scope terminator: the NUL sentinel (or bytes past it) reach the output", node=ps.node)
    rec = [c for c in A.calls(ps.node) if dotted(c.func) == "process_scope"]
    ctx.check("R4", ps, len(rec) == 1 and A.unparse(rec[0].args[0]) == "None" and A.unparse(rec[0].args[5]) == "'}'", "function-body-scope", "a function body is scanned as a nested scope terminated by '}', writing nothing itself")
    ctx.check("R4", ps, "func_callback(func_level, func_name, buff[new_start:new_p])" in t and "envvar_callback(var_name)" in t, "callbacks", "callbacks see every function (with its text) and variable name")
    rn = P.func(MOD, "run")
    ctx.check("R4", rn, "'\\x00'" in A.unparse(rn.node), "outer-scope-ends-at-sentinel", "the outermost scope ends at the NUL sentinel")
    ctx.floor("R4", 6)

    # ---- R5 value dispatch (assignment right-hand sides) --------------------------------------------------------
    loops = [n for n in A.walk(ps.node) if isinstance(n, ast.While) and "buff[pos] != ';'" in A.unparse(n.test)]
    ctx.require(len(loops) == 1, "process_scope: assignment value scan not found")
    arms = {}
    n = loops[0].body[0]
    while isinstance(n, ast.If):
        arms[A.unparse(n.test)] = A.unparse(ast.Module(body=n.body, type_ignores=[]))
        n = n.orelse[0] if len(n.orelse) == 1 and isinstance(n.orelse[0], ast.If) else None
    want = {"buff[pos] == \"'\"": "walk_statement_no_parsing(buff, pos + 1, \"'\") + 1", "buff[pos] in '\"`'": "walk_command_escaped_parsing(buff, pos + 1, buff[pos]) + 1", "buff[pos] == '('": "walk_command_escaped_parsing(buff, pos + 1, ')') + 1", "buff[pos] == '$'": "walk_dollar_expansion(buff, pos, end, endchar)"}
    for k, v in want.items():
        ctx.check("R5", ps, k in arms and v in arms[k], f"value-arm:{k[-6:]}", f"value scan: `{k}` -> {v.split('(')[0]}", f"the assignment value scan lost / changed its `{k}` arm", node=loops[0])
    ctx.check("R5", ps, A.unparse(loops[0].test) == "pos < end and (not isspace(buff[pos])) and (buff[pos] != ';')", "value-ends", "a value ends at unquoted whitespace or ';'")
    ctx.floor("R5", 5)


F = "src/pkgcore/ebuild/filter_env.py"
MUTANTS = [
    {"name": "ungrouped-alternation", "file": F, "old": "    s = f\"^(?:{'|'.join(tokens)})$\"", "new": "    s = f\"^{'|'.join(tokens)}$\"", "rule": "R1"},
    {"name": "revert-single-token-raw", "file": F, "old": "    s = f\"^(?:{'|'.join(tokens)})$\"", "new": "    if len(tokens) == 1:\n        s = tokens[0]\n    else:\n        s = f\"(?:{'|'.join(tokens)})\"\n    s = f\"^{s}$\"", "rule": "R1"},
    {"name": "pid-shortcut-live", "file": F, "old": "    if pos == \"$\":\n        return pos + 1", "new": "    if buff[pos] == \"$\":\n        return pos + 1", "rule": "R2"},
    {"name": "lookbehind-escape", "file": F, "old": "    end = len(buff)\n    while pos < end:\n        if buff[pos] == endchar:\n            return pos\n        elif buff[pos] == \"\\\\\":\n            pos += 1\n        pos += 1\n    return pos\n\n\ndef walk_here_statement", "new": "    pos = buff.find(endchar, pos)\n    while pos != -1:\n        if buff[pos - 1] != \"\\\\\":\n            return pos\n        pos = buff.find(endchar, pos + 1)\n    return len(buff)\n\n\ndef walk_here_statement", "rule": "R3"},
    {"name": "backslash-not-consumed", "file": F, "old": "        if ch == endchar:\n            return pos\n        elif ch == \"\\\\\":\n            pos += 1\n        elif ch == \"{\":", "new": "        if ch == endchar:\n            return pos\n        elif ch == \"{\":", "rule": "R3"},
    {"name": "revert-unbounded-final-write", "file": F, "old": "        window_end = min(window_end, limit)\n", "new": "", "rule": "R4"},
    {"name": "cut-after-definition", "file": F, "old": "                logger.info(f\"filtering var {var_name!r}\")\n                window_end = com_start", "new": "                logger.info(f\"filtering var {var_name!r}\")\n                window_end = pos", "rule": "R4"},
    {"name": "no-ansi-quote-arm", "file": F, "old": "                elif buff[pos] == \"(\":\n                    pos = walk_command_escaped_parsing(buff, pos + 1, \")\") + 1\n                elif buff[pos] == \"$\":", "new": "                elif buff[pos] == \"$\" and False:", "rule": "R5"},
]
TWINS = [
    {"name": "pid-shortcut-correct", "file": F, "old": "    if pos == \"$\":\n        return pos + 1", "new": "    if buff[pos] == \"$\" and buff[pos + 1 : pos + 2] == \"}\":\n        return pos + 2"},
]
