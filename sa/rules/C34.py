"""C34 — saved-environment filtering removes exactly the named definitions (scanner contracts)."""
import ast

from ..core import astutil as A
from ..core import match as M
from ..core import rx as RX
from ..core.model import dotted

META = {
    "technique": "symbolic template composition of the name regex (alternation grouped before anchoring, whitelist = negative lookahead around the anchored form), scanner return-position contract (a skip function's `return pos + 1` may only follow the fact that buff[pos] is the construct's closing character), known-bad-idiom rule (escaped-ness decided by one character of look-behind), sibling agreement of the escape-aware scanners (backslash consumes the next character), output-window discipline in process_scope (filtered definitions cut the window at the command start; the final write is bounded before the sentinel)",
    "level": "Decides the structural clauses: name patterns are compiled as ^(?:a|b|...)$ (and (?!^(?:...)$) for whitelists) and applied with .match; every scanner that honours backslash escapes consumes them pairwise and none decides escaped-ness by looking one character back; in the ${...} arm of walk_dollar_expansion every return hands back the index after a closing brace; a filtered variable/function closes the output window at the start of its command and nothing past the NUL sentinel is written; functions are scanned with the brace as terminator and variables by the same quoting dispatch bash uses for dumps. Does NOT decide the scanner on concrete dumps (bash is the oracle there).",
    "note": "",
}
META["technique"] += "; " + 'generic pack G on the anchored files (optional-flag shift, closures outliving a loop iteration, single-pass iterables consumed twice, %-templates built from data, in-place writes to class-level / memoised objects, generators mutating what they yielded, memo keys that are projections)'
MOD = "pkgcore.ebuild.filter_env"


def inert(st):
    """A statement without effect on the scan: `pass`, a bare constant, a logging / warning call."""
    if isinstance(st, ast.Pass):
        return True
    if isinstance(st, ast.Expr):
        if isinstance(st.value, ast.Constant):
            return True
        if isinstance(st.value, ast.Call) and (dotted(st.value.func) or "").startswith(("logger.", "logging.", "warnings.")):
            return True
    return False


def eff(stmts):
    """The effective statements of a body (inert ones dropped)."""
    return [st for st in stmts if not inert(st)]


def is_stmt(st, pattern, env=None):
    return st is not None and M.pat(pattern).matches(st, env) is not None


def render(fn, e, depth=0):
    """Render an expression to a template string over placeholders J (joined tokens) and T (single raw token)."""
    if isinstance(e, ast.Constant) and isinstance(e.value, str):
        return [e.value]
    if isinstance(e, ast.Call) and A.call_attr(e) == "join" and isinstance(e.func.value, ast.Constant) and e.func.value.value == "|":
        return ["\x01"]
    if isinstance(e, ast.Subscript) and A.unparse(e.value) == "tokens":
        return ["\x02"]
    if isinstance(e, ast.JoinedStr):
        outs = [""]
        for p in e.values:
            if isinstance(p, ast.Constant):
                outs = [o + p.value for o in outs]
            else:
                subs = render(fn, p.value, depth + 1)
                outs = [o + s for o in outs for s in subs]
        return outs
    if isinstance(e, ast.Name) and depth < 6:
        res = []
        ref = getattr(e, "lineno", 10**9)
        defs = [(st, v) for t, v, st in A.assignments(fn.node, e.id) if st.lineno < ref]
        if not defs:
            return ["\x03"]
        last_line = max(st.lineno for st, _ in defs)
        # all definitions at the deepest common position: take those not overwritten unconditionally
        top = [d for d in defs if d[0] in fn.node.body]
        cut = max((st.lineno for st, _ in top), default=0)
        for st, v in defs:
            if st.lineno >= cut:
                res.extend(render(fn, v, depth + 1))
        return res
    return ["\x03"]


def run(ctx):
    P = ctx.program
    ctx.explanation = META["level"]
    # ---- R1 regex construction --------------------------------------------------------------------
    br = P.func(MOD, "build_regex_string")
    comp = [c for c in A.calls(br.node) if dotted(c.func) == "re.compile"]
    ctx.require(len(comp) == 1, "build_regex_string: re.compile not found")
    forms = sorted(set(render(br, comp[0].args[0])))
    ctx.require(forms and all("\x03" not in f for f in forms), f"build_regex_string: pattern template not understood: {forms!r}")
    show = lambda f: f.replace("\x01", "<a|b|..>").replace("\x02", "<token>")
    for f in forms:
        core = f
        inv = core.startswith("(?!") and core.endswith(")")
        if inv:
            core = core[3:-1]
        ok = core in ("^(?:\x01)$", "^(?:\x02)$")
        ctx.check("R1", br, ok, f"anchored-group:{show(f)}", f"pattern form {show(f)}: the alternation is grouped inside the anchors",
                  f"build_regex_string compiles {show(f)}: the anchors bind to the first/last alternative only, so with re.match the first pattern is a PREFIX match (T_A also hits T_AB){' — a single token can carry its own alternation' if chr(2) in f else ''}", node=comp[0])
    ctx.check("R1", br, any(f.startswith("(?!") for f in forms) and any(not f.startswith("(?!") for f in forms), f"whitelist-form:{len(forms)}", "whitelist mode wraps the anchored form in a negative lookahead")
    mr = P.func(MOD, "main_run")
    ctx.check("R1", mr, M.has(mr.node, "build_regex_string(vars_to_filter, invert=vars_is_whitelist).match") and M.has(mr.node, "build_regex_string(funcs_to_filter, invert=funcs_is_whitelist).match"), "applied-with-match", "patterns are applied with .match, whitelist flags routed to invert")
    ctx.check("R1", mr, M.has(mr.node, "data = data + '\\x00'"), "sentinel-appended", "the dump is terminated by the NUL sentinel the scanners rely on")
    ctx.floor("R1", 4)

    # ---- R2 return-position contract ---------------------------------------------------------------------
    # (walk_dollar_expansion has no locals: buff, pos, end, endchar, disable_quote are its parameters)
    wd = P.func(MOD, "walk_dollar_expansion")
    body = wd.node.body
    brace_if = [n for n in body if is_stmt(n, "if buff[pos] != '{':\n    ...")]
    ctx.require(len(brace_if) == 1, "walk_dollar_expansion: the non-brace arm not found")
    tail = eff(body[body.index(brace_if[0]) + 1:])
    loop = [n for n in tail if isinstance(n, ast.While)]
    ctx.require(len(loop) == 1 and M.has(loop[0].test, "buff[pos] != '}'"), "walk_dollar_expansion: closing-brace scan not found")
    n_ret = 0
    for st in tail:
        for r in [x for x in A.walk(st) if isinstance(x, ast.Return)]:
            n_ret += 1
            if st is tail[-1] and isinstance(st, ast.Return):
                # the last effective statement of the arm, and the scan loop is the effective statement before it
                ctx.check("R2", wd, is_stmt(r, "return pos + 1") and len(tail) >= 2 and tail[-2] is loop[0], "return-after-brace-scan", "the ${...} arm returns pos + 1 right after the scan stopped on '}'")
                continue
            conds = [p.test for p in A.parents(r) if isinstance(p, ast.If)]
            facts = []
            dead = False
            flat = []
            for c in conds:
                flat.extend(c.values if isinstance(c, ast.BoolOp) and isinstance(c.op, ast.And) else [c])
            for c in flat:
                if isinstance(c, ast.Compare) and isinstance(c.ops[0], ast.Eq) and isinstance(c.comparators[0], ast.Constant) and isinstance(c.comparators[0].value, str):
                    if M.pat("buff[pos]").matches(c.left):
                        facts.append(c.comparators[0].value)
                    elif M.pat("pos").matches(c.left):
                        dead = True  # an index compared with a character: never true
            if dead:
                ctx.ob("R2", wd, f"`if {A.unparse(conds[0])}` compares the index with a character: the shortcut is dead code (the general scan handles ${{$}})", node=r)
                continue
            ok = not (is_stmt(r, "return pos + 1") and facts and facts[-1] != "}")
            facts = facts or ["?"]
            ctx.check("R2", wd, ok, f"shortcut-return-past-brace:{facts[-1] if facts else ''}", f"shortcut `return {A.unparse(r.value)}` lands after the closing brace",
                      f"walk_dollar_expansion returns `pos + 1` where buff[pos] == {facts[-1]!r}: that is the index OF the closing brace of `${{{facts[-1]}}}`, not the position after it — the brace is handed to the caller as free-standing and closes the enclosing {{ }} group / function early (stray bytes after filtering)", node=r)
    ctx.check("R2", wd, n_ret >= 1, f"brace-arm-returns:{n_ret}", f"{n_ret} return(s) of the ${{...}} arm inspected")
    # the two arms dispatched before `pos` is moved past the '{' (top-level statements ahead of the non-brace arm)
    head = [n for n in body if n.lineno < brace_if[0].lineno]
    ctx.check("R2", wd, any(is_stmt(n, "if buff[pos] == '(':\n    return process_scope(None, buff, pos + 1, None, None, ')') + 1") for n in head), "subshell-arm", "$( ) is scanned as a nested scope and returns past ')'")
    ctx.check("R2", wd, any(is_stmt(n, "if buff[pos] == \"'\" and (not disable_quote):\n    return walk_statement_dollared_quote_parsing(buff, pos + 1, \"'\") + 1") for n in head), "ansi-quote-arm", "$'..' is scanned by the ANSI-C quote scanner (not inside double quotes) and returns past the quote")
    ctx.floor("R2", 4)

    # ---- R3 escape handling -------------------------------------------------------------------------------
    n_lb = 0
    for f in P.module(MOD).funcs.values():
        for n in A.walk(f.node):
            if isinstance(n, ast.Compare) and isinstance(n.left, ast.Subscript) and isinstance(n.left.slice, ast.BinOp) and isinstance(n.left.slice.op, ast.Sub) and any(isinstance(c, ast.Constant) and c.value == "\\" for c in n.comparators):
                n_lb += 1
                ctx.fail("R3", f, f"escape-by-lookbehind:{A.unparse(n)[:40]}", f"`{A.unparse(n)}` decides whether a character is escaped by looking ONE character back: an escaped backslash before the quote (\\\\') is mistaken for an escape, the quote is not closed and the scan runs on into the following definitions", node=n)
    ctx.ob("R3", MOD, f"no scanner decides escaped-ness by look-behind ({n_lb} sites)")
    for name in ("walk_statement_dollared_quote_parsing", "walk_command_complex", "raw_walk_command_escaped_parsing"):
        f = P.func(MOD, name)
        loops = [n for n in f.node.body if isinstance(n, ast.While)]
        if not ctx.check("R3", f, len(loops) == 1, f"char-loop:{name}", f"{name} walks the buffer in one loop", f"{name} no longer walks the buffer character by character", node=f.node):
            continue
        lp = loops[0]
        arms = [n for n in A.walk(lp) if isinstance(n, ast.If) and isinstance(n.test, ast.Compare) and any(isinstance(c, ast.Constant) and c.value == "\\" for c in n.test.comparators)]
        # the backslash arm does nothing but step once, and the loop body ends with the common step: two characters consumed
        lbody = eff(lp.body)
        ok = len(arms) == 1 and len(eff(arms[0].body)) == 1 and is_stmt(eff(arms[0].body)[0], "pos += 1") and bool(lbody) and is_stmt(lbody[-1], "pos += 1")
        ctx.check("R3", f, ok, f"backslash-consumes-next:{name}", f"{name}: a backslash consumes the following character (escapes are taken pairwise)",
                  f"{name} does not consume backslash escapes pairwise", node=lp)
    dq = P.func(MOD, "walk_statement_dollared_quote_parsing")
    lp = [n for n in dq.node.body if isinstance(n, ast.While)]
    if lp:
        lbody = eff(lp[0].body)
        first_if = lbody[0] if lbody else None
        ctx.check("R3", dq, isinstance(first_if, ast.If) and M.pat("buff[pos] == endchar").matches(first_if.test) is not None and bool(eff(first_if.body)) and is_stmt(eff(first_if.body)[0], "return pos"), "ansi-quote-ends-at-unescaped-quote", "the ANSI-C quote ends at the first quote not consumed by an escape")
    np_ = P.func(MOD, "walk_statement_no_parsing")
    ctx.check("R3", np_, M.has(np_.node, "buff.find(endchar, pos)"), "single-quote-raw", "single quotes end at the next quote, no escapes")
    ctx.floor("R3", 5)

    # ---- R4 output windows ----------------------------------------------------------------------------------
    ps = P.func(MOD, "process_scope")
    mains = [n for n in ps.node.body if isinstance(n, ast.While)]
    ctx.require(len(mains) == 1, "process_scope: the command loop not found")
    main = mains[0]
    # locals are found by their role: the window bounds are what the writes slice the buffer with,
    # the command start is what is taken from pos at the top of every iteration, right after the flush
    writes = M.find(ps.node, "out.write(buff[$ws:$we].encode('utf-8'))")
    E = dict(writes[0].env) if writes else {}
    same_window = bool(writes) and all(w.env == E for w in writes)
    m_end = M.one(ps.node.body, "$end = len(buff)")
    if m_end:
        E["end"] = m_end["end"]
    flush = M.one(main.body, "if $we is not None:\n    if out is not None:\n        out.write(buff[$ws:$we].encode('utf-8'))\n    $ws = pos\n    $we = None\n$cs = pos", E) if same_window else None
    flush = flush if flush is not None and flush.node in main.body else None
    if flush:
        E["cs"] = flush["cs"]
    cuts = [m.node for m in M.find(main, "$we = $cs", E)] if flush else []
    conds = sorted(A.unparse(next((p for p in A.parents(st) if isinstance(p, ast.If)), main).test) for st in cuts)
    func_cut = flush is not None and M.has(main.body, "$fa, $fb, $fp = is_function(buff, pos)\nif $fp is not None:\n    $fn = buff[$fa:$fb]\n    if func_match is not None and func_match($fn):\n        $we = $cs", E)
    var_cut = flush is not None and M.has(main.body, "$va, $vb, $vp = is_envvar(buff, pos)\nif $vp is None:\n    ...\nelse:\n    $vn = buff[$va:$vb]\n    if var_match is not None and var_match($vn):\n        $we = $cs", E)
    # inside the loop the window end is only ever reset or put at the command start
    other = [st for tg, v, st in A.assignments(main, E.get("we", "")) if not (A.is_const(v, None) or (isinstance(v, ast.Name) and v.id == E.get("cs")))]
    ctx.check("R4", ps, len(cuts) == 2 and func_cut and var_cut and not other, f"cut-at-command-start:{len(cuts)}", "a matching function / variable closes the output window at the start of its command",
              f"the output window is cut under {conds}" + (f"; and moved by `{A.unparse(other[0])}`" if other else ""), node=ps.node)
    ctx.check("R4", ps, flush is not None, "window-flush", "the window before a filtered definition is flushed and a new one starts after it")
    fin = "if out is not None:\n    $limit = $end - 1 if buff[-1:] == endchar else $end\n    $we = min($we, $limit)\n    out.write(buff[$ws:$we].encode('utf-8'))"
    ctx.check("R4", ps, same_window and any(is_stmt(st, fin, E) for st in ps.node.body if st.lineno > main.lineno), "final-write-bounded", "the final write stops before the terminator of the scope (no stray NUL)",
              "process_scope's final write is no longer bounded before the scope terminator: the NUL sentinel (or bytes past it) reach the output", node=ps.node)
    rec = [c for c in A.calls(ps.node) if dotted(c.func) == "process_scope"]
    ctx.check("R4", ps, len(rec) == 1 and M.pat("process_scope(None, buff, $_, None, None, '}', ...)").matches(rec[0]) is not None, "function-body-scope", "a function body is scanned as a nested scope terminated by '}', writing nothing itself")
    fsite = M.one(main.body, "$fa, $fb, $fp = is_function(buff, pos)\nif $fp is not None:\n    $fn = buff[$fa:$fb]\n    $fp = process_scope(None, buff, $fp, ...)")
    vsite = M.one(main.body, "$va, $vb, $vp = is_envvar(buff, pos)\nif $vp is None:\n    ...\nelse:\n    $vn = buff[$va:$vb]")
    ctx.check("R4", ps, fsite is not None and vsite is not None and M.has(main, "func_callback(func_level, $fn, buff[$fa:$fp])", fsite.env) and M.has(main, "envvar_callback($vn)", vsite.env), "callbacks", "callbacks see every function (with its text) and variable name")
    rn = P.func(MOD, "run")
    ctx.check("R4", rn, M.has(rn.node, "process_scope(out, file_buff, 0, var_match, func_match, '\\x00', ...)"), "outer-scope-ends-at-sentinel", "the outermost scope ends at the NUL sentinel")
    ctx.floor("R4", 6)

    # ---- R5 value dispatch (assignment right-hand sides) --------------------------------------------------------
    loops = [n for n in A.walk(main) if isinstance(n, ast.While) and n is not main and M.has(n.test, "buff[pos] != ';'")]
    ctx.require(len(loops) == 1, "process_scope: assignment value scan not found")
    E5 = {"end": E["end"]} if "end" in E else {}
    m_sp = M.one(ps.node.body, "$isspace = str.isspace")
    if m_sp:
        E5["isspace"] = m_sp["isspace"]
    arms = []
    lbody = eff(loops[0].body)
    n = lbody[0] if lbody else None
    while isinstance(n, ast.If):
        arms.append(n)
        n = n.orelse[0] if len(n.orelse) == 1 and isinstance(n.orelse[0], ast.If) else None
    want = {"buff[pos] == \"'\"": "walk_statement_no_parsing(buff, pos + 1, \"'\") + 1", "buff[pos] in '\"`'": "walk_command_escaped_parsing(buff, pos + 1, buff[pos]) + 1", "buff[pos] == '('": "walk_command_escaped_parsing(buff, pos + 1, ')') + 1", "buff[pos] == '$'": "walk_dollar_expansion(buff, pos, $end, endchar)"}
    for k, v in want.items():
        arm = [a for a in arms if M.pat(k).matches(a.test) is not None]
        ctx.check("R5", ps, len(arm) == 1 and M.has(arm[0].body, f"pos = {v}", E5), f"value-arm:{k[-6:]}", f"value scan: `{k}` -> {v.split('(')[0]}", f"the assignment value scan lost / changed its `{k}` arm", node=loops[0])
    ctx.check("R5", ps, m_sp is not None and is_stmt(loops[0], "while pos < $end and (not $isspace(buff[pos])) and (buff[pos] != ';'):\n    ...", E5), "value-ends", "a value ends at unquoted whitespace or ';'")
    ctx.floor("R5", 5)


F = "src/pkgcore/ebuild/filter_env.py"
MUTANTS = [
    {"name": "ungrouped-alternation", "file": F, "old": "    s = f\"^(?:{'|'.join(tokens)})$\"", "new": "    s = f\"^{'|'.join(tokens)}$\"", "rule": "R1"},
    {"name": "revert-single-token-raw", "file": F, "old": "    s = f\"^(?:{'|'.join(tokens)})$\"", "new": "    if len(tokens) == 1:\n        s = tokens[0]\n    else:\n        s = f\"(?:{'|'.join(tokens)})\"\n    s = f\"^{s}$\"", "rule": "R1"},
    {"name": "pid-shortcut-live", "file": F, "old": "    if pos == \"$\":\n        return pos + 1", "new": "    if buff[pos] == \"$\":\n        return pos + 1", "rule": "R2"},
    {"name": "lookbehind-escape", "file": F, "old": "    end = len(buff)\n    while pos < end:\n        if buff[pos] == endchar:\n            return pos\n        elif buff[pos] == \"\\\\\":\n            pos += 1\n        pos += 1\n    return pos\n\n\ndef walk_here_statement", "new": "    pos = buff.find(endchar, pos)\n    while pos != -1:\n        if buff[pos - 1] != \"\\\\\":\n            return pos\n        pos = buff.find(endchar, pos + 1)\n    return len(buff)\n\n\ndef walk_here_statement", "rule": "R3"},
    {"name": "backslash-not-consumed", "file": F, "old": "        if ch == endchar:\n            return pos\n        elif ch == \"\\\\\":\n            pos += 1\n        elif ch == \"{\":", "new": "        if ch == endchar:\n            return pos\n        elif ch == \"{\":", "rule": "R3"},
    {"name": "revert-unbounded-final-write", "file": F, "old": "        window_end = min(window_end, limit)\n", "new": "", "rule": "R4"},
    {"name": "cut-after-definition", "file": F, "old": "                logger.info(f\"filtering var {var_name!r}\")\n                window_end = com_start", "new": "                logger.info(f\"filtering var {var_name!r}\")\n                window_end = pos", "rule": "R4"},
    {"name": "no-ansi-quote-arm", "file": F, "old": "                elif buff[pos] == \"(\":\n                    pos = walk_command_escaped_parsing(buff, pos + 1, \")\") + 1\n                elif buff[pos] == \"$\":", "new": "                elif buff[pos] == \"$\" and False:", "rule": "R5"},
]
TWINS = [
    {"name": "pid-shortcut-correct", "file": F, "old": "    if pos == \"$\":\n        return pos + 1", "new": "    if buff[pos] == \"$\" and buff[pos + 1 : pos + 2] == \"}\":\n        return pos + 2"},
]
