"""C02 — equality, ordering and hashing of package versions and atoms agree (structural clauses)."""
import ast

from ..core import generic as G
from ..core import astutil as A
from ..core import match as M
from ..core.eqhash import Engine, eq_true_paths
from ..core.model import dotted
from ..core.sides import SideInterp

META = {
    "technique": "equality/hash/ordering field-set analysis: attributes compared by __eq__ (per truthy return path), attributes read by __hash__ (incl. the expression stored in _hash), attributes read by __cmp__/__lt__; operator/orientation table of sibling rich-comparison methods",
    "level": "Decides necessary conditions of 'equal => same hash, unequal => strictly ordered': (R1) CPV.__hash__ reads only attributes that every truthy path of CPV.__eq__ compares; (R2) the hash stored for an atom derives only from attributes in its equality list; (R3) atom.__cmp__ reads exactly the attributes equality compares (cpvstr == category+package+version+revision); (R4) each rich comparison of Revision and CPV uses its own operator with self on the left in every arm, and CPV's ordering reads the attributes its equality reads. Does NOT decide hash/order equality for concrete values.",
    "note": "library facts: snakeoil GenericEquality compares __attr_comparison__; reflective_hash returns the stored attribute; inject_richcmp_methods_from_cmp derives <,<=,>,>= from __cmp__. Attributes are assumed to vary independently.",
}
META["technique"] += "; " + 'effect analysis on ==/ordering/hash methods'
META["level"] += " Added after the second round of independent changes: " + '(R5) ver_cmp and every ==, ordering and hash method of CPV, Revision and atom write only to objects created by the call.'
META["technique"] += "; " + 'generic pack G on the anchored files (optional-flag shift, closures outliving a loop iteration, single-pass iterables consumed twice, %-templates built from data, in-place writes to class-level / memoised objects, generators mutating what they yielded, memo keys that are projections)'

OPS = {"__lt__": ast.Lt, "__le__": ast.LtE, "__gt__": ast.Gt, "__ge__": ast.GtE, "__eq__": ast.Eq}
CPVSTR_EQUIV = {"category", "package", "version", "revision"}


def rich_cmp_siblings(ctx, rule, K, names=OPS):
    """Every comparison returned by rich method M uses M's own operator, receiver on the left."""
    for name, op in names.items():
        m = K.methods.get(name)
        ctx.require(m is not None, f"{K.qual}.{name} not found")
        ps = m.params()
        seeds = {ps[0]: {1}, ps[1]: {2}}
        interp = SideInterp(seeds)
        for r in A.returns(m.node):
            v = r.value
            if isinstance(v, ast.Compare) and len(v.ops) == 1:
                l, rr = interp.sides(v.left, seeds), interp.sides(v.comparators[0], seeds)
                if isinstance(v.left, ast.Call):
                    continue  # ver_cmp(...) <op> 0 handled by the wiring rule
                ok = isinstance(v.ops[0], op) or (name in ("__le__", "__ge__") and dotted(v.left) in ("self.package", "self.category")
                                                   and isinstance(v.ops[0], ast.Lt if name == "__le__" else ast.Gt))
                ctx.check(rule, m, ok, f"arm-op@{A.unparse(v.left)}", f"{name}: arm `{A.unparse(v)}` uses the method's own operator", node=r)
                ctx.check(rule, m, l <= {1} and rr <= {2} and bool(l), f"arm-orientation@{A.unparse(v.left)}",
                          f"{name}: arm `{A.unparse(v)}` has the receiver on the left", node=r)


def _is_log_call(e):
    """a logging / warning call used as a statement: no effect on the values compared"""
    nm = dotted(e.func) if isinstance(e, ast.Call) else None
    return bool(nm) and nm.split(".")[0] in ("logger", "logging", "warnings")


def lossless(arg, fn):
    """operand of a three-way comparison that preserves distinctness: attribute, `attr or const`, or a local
    helper whose body is `<const> if v is None else v`."""
    if isinstance(arg, ast.Attribute):
        return True
    if isinstance(arg, ast.BoolOp) and isinstance(arg.op, ast.Or) and isinstance(arg.values[0], ast.Attribute) and all(isinstance(v, ast.Constant) for v in arg.values[1:]):
        return True
    if isinstance(arg, ast.Call) and isinstance(arg.func, ast.Name) and len(arg.args) == 1 and isinstance(arg.args[0], ast.Attribute):
        for n in ast.walk(fn.node):
            if isinstance(n, ast.FunctionDef) and n.name == arg.func.id and len(n.args.args) == 1:
                # the helper's only effective statement is the return (docstrings, `pass`, bare constant / logging
                # expression statements do not count; anything that could rebind the parameter does)
                eff = [st for st in n.body if not isinstance(st, ast.Pass)
                       and not (isinstance(st, ast.Expr) and (isinstance(st.value, ast.Constant) or _is_log_call(st.value)))]
                if len(eff) != 1 or not isinstance(eff[0], ast.Return) or eff[0].value is None:
                    continue
                env = {"v": n.args.args[0].arg}
                for shape in ("$$c if $v is None else $v", "$v if $v is not None else $$c"):
                    m = M.pat(shape).matches(eff[0].value, env)
                    if m is not None and isinstance(m["$c"], ast.Constant):
                        return True
        return False
    return False


def run(ctx):
    P = ctx.program
    E = Engine(P)
    ctx.explanation = META["level"]
    CPV = P.cls("pkgcore.ebuild.cpv", "CPV")
    Rev = P.cls("pkgcore.ebuild.cpv", "Revision")
    atom = P.cls("pkgcore.ebuild.atom", "atom")

    # ---- R1: CPV hash vs eq paths ------------------------------------------
    eq = E.eq_spec(CPV)
    ctx.require(eq["kind"] == "custom", "CPV.__eq__ is no longer a custom method; idiom changed")
    hs = E.hash_spec(CPV)
    ctx.require(hs["kind"] == "fields", f"CPV.__hash__ kind {hs['kind']} not understood")
    paths = eq_true_paths(eq["via"])
    ctx.require(len(paths) >= 1, "CPV.__eq__: no truthy return path found")
    for r, fields in paths:
        for hf in sorted(hs["fields"]):
            ok = hf in fields
            ctx.check("R1", hs["via"], ok, f"hash-field-not-compared:{hf}",
                      f"hash attribute {hf!r} is compared on the equality path at line {r.lineno} ({sorted(fields)})",
                      f"CPV.__hash__ reads {hf!r} but the equality path `{A.unparse(r)[:60]}` decides on {sorted(fields)} "
                      f"(versions equal under ver_cmp, e.g. 1.0 and 1.00, hash differently)", node=hs["via"].node)
    # versions are compared through ver_cmp on the main path
    ctx.check("R1", eq["via"], "ver_cmp" in " ".join(sorted(set().union(*eq["wrappers"].values()) if eq["wrappers"] else [])) or any(
        dotted(c.func) == "ver_cmp" for c in A.calls(eq["via"].node)), "eq-uses-ver_cmp", "CPV.__eq__ decides version equality through ver_cmp", node=eq["via"].node)
    # the hashed/compared cpvstr is canonical in its revision: every re-rendering of "-r<rev>" goes through int()
    cinit = CPV.methods.get("__init__")
    ctx.require(cinit is not None, "CPV.__init__ not found")
    rer = []
    for c in A.calls(cinit.node):
        if len(c.args) == 3 and A.is_const(c.args[1], "cpvstr") and isinstance(c.args[2], ast.JoinedStr):
            js = c.args[2]
            lits = "".join(v.value for v in js.values if isinstance(v, ast.Constant))
            if "-r" in lits:
                rer.append((c, js))
    ctx.require(rer, "CPV.__init__: no re-rendering of cpvstr with a revision found; idiom changed")
    for c, js in rer:
        fv = [v for v in js.values if isinstance(v, ast.FormattedValue)][-1]
        ok = isinstance(fv.value, ast.Call) and dotted(fv.value.func) == "int"
        ctx.check("R1", cinit, ok, "cpvstr-canonical-revision", "cpvstr is rebuilt with the integer value of a zero-padded revision",
                  f"CPV.__init__ rebuilds cpvstr with `{A.unparse(fv.value)}` instead of the integer revision: equal versions get different cpvstr (hash / equality shortcut disagree with ordering)", node=c)
    # the revision local is found by its role (built by Revision(...) / stored as the 'revision' attribute), not by name
    revs = {m["rev"] for m in M.find(cinit.node, "$rev = Revision(...)")} | {m["rev"] for m in M.find(cinit.node, "$_(self, 'revision', $rev)")}
    zero_tests = [M.pat(t) for t in ("$rev == 0", "not $rev", "$rev == '0'")]
    zero_branch = [n for n in A.body_walk(cinit.node) if isinstance(n, ast.If)
                   and any(p.matches(n.test, {"rev": rv}) is not None for p in zero_tests for rv in revs)]
    ctx.check("R1", cinit, bool(zero_branch), "cpvstr-drops-r0", "a -r0 revision is dropped from cpvstr")
    ctx.floor("R1", 4)

    # ---- R2: atom stored hash ---------------------------------------------------
    aeq = E.eq_spec(atom)
    ctx.require(aeq["kind"] == "fields", f"atom equality kind {aeq['kind']} not understood")
    ahs = E.hash_spec(atom)
    ctx.require(ahs["kind"] in ("stored", "fields"), f"atom hash kind {ahs['kind']} not understood")
    if ahs["kind"] == "stored":
        extra_fields = ahs["fields"] - aeq["fields"]
        ctx.check("R2", ahs["via"], not extra_fields, "stored-hash-fields", f"stored hash reads only equality attributes (reads {sorted(ahs['fields'])})",
                  f"atom hash reads attributes outside the equality list: {sorted(extra_fields)}", node=ahs["expr"])
        # raw parameters / locals feeding the hash that are not themselves equality attributes
        raw = sorted(n for n in ahs["params"] if n not in aeq["fields"])
        ctx.check("R2", ahs["via"], not raw, "stored-hash-raw-input",
                  "stored hash derives from equality attributes only",
                  f"atom._hash = {A.unparse(ahs['expr'])}: derives from raw input {raw}, not from the compared attributes "
                  f"(a/b[x,y] == a/b[y,x] and !!a/b == !a/b compare equal but hash differently)", node=ahs["expr"])
    else:
        extra = ahs["fields"] - aeq["fields"]
        ctx.check("R2", ahs["via"], not extra, "hash-fields", f"hash reads only equality attributes", node=ahs["via"].node)
    ctx.check("R2", atom, len(aeq["fields"]) >= 9, "eq-attrs", f"atom equality list has the nine syntax attributes ({sorted(aeq['fields'])})")
    for need in ("cpvstr", "op", "use", "slot", "subslot", "slot_operator", "repo_id", "blocks", "negate_vers"):
        ctx.check("R2", atom, need in aeq["fields"], f"eq-attr:{need}", f"atom equality compares {need!r}")
    ctx.floor("R2", 10)

    # ---- R3: atom.__cmp__ vs equality attributes ------------------------------------
    cm = atom.methods.get("__cmp__")
    ctx.require(cm is not None, "atom.__cmp__ not found")
    creads = set(E.self_reads(cm, atom))
    eq_attrs = set(aeq["fields"])
    if "cpvstr" in eq_attrs:
        eq_attrs = (eq_attrs - {"cpvstr"}) | CPVSTR_EQUIV
    for a in sorted(eq_attrs):
        ctx.check("R3", cm, a in creads, f"cmp-misses:{a}", f"__cmp__ reads equality attribute {a!r}",
                  f"atom.__cmp__ never reads {a!r}, which equality compares: atoms differing only there are unequal yet compare 0")
    for a in sorted(creads - eq_attrs):
        ctx.check("R3", cm, False, f"cmp-extra:{a}", "",
                  f"atom.__cmp__ orders by {a!r}, which equality ignores: atoms differing only there are equal yet ordered")
    # every comparison in __cmp__ is oriented self-vs-other on the same attribute
    seeds = {cm.params()[0]: {1}, cm.params()[1]: {2}}

    def on_call(c, env, interp):
        nm = dotted(c.func)
        if nm in ("cmp",) and len(c.args) == 2:
            a, b = interp.sides(c.args[0], env), interp.sides(c.args[1], env)
            la = {n.attr for n in ast.walk(c.args[0]) if isinstance(n, ast.Attribute)}
            lb = {n.attr for n in ast.walk(c.args[1]) if isinstance(n, ast.Attribute)}
            ctx.check("R3", cm, a <= {1} and b <= {2} and la == lb, f"cmp-arm@{sorted(la)}", f"cmp arm {A.unparse(c)} compares the same attribute, self first", node=c)
            for arg in c.args:
                ctx.check("R3", cm, lossless(arg, cm), f"cmp-arm-lossy@{sorted(la)}", f"cmp arm operand `{A.unparse(arg)}` is the attribute itself (or a None->'' default), not a lossy projection of it",
                          f"atom.__cmp__ orders by `{A.unparse(arg)}`, a projection that merges distinct values equality tells apart: unequal atoms compare 0", node=c)
        elif nm and nm.endswith("ver_cmp") and len(c.args) == 4:
            txt = [A.unparse(x) for x in c.args]
            ctx.check("R3", cm, txt == ["self.version", "self.revision", "other.version", "other.revision"], "cmp-ver_cmp", "ver_cmp arm oriented self then other", node=c)

    SideInterp(seeds, on_call).run(cm.node)
    ctx.floor("R3", 12)

    # ---- R4: sibling rich comparisons ----------------------------------------------
    rich_cmp_siblings(ctx, "R4", Rev)
    rich_cmp_siblings(ctx, "R4", CPV, {k: v for k, v in OPS.items() if k != "__eq__"})
    # Revision arms: same isinstance dispatch in all five methods
    shapes = {}
    for name in OPS:
        m = Rev.methods[name]
        shapes[name] = [A.unparse(n.test) for n in A.body_walk(m.node) if isinstance(n, ast.If)]
    ref = shapes["__eq__"]
    for name, sh in shapes.items():
        ctx.check("R4", Rev.methods[name], sh == ref, "arm-dispatch", f"Revision.{name} dispatches on the same operand kinds as __eq__ ({ref})")
    # hash of Revision: UserString.__hash__ hashes .data while eq compares the integer value
    rh = E.hash_spec(Rev)
    ctx.note(f"Revision.__hash__ kind={rh['kind']} ({rh.get('name')})")
    # CPV ordering reads what equality's version path reads
    lt_reads = set(E.self_reads(CPV.methods["__lt__"], CPV)) - {"__class__"}
    main = max((f for _, f in paths), key=len)
    ctx.check("R4", CPV.methods["__lt__"], lt_reads == main, "order-vs-eq-fields",
              f"CPV ordering reads the attributes equality's version path reads ({sorted(main)})",
              f"CPV.__lt__ reads {sorted(lt_reads)} but equality decides on {sorted(main)}")
    ctx.floor("R4", 30)

    # ---- R5 ==, ordering and hash are functions of the operands: no writes to shared objects ---------------------
    specs = [("pkgcore.ebuild.cpv", "ver_cmp", (), "")]
    for modname, cname in (("pkgcore.ebuild.cpv", "CPV"), ("pkgcore.ebuild.cpv", "Revision"), ("pkgcore.ebuild.atom", "atom")):
        K2 = P.cls(modname, cname)
        for name in ("__eq__", "__ne__", "__lt__", "__le__", "__gt__", "__ge__", "__hash__", "__cmp__"):
            if name in K2.methods:
                specs.append((modname, K2.methods[name].qual, (), ""))
    G.pure(ctx, "R5", [(m, q, a, "comparison / hashing that edits shared data makes the six operators disagree between calls") for m, q, a, _ in specs])
    ctx.floor("R5", 8)

MUTANTS = [
    {"name": "atom-eq-drops-subslot", "file": "src/pkgcore/ebuild/atom.py", "old": '        "slot",\n        "subslot",\n        "slot_operator",\n        "repo_id",\n    )\n\n    klass.inject', "new": '        "slot",\n        "slot_operator",\n        "repo_id",\n    )\n\n    klass.inject', "rule": "R2"},
    {"name": "revision-le-strict", "file": "src/pkgcore/ebuild/cpv.py", "old": "            return self._revint <= other._revint", "new": "            return self._revint < other._revint", "rule": "R4"},
    {"name": "revision-gt-none-arm", "file": "src/pkgcore/ebuild/cpv.py", "old": "            return self._revint > 0\n", "new": "            return self._revint >= 0\n", "rule": "R4"},
    {"name": "cmp-drops-use", "file": "src/pkgcore/ebuild/atom.py", "old": "        c = cmp(self.use, other.use)\n        if c:\n            return c\n\n", "new": "", "rule": "R3"},
    {"name": "cmp-slot-swapped", "file": "src/pkgcore/ebuild/atom.py", "old": "c = cmp(f(self.slot), f(other.slot))", "new": "c = cmp(f(other.slot), f(self.slot))", "rule": "R3"},
    {"name": "cpv-hash-key-only", "file": "src/pkgcore/ebuild/cpv.py", "old": "        return hash(self.cpvstr)", "new": "        return hash((self.key, self.fullver))", "rule": "R1"},
]
MUTANTS += [
    {"name": "hash-of-str", "file": "src/pkgcore/ebuild/atom.py", "old": "        self._hash = hash(\n            (\n                self.cpvstr,", "new": "        self._hash = hash(\n            (\n                str(self),\n                self.cpvstr,", "rule": "R2"},
    {"name": "cmp-lossy-slot-operator", "file": "src/pkgcore/ebuild/atom.py", "old": "c = cmp(f(self.slot_operator), f(other.slot_operator))", "new": "c = cmp(self.slot_operator == '=', other.slot_operator == '=')", "rule": "R3"},
    {"name": "cpvstr-strip-zero", "file": "src/pkgcore/ebuild/cpv.py", "old": "-r{int(rev)}", "new": "-r{rev.strip('0')}", "rule": "R1"},
]
MUTANTS += [
    {"name": "split-memoised-in-module-dict", "file": "src/pkgcore/ebuild/cpv.py", "old": '        ver_parts1 = parts1[0].split(".")\n', "new": '        ver_parts1 = suffix_value.setdefault(parts1[0], parts1[0].split("."))\n', "rule": "R5"},
]
TWINS = [
    {"name": "split-copied-from-memo", "file": "src/pkgcore/ebuild/cpv.py", "old": '        ver_parts1 = parts1[0].split(".")\n', "new": '        ver_parts1 = list(suffix_value.get(parts1[0], parts1[0].split(".")))\n'},
]
