"""C35 — the Python/daemon command protocol never deadlocks or desynchronizes (structural necessary conditions)."""
import ast
import fnmatch
import re

from ..core import astutil as A
from ..core import bashlex as B
from ..core import cfg as CFG
from ..core import match as M
from ..core.model import dotted
from ..core import generic as G

META = {
    "technique": "request/reply table extraction on both sides and agreement (each Python request has a bash arm whose reply literal is the one Python expects; each daemon-initiated message has a Python handler), reply-count path analysis over the structured bash arms (every non-exiting path of an arm writes exactly as many reply lines as Python reads for that request), default-arm rule (unknown command ends the session on both sides), CFG must-pass rules on the Python side (the async-expectation queue is cleared on every path that consumed its replies; a handler that abandons a pending daemon request kills the daemon first; every successful inherit answer is exactly two lines)",
    "level": "Decides the structural clauses: command/reply tables of processor.py and ebuild-daemon.bash agree; every main-loop / phase-loop arm answers exactly once (or never, for the requests Python does not wait on) on every path that stays in the loop, at most once before exiting; unknown commands die (bash) / raise UnhandledCommand (Python); _consume_async_expects reads exactly one line per queued expectation and empties the queue whether or not they matched; inherit_handler either answers with two lines or force-kills the daemon before raising. Does NOT decide absence of deadlock over all interleavings (that needs a protocol model; the rules here are the per-site obligations such a model would assume).",
    "note": "",
}
META["technique"] += "; " + 'bash exit-status analysis: functions ending in `[[ ]] && action` used as conditions'
META["technique"] += "; request/terminator agreement between the bash readers (`while [[ ${line} != \"<end>\" ]]`) and the registered python handlers (must-pass-through on the handler's flow graph)"
META["level"] += " (R8) for every bash function that sends request_X and then reads lines until a terminator word, the python handler registered for request_X writes that word on every normal way out."
META["level"] += " Added after the second round of independent changes: " + '(R6) no bash reader whose status is 1-on-success is used as a loop or branch condition.'
META["technique"] += "; " + 'generic pack G on the anchored files (optional-flag shift, closures outliving a loop iteration, single-pass iterables consumed twice, %-templates built from data, in-place writes to class-level / memoised objects, generators mutating what they yielded, memo keys that are projections)'
PROC = "pkgcore.ebuild.processor"
DAEMON = "data/lib/pkgcore/ebd/ebuild-daemon.bash"
LIB = "data/lib/pkgcore/ebd/ebuild-daemon-lib.bash"


def lit_prefix(e):
    if isinstance(e, ast.Constant) and isinstance(e.value, str):
        return e.value
    if isinstance(e, ast.JoinedStr):
        return A.fstring_prefix(e)
    return None


def py_requests(P):
    """(method, request word, expected reply literal | None) for every self.write(<literal>) in EbuildProcessor."""
    EP = P.cls(PROC, "EbuildProcessor")
    out = []
    for m in EP.methods.values():
        stmts = list(A.body_walk(m.node))
        for c in A.calls(m.node):
            if A.unparse(c.func) not in ("self.write", "self.write_sized") or not c.args:
                continue
            pre = lit_prefix(c.args[0])
            if not pre or not re.match(r"[a-z_]+", pre):
                continue
            word = pre.split()[0] if pre.split() else ""
            if not re.fullmatch(r"[a-z_?!]+", word):
                continue
            # the expect that follows in the same method
            exp = [x for x in A.calls(m.node) if A.unparse(x.func) == "self.expect" and x.lineno >= c.lineno and x.args and isinstance(x.args[0], ast.Constant)]
            reply = exp[0].args[0].value if exp else None
            out.append((m, c, word, reply))
    return out


def arm_for(arms, word):
    for a in arms:
        for p in a.patterns:
            pat = p.replace("\\ ", " ").strip('"')
            if pat == "*":
                continue
            if fnmatch.fnmatchcase(word, pat) or fnmatch.fnmatchcase(word + " x", pat) or pat.rstrip("*").rstrip() == word:
                return a
    return None


def handler_table(fn):
    """(dispatch Match | None, {daemon word: handler expression}) of generic_handler.  The table is found by its ROLE —
    the mapping the command word is looked up in and called through — not by its local name."""
    d = M.one(fn.node, "if $cmd in $h:\n    $h[$cmd](self, ...)")
    tbl = {}
    if d is None:
        return None, tbl
    h = d["h"]

    def resolve(v):
        if isinstance(v, ast.Name):
            src = [x for _, x, _ in A.assignments(fn.node, v.id)]
            if len(src) == 1:
                return src[0]
        return v

    for t_, v, st in A.assignments(fn.node):
        if isinstance(t_, ast.Name) and t_.id == h and isinstance(v, ast.Dict):
            for k, val in zip(v.keys, v.values):
                if isinstance(k, ast.Constant) and isinstance(k.value, str):
                    tbl[k.value] = resolve(val)
        if isinstance(t_, ast.Subscript) and isinstance(t_.value, ast.Name) and t_.value.id == h:
            if isinstance(t_.slice, ast.Constant) and isinstance(t_.slice.value, str):
                tbl[t_.slice.value] = resolve(v)
            elif isinstance(t_.slice, ast.Name):
                loop = next((p for p in A.parents(st) if isinstance(p, ast.For) and isinstance(p.target, ast.Name) and p.target.id == t_.slice.id), None)
                if loop is not None and isinstance(loop.iter, (ast.Tuple, ast.List)):
                    for e in loop.iter.elts:
                        if isinstance(e, ast.Constant) and isinstance(e.value, str):
                            tbl[e.value] = resolve(v)
    return d, tbl


HANDLER_KW = ("additional_commands", "extra_handlers", "extra_commands")


def extra_handler_words(tree):
    """command words registered in a mapping that flows into generic_handler's additional_commands: the mapping is a
    parameter with one of the handler keyword names, or a local passed under one of those keywords"""
    out = set()
    for fn in ast.walk(tree):
        if not isinstance(fn, (ast.FunctionDef, ast.AsyncFunctionDef)):
            continue
        flows = {a.arg for a in fn.args.posonlyargs + fn.args.args + fn.args.kwonlyargs if a.arg in HANDLER_KW}
        for c in A.calls(fn):
            for k in c.keywords:
                if k.arg in HANDLER_KW and isinstance(k.value, ast.Name):
                    flows.add(k.value.id)
        for n in A.walk(fn):
            if isinstance(n, ast.Subscript) and isinstance(n.ctx, ast.Store) and isinstance(n.value, ast.Name) and n.value.id in flows \
                    and isinstance(n.slice, ast.Constant) and isinstance(n.slice.value, str):
                out.add(n.slice.value)
    return out


def run(ctx):
    P = ctx.program
    ctx.explanation = META["level"]
    dsrc = P.bashfile(DAEMON).src
    fns = B.functions(dsrc)
    ctx.require("__ebd_main_loop" in fns and "__ebd_process_ebuild_phases" in fns, "daemon loops not found")
    loops = {}
    for fn in ("__ebd_main_loop", "__ebd_process_ebuild_phases"):
        f = fns[fn]
        cbs = [cb for cb in B.case_blocks(f.body, f.body_line) if cb.subject in ("${com}", "${line}") and len(cb.arms) >= 5]
        ctx.require(len(cbs) == 1, f"{fn}: command dispatch not found")
        loops[fn] = cbs[0]
    is_reply = lambda c: 1 if c.name == "__ebd_write_line" else 0
    counts = {}
    for fn, cb in loops.items():
        for a in cb.arms:
            tree = B.structure(a.body, a.line)
            counts[(fn, tuple(a.patterns))] = B.effect_paths(tree, is_reply, terminal=("exit", "die", "return"))

    # ---- R1 tables agree -------------------------------------------------------------------------------
    reqs = py_requests(P)
    ctx.require(len(reqs) >= 10, f"only {len(reqs)} Python-side requests found")
    expected = {}  # request word -> set of reply counts python reads (0/1)
    seen = set()
    HANDSHAKE = {"ebd?", "sandbox_log?", "no_sandbox", "end_sandbox_summary"}
    for m, c, word, reply in reqs:
        if word in HANDSHAKE or (word, m.name) in seen:
            continue
        seen.add((word, m.name))
        # which loop serves it
        a_main = arm_for(loops["__ebd_main_loop"].arms, word)
        a_phase = arm_for(loops["__ebd_process_ebuild_phases"].arms, word)
        arm = a_main or a_phase
        if not ctx.check("R1", m, arm is not None, f"request-has-arm:{word}", f"request `{word}` ({m.name}) is served by a daemon arm",
                         f"EbuildProcessor.{m.name} sends `{word}`, which no daemon loop has an arm for: the daemon dies on 'unknown com' (or misreads it)", node=c):
            continue
        if word == "process_ebuild" or word.startswith("gen_") or m.name in ("_run_depend_like_phase", "write_sized"):
            continue
        immediate = any(A.unparse(x.func) == "self.expect" and x.lineno >= c.lineno for x in A.calls(m.node))
        if m.name == "run_phase":
            immediate = False  # run_phase's expects belong to send_env/set_logfile
        for which, a in (("main", a_main), ("phase", a_phase)):
            if a is None:
                continue
            lits = [cm.words[1].strip('"') for cm in B.commands(a.body) if cm.name == "__ebd_write_line" and len(cm.words) > 1]
            if immediate and reply is not None:
                ok = any(reply == l or (("${" in l) and re.fullmatch(re.sub(r"\\\$\\\{[^}]*\\\}", ".*", re.escape(l)), reply)) for l in lits)
                ctx.check("R1", m, ok, f"reply-literal:{word}@{which}", f"`{word}`: Python expects {reply!r}; the {which} loop answers {lits}",
                          f"`{word}`: Python waits for {reply!r} but the daemon's {which}-loop arm writes {lits}", node=c)
            expected[(which, word)] = 1 if (immediate and reply is not None) else 0
    ctx.check("R1", PROC, len(expected) >= 8, f"requests-matched:{len(expected)}", f"{len(expected)} (loop, request) pairs matched")
    # daemon-initiated messages have Python handlers
    gh = P.func(PROC, "EbuildProcessor.generic_handler")
    disp, table = handler_table(gh)
    handlers = set(table)
    extra = set()
    for mod in ("pkgcore.ebuild.processor", "pkgcore.ebuild.ebd"):
        extra |= extra_handler_words(P.module(mod).tree)
        for n in ast.walk(P.module(mod).tree):
            if isinstance(n, ast.Call) and A.call_attr(n) == "setdefault" and n.args and isinstance(n.args[0], ast.Constant) and isinstance(n.args[0].value, str) and n.args[0].value.startswith("request_"):
                extra.add(n.args[0].value)
            if isinstance(n, ast.Dict):
                for k in n.keys:
                    if isinstance(k, ast.Constant) and isinstance(k.value, str) and k.value in ("receive_env", "key", "request_inherit", "request_profiles", "request_bashrcs"):
                        extra.add(k.value)
    sent = {}
    for rel in (DAEMON, LIB, "data/lib/pkgcore/ebd/exit-handling.bash", "data/lib/pkgcore/ebd/ebuild.bash"):
        for cm in B.commands(P.bashfile(rel).src):
            if cm.name == "__ebd_write_line" and len(cm.words) > 1:
                w = cm.words[1].strip('"').split()[0] if cm.words[1].strip('"').split() else ""
                sent.setdefault(w, rel)
    DAEMON_REQUESTS = ["request_inherit", "request_bashrcs", "request_sandbox_summary", "SIGINT", "SIGTERM", "dying", "phases", "receive_env", "key"]
    for w in DAEMON_REQUESTS:
        ctx.check("R1", gh, w in sent, f"daemon-sends:{w}", f"the daemon sends `{w}`")
        ctx.check("R1", gh, w in handlers | extra, f"python-handles:{w}", f"Python has a handler for the daemon's `{w}`",
                  f"the daemon sends `{w}` at command position but no Python handler is registered for it: generic_handler raises UnhandledCommand mid-session", node=gh.node)
    ctx.floor("R1", 30)

    # ---- R2 reply counts per arm ------------------------------------------------------------------------------
    n_arm = 0
    for (fn, pats), res in sorted(counts.items()):
        which = "main" if fn == "__ebd_main_loop" else "phase"
        if pats == ("*",):
            continue
        n_arm += 1
        words = [p.replace("\\ ", " ").rstrip("*").strip() for p in pats]
        want = None
        for w in words:
            if (which, w) in expected:
                want = expected[(which, w)]
        if words[0] in ("process_ebuild", "gen_metadata"):
            want = 1  # the final `phases ...` line consumed by generic_handler
        if words[0] == "shutdown_daemon":
            want = 0
        if want is None:
            ctx.note(f"{fn} arm {pats}: no Python sender found; reply count not constrained")
            continue
        stay = sorted({n for n, o in res if o in ("fall", "continue", "break")})
        leave = sorted({n for n, o in res if o == "exit"})
        ctx.check("R2", f"{DAEMON}:{fn}", stay == [want], f"replies-per-path:{which}:{words[0]}={stay}", f"{which} loop `{words[0]}`: every path that stays in the loop writes exactly {want} reply line(s)",
                  f"{which}-loop arm `{words[0]}` can write {stay} reply lines on a path that stays in the loop while Python reads exactly {want}: the extra/missing line shifts every later reply by one", node=loops[fn].line)
        ctx.check("R2", f"{DAEMON}:{fn}", all(n <= max(want, 1) for n in leave), f"replies-before-exit:{which}:{words[0]}={leave}", f"{which} loop `{words[0]}`: at most one line before exiting")
    ctx.check("R2", DAEMON, n_arm >= 11, f"arms:{n_arm}", f"{n_arm} command arms analysed")
    ctx.floor("R2", 20)

    # ---- R3 unknown command ------------------------------------------------------------------------------------
    for fn, cb in loops.items():
        d = [a for a in cb.arms if a.patterns == ["*"]]
        ok = len(d) == 1 and any(c.name == "die" for c in B.commands(d[0].body)) and cb.arms[-1] is d[0]
        ctx.check("R3", f"{DAEMON}:{fn}", ok, f"bash-default-dies:{fn}", f"{fn}: an unknown command dies", f"{fn} has no final `*) die` arm: an unknown command is silently skipped / misread", node=cb.line)
    # the dispatch `if cmd in T: T[cmd](self, ...)` (found above by role) has an else that raises
    E = dict(disp.env) if disp else {}
    ctx.check("R3", gh, disp is not None and M.has(gh.node, "if $cmd in $h:\n    $h[$cmd](self, ...)\nelse:\n    raise UnhandledCommand($_)", E), "python-default-raises", "generic_handler raises UnhandledCommand for an unknown daemon message")
    ctx.check("R3", gh, disp is not None and M.has(gh.node, "if not $cmd:\n    raise InternalError(...)\nif $cmd in $h:\n    $h[$cmd](self, ...)", E), "python-empty-line", "an empty line (daemon gone) is an InternalError, not a command")
    uc = [f for f in ("chuck_UnhandledCommand",) if P.func_opt(PROC, f) is not None]
    ctx.check("R3", gh, bool(uc) and all(w in table and A.unparse(table[w]) == "chuck_UnhandledCommand" for w in ("prob", "env_receiving_failed", "failed")), "failure-notices-raise", "daemon failure notices (prob, env_receiving_failed, failed) end the session")
    ctx.floor("R3", 5)

    # ---- R4 async expectations -------------------------------------------------------------------------------------
    ca = P.func(PROC, "EbuildProcessor._consume_async_expects")
    g = CFG.cfg_of(ca.node)
    rl = [c for c in A.calls(ca.node) if A.unparse(c.func) == "self.readlines"]
    ctx.require(len(rl) == 1, "_consume_async_expects: readlines not found")
    arg = rl[0].args[0]
    if isinstance(arg, ast.Call) and dotted(arg.func) == "len" and isinstance(arg.args[0], ast.Name):
        src_ = [v for t_, v, _ in A.assignments(ca.node, arg.args[0].id)]
        ok = bool(src_) and "self._outstanding_expects" in A.unparse(src_[0])
    else:
        ok = A.unparse(arg) == "len(self._outstanding_expects)"
    ctx.check("R4", ca, ok, "reads-one-line-per-expectation", "exactly one line is read per queued expectation")
    clears = [st for t_, v, st in A.assignments(ca.node) if A.unparse(t_) == "self._outstanding_expects" and A.unparse(v) in ("[]", "list()")] + \
             [A.stmt_of(c) for c in A.calls(ca.node) if A.unparse(c.func) == "self._outstanding_expects.clear"]
    cn = {g.node_of(s) for s in clears}
    p = g.find_path([g.node_of(rl[0])], lambda n: n is g.exit, avoid=lambda n: n in cn, edge_ok=lambda a, b, lab: lab != "exc")
    ctx.check("R4", ca, bool(clears) and p is None, "queue-cleared-on-every-path", "after the replies were read, the queue is emptied on every path (match or mismatch)",
              "_consume_async_expects can return after reading the replies WITHOUT emptying the queue (mismatch path): the stale expectations are counted again by the next expect(), which then reads more lines than the daemon will ever send — both sides wait to read", node=ca.node, witness=g.fmt_path(p) if p else None)
    ex = P.func(PROC, "EbuildProcessor.expect")
    ctx.check("R4", ex, M.has(ex.node, "if async_req:\n    self._outstanding_expects.append((flush, want))\n    return True"), "async-queues", "an async expectation is queued, nothing is read")
    # at the top level of expect(): the empty-queue branch, then (queue not empty) join the queue and drain it
    drain = [m for m in M.find(ex.node, "if not self._outstanding_expects:\n    ...\nself._outstanding_expects.append((flush, want))\nreturn self._consume_async_expects()") if m.node in ex.node.body]
    ctx.check("R4", ex, bool(drain), "sync-drains-queue-first", "a synchronous expect with a non-empty queue joins it and drains everything in order")
    hd = M.one(gh.node, "if self._outstanding_expects and (not self._consume_async_expects()):\n    raise UnhandledCommand($_)")
    reads = [c.lineno for c in A.calls(gh.node) if A.unparse(c.func) == "self.read"]
    ctx.check("R4", gh, hd is not None and bool(reads) and hd.node.lineno < min(reads), "handler-drains-queue-first", "generic_handler drains the queue before reading commands")
    ctx.floor("R4", 5)

    # ---- R5 abandoning a pending daemon request --------------------------------------------------------------------------
    ih = P.func(PROC, "inherit_handler")
    g = CFG.cfg_of(ih.node)
    ebp = ih.params()[1]
    kills = {g.node_of(c) for c in A.calls(ih.node) if A.unparse(c.func) == f"{ebp}.shutdown_processor" and any(k.arg == "force" and A.is_const(k.value, True) for k in c.keywords)}
    n_r = 0
    for r in A.raises(ih.node):
        n_r += 1
        rn = g.node_of(r)
        p = g.find_path([g.entry], lambda n: n is rn, avoid=lambda n: n in kills)
        ctx.check("R5", ih, p is None, f"kill-before-abandon@{A.unparse(r.exc)[:40]}", f"`{A.unparse(r)[:50]}` is preceded by a forced shutdown of the daemon on every path",
                  f"inherit_handler raises `{A.unparse(r.exc)[:60]}` without force-killing the daemon: the daemon stays blocked in __internal_inherit waiting for its answer, the processor goes back to the pool, and the next request is consumed as that answer", node=r, witness=g.fmt_path(p) if p else None)
    ctx.check("R5", ih, n_r >= 2, f"abandon-sites:{n_r}", f"{n_r} abandon sites inspected")
    ws = [c for c in A.calls(ih.node) if A.unparse(c.func) == f"{ebp}.write"]
    by_branch = {}
    for c in ws:
        br = next((id(p) for p in A.parents(c) if isinstance(p, ast.If)), None)
        in_body = next((c in list(A.calls(ast.Module(body=p.body, type_ignores=[]))) for p in A.parents(c) if isinstance(p, ast.If)), None)
        by_branch.setdefault((br, in_body), []).append(A.unparse(c.args[0]))
    ok = sorted(len(v) for v in by_branch.values()) == [2, 2] and sorted(v[0] for v in by_branch.values()) == ["'path'", "'transfer'"]
    ctx.check("R5", ih, ok, f"answer-is-two-lines:{sorted(map(tuple, by_branch.values()))}", "an inherit answer is a mode line ('path'/'transfer') plus one payload line — what __internal_inherit reads")
    li = B.functions(P.bashfile(LIB).src)["__internal_inherit"]
    cs = [c.name for c in B.commands(li.body)]
    ctx.check("R5", LIB + ":__internal_inherit", cs.count("__ebd_read_line") == 3 and cs.count("__ebd_write_line") == 1 and "die" in cs, "bash-inherit-reads", "__internal_inherit: one request, mode line, payload line; unknown mode dies")
    ctx.floor("R5", 5)

    # ---- R6 a reader used as a loop / branch condition reports success as 0 ------------------------------------------------
    from ..core import bashstatus
    inv = {}
    n_fn = 0
    for rel, bf in sorted(P.bash.items()):
        if "/ebd/" not in rel or not rel.endswith(".bash"):
            continue
        n_fn += len(B.functions(bf.src))
        for k, ln in bashstatus.inverted_status_functions(bf.src).items():
            inv[k] = (rel, ln)
    n_use = 0
    for rel, bf in sorted(P.bash.items()):
        if "/ebd/" not in rel or not rel.endswith(".bash"):
            continue
        for owner, ln, kind, name in bashstatus.condition_uses(bf.src, set(inv)):
            n_use += 1
            ctx.fail("R6", owner, f"inverted-status-as-condition:{name}",
                     f"{owner} uses `{name}` as a `{kind}` condition, but `{name}` ({inv[name][0]}) ends in `[[ ... ]] && ...`: it returns 1 exactly when it succeeded, "
                     f"so the loop body never runs / the branch is never taken and the rest of the message stays unread in the pipe (the next request reads it as a command)", file=rel)
    ctx.ob("R6", "daemon bash functions", f"{n_fn} functions in the ebd sources; {len(inv)} end in a bare `test && action` ({sorted(inv)}); none of those is used as a condition", file=DAEMON)
    ctx.require(n_fn >= 40, f"only {n_fn} bash functions parsed in the ebd sources")
    ctx.floor("R6", 1)

    # ---- R7 an unknown reply ends the session; a pooled daemon is probed before it is reused ----------------------------
    lsrc = P.bashfile("data/lib/pkgcore/ebd/ebuild-daemon-lib.bash").src
    lf = B.functions(lsrc)
    ctx.require("__internal_inherit" in lf, "__internal_inherit not found in ebuild-daemon-lib.bash")
    tree7 = B.structure(lf["__internal_inherit"].body, lf["__internal_inherit"].body_line)

    def _cmd_names(node):
        k = node[0]
        if k == "cmd":
            yield node[1].name.split()[0] if node[1].name else ""
        elif k == "seq":
            for x in node[1]:
                yield from _cmd_names(x)
        elif k == "if":
            for c_, b_ in node[1]:
                yield from _cmd_names(c_)
                yield from _cmd_names(b_)
            if node[2] is not None:
                yield from _cmd_names(node[2])
        elif k == "andor":
            yield from _cmd_names(node[1])
            yield from _cmd_names(node[3])
        elif k in ("group",):
            yield from _cmd_names(node[1])
        elif k == "loop":
            if node[2] is not None:
                yield from _cmd_names(node[2])
            yield from _cmd_names(node[3])
        elif k == "case":
            for pats, b_ in node[2]:
                yield from _cmd_names(b_)

    dispatch = None
    seen_read = False
    for node in (tree7[1] if tree7[0] == "seq" else [tree7]):
        if node[0] == "cmd" and node[1].name.startswith("__ebd_read_line"):
            seen_read = True
        elif seen_read and node[0] in ("if", "case") and dispatch is None:
            dispatch = node  # the first branching on what was just read
    ctx.check("R7", "__internal_inherit", dispatch is not None, "inherit-dispatch-present", "__internal_inherit dispatches on the reply to request_inherit", file="data/lib/pkgcore/ebd/ebuild-daemon-lib.bash")
    if dispatch is not None:
        if dispatch[0] == "if":
            ok7 = dispatch[2] is not None and "die" in set(_cmd_names(dispatch[2]))
            how7 = "the else branch"
        else:
            lone = [b_ for pats, b_ in dispatch[2] if [p_.strip() for p_ in pats] == ["*"]]
            mixed = [pats for pats, b_ in dispatch[2] if "*" in [p_.strip() for p_ in pats] and len(pats) > 1]
            ok7 = bool(lone) and "die" in set(_cmd_names(lone[0])) and not mixed
            how7 = f"the `*)` arm (catch-all merged into {mixed[0]})" if mixed else "the `*)` arm"
        ctx.check("R7", "__internal_inherit", ok7, "unknown-inherit-reply-dies",
                  "a reply to request_inherit that is neither `path` nor `transfer` ends the session with an error",
                  f"__internal_inherit no longer dies on an unknown reply ({how7}): a reply word the protocol does not define is treated as a known one, the next line is eval'ed / sourced, "
                  f"and both sides continue out of step", file="data/lib/pkgcore/ebd/ebuild-daemon-lib.bash")
    rq = P.func("pkgcore.ebuild.processor", "request_ebuild_processor")
    probes = [n for n in A.body_walk(rq.node) if isinstance(n, ast.Attribute) and n.attr == "is_responsive"]
    pops = [c for c in A.calls(rq.node) if A.call_attr(c) in ("pop", "popleft") and "inactive" in A.unparse(c.func)]
    loops7 = [n for n in A.body_walk(rq.node) if isinstance(n, (ast.For, ast.While)) and any("inactive" in A.unparse(x) for x in ast.walk(n))]
    ctx.check("R7", rq, bool(probes), "pooled-daemon-probed",
              "a daemon taken from the inactive pool answers an alive/yep! round trip before it is handed out",
              "request_ebuild_processor hands out a pooled daemon without the `is_responsive` round trip (a liveness check of the process is not enough): output an earlier session left "
              "unread in the pipe is taken as the reply to the next, unrelated request")
    ctx.floor("R7", 3)

    # ---- R8 a request the daemon reads until a terminator line always gets that terminator -------------------------------
    # bash side: `__ebd_write_line "request_X ..."` followed by `while [[ ${line} != "<end>" ]]; do ... __ebd_read_line line; done`;
    # python side: the handler registered for request_X writes "<end>" on every way out that returns normally.
    import re as _re
    gh = P.func("pkgcore.ebuild.processor", "EbuildProcessor.generic_handler")
    handler_of = {}  # request word -> (module, function qualname)
    for modname in ("pkgcore.ebuild.processor", "pkgcore.ebuild.ebd"):
        m_ = P.module(modname)

        def _reg(word, expr, m_=m_, modname=modname):
            nm = A.unparse(expr).split(".")[-1]
            cands = [f for f in m_.funcs.values() if f.name == nm and ".<locals>." not in f.qual]
            if cands:
                handler_of.setdefault(word, (modname, cands[0].qual))
        for f_ in m_.funcs.values():
            for d in ast.walk(f_.node):
                if isinstance(d, ast.Dict):
                    for k_, v_ in zip(d.keys, d.values):
                        if isinstance(k_, ast.Constant) and isinstance(k_.value, str) and k_.value.startswith("request_"):
                            _reg(k_.value, v_)
                elif isinstance(d, ast.Call) and A.call_attr(d) == "setdefault" and len(d.args) == 2 and isinstance(d.args[0], ast.Constant) \
                        and isinstance(d.args[0].value, str) and d.args[0].value.startswith("request_"):
                    _reg(d.args[0].value, d.args[1])
                elif isinstance(d, ast.Assign) and isinstance(d.targets[0], ast.Subscript) and isinstance(d.targets[0].slice, ast.Constant) \
                        and isinstance(d.targets[0].slice.value, str) and d.targets[0].slice.value.startswith("request_"):
                    _reg(d.targets[0].slice.value, d.value)
    n8 = 0
    for fname, fn in lf.items():
        req = _re.search(r'__ebd_write_line\s+"(request_\w+)', fn.body)
        term = _re.search(r'while\s+\[\[\s+\$\{?(\w+)\}?\s+!=\s+"?(\w+)"?\s+\]\]', fn.body)
        if not (req and term) or "__ebd_read_line" not in fn.body:
            continue
        rname, endword = req.group(1), term.group(2)
        hq = handler_of.get(rname)
        if not ctx.check("R8", gh, hq is not None, f"terminated-request-handled:{rname}", f"generic_handler registers a handler for {rname}",
                         f"{fname} (bash) sends {rname} and reads until `{endword}`, but neither processor.py nor ebd.py registers a handler for it"):
            continue
        n8 += 1
        G.always_reaches(ctx, "R8", hq[0], hq[1],
                         lambda c, w=endword: A.call_attr(c) == "write" and c.args and A.is_const(c.args[0], w),
                         f"the write of the `{endword}` line that {fname} (bash) reads until", f"terminator-always-sent:{endword}")
    ctx.floor("R8", 2)


FP = "src/pkgcore/ebuild/processor.py"
MUTANTS = [
    {"name": "expect-wrong-literal", "file": FP, "old": "        return self.expect(\"logging_ack\")", "new": "        return self.expect(\"logging_ok\")", "rule": "R1"},
    {"name": "bash-arm-renamed", "file": DAEMON, "old": "			clear_preloaded_eclasses)\n", "new": "			clear_eclasses)\n", "rule": "R1"},
    {"name": "handler-unregistered", "file": FP, "old": "        handlers[\"dying\"] = chuck_DyingInterrupt\n", "new": "", "rule": "R1"},
    {"name": "preload-two-replies", "file": DAEMON, "old": "						success='failed'\n						break", "new": "						success='failed'\n						__ebd_write_line \"preload_eclass failed\"\n						break", "rule": "R2"},
    {"name": "set-sandbox-state-replies", "file": DAEMON, "old": "					export SANDBOX_VERBOSE=\"no\"\n				fi\n", "new": "					export SANDBOX_VERBOSE=\"no\"\n				fi\n				__ebd_write_line \"sandbox_state_ack\"\n", "rule": "R2"},
    {"name": "alive-silent-in-phase-loop", "file": DAEMON, "old": "			alive)\n				__ebd_write_line \"yep!\"\n				;;\n			*)\n				die \"unknown phase processing com", "new": "			alive)\n				;;\n			*)\n				die \"unknown phase processing com", "rule": "R2"},
    {"name": "unknown-ignored", "file": DAEMON, "old": "				die \"unknown ebd com: '${com}'\"", "new": "				echo \"unknown ebd com: '${com}'\" >&2", "rule": "R3"},
    {"name": "queue-kept-on-mismatch", "file": FP, "old": "        ret = got == [x[1] for x in self._outstanding_expects]\n        self._outstanding_expects = []\n        return ret", "new": "        if got != [x[1] for x in self._outstanding_expects]:\n            return False\n        self._outstanding_expects = []\n        return True", "rule": "R4"},
    {"name": "abandon-without-kill", "file": FP, "old": "    if eclass is None:\n        drop_ebuild_processor(ebp)\n        ebp.shutdown_processor(force=True)\n", "new": "    if eclass is None:\n", "rule": "R5"},
    {"name": "inherit-one-line", "file": FP, "old": "        ebp.write(\"path\")\n        ebp.write(eclass.path)", "new": "        ebp.write(f\"path {eclass.path}\")", "rule": "R5"},
]
TWINS = [
    {"name": "queue-cleared-with-clear", "file": FP, "old": "        self._outstanding_expects = []\n        return ret", "new": "        self._outstanding_expects.clear()\n        return ret"},
]


MUTANTS += [
    {"name": "sandbox-summary-early-return-without-terminator", "file": "src/pkgcore/ebuild/processor.py",
     "old": '        if not violations:\n            self.write("end_sandbox_summary")\n            return 0\n', "new": '        if not violations:\n            return 0\n', "rule": "R8"},
]
TWINS += [
    {"name": "sandbox-summary-early-return-value-respelled", "file": "src/pkgcore/ebuild/processor.py",
     "old": '        if not violations:\n            self.write("end_sandbox_summary")\n            return 0\n', "new": '        if not violations:\n            self.write("end_sandbox_summary")\n            return False\n'},
]
