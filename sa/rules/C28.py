"""C28 — Manifest generation is deterministic, idempotent, parseable and atomic."""
import ast

from ..core import astutil as A
from ..core import atomic
from ..core.model import dotted

META = {
    "technique": "atomic-replace typestate on Manifest.update (publishing close only on the exception-free path, discard on failure), order-source rule (every iteration whose elements reach the Manifest text goes through sorted()), guard rule for the up-to-date short cut (decided by full-text equality only; no byte-size vs character-count pre-filter), writer/parser table and field-position agreement",
    "level": "Decides the structural clauses: the new Manifest reaches the real path only through AtomicWriteFile.close() on the success path; text order never depends on dict/listing/input order (all emitting iterations are sorted, checksum columns included); the 'already current' short cut is exactly equality with the regenerated text; the entry types and the field layout written are the ones parse_manifest accepts (TYPE name size (CHF hex)*), size is implicit, checksum names upper-cased on write and lower-cased on read, hex both ways. Does NOT decide checksums of concrete files.",
    "note": "",
}
MOD = "pkgcore.ebuild.digest"


def run(ctx):
    P = ctx.program
    ctx.explanation = META["level"]
    up = P.func(MOD, "Manifest.update")
    ml = P.func(MOD, "_manifest_line")
    pm = P.func(MOD, "parse_manifest")
    # ---- R1 atomic ---------------------------------------------------------------------------------------
    hs = atomic.handle_names(up)
    ctx.check("R1", up, len(hs) == 1, f"atomic-handle:{sorted(hs)}", "Manifest.update writes through one AtomicWriteFile",
              "Manifest.update no longer writes the Manifest through AtomicWriteFile: an interrupted write leaves a partial Manifest", node=up.node)
    for h, call in hs.items():
        ctx.check("R1", up, A.unparse(call.args[0]) == "self.path", "atomic-target", "the atomic handle targets the Manifest path")
    atomic.check(ctx, "R1", up, list(hs), what="the Manifest")
    raw = [c for c in A.calls(up.node) if dotted(c.func) == "open" and len(c.args) > 1 and isinstance(c.args[1], ast.Constant) and "w" in str(c.args[1].value)]
    ctx.check("R1", up, not raw, "no-in-place-open", "the Manifest is never opened for writing in place")
    ctx.floor("R1", 6)

    # ---- R2 order sources ------------------------------------------------------------------------------------
    n = 0
    for fn, what in ((ml, "_manifest_line"),):
        for node in A.body_walk(fn.node):
            if isinstance(node, ast.For):
                n += 1
                it = node.iter
                ok = isinstance(it, ast.Call) and dotted(it.func) == "sorted"
                ctx.check("R2", fn, ok, f"sorted-iter:{A.unparse(it)[:30]}", f"{what}: checksum columns are emitted in sorted order (`{A.unparse(it)}`)",
                          f"{what} emits checksum columns by iterating `{A.unparse(it)}`: the text depends on dict insertion order, so identical content can render differently and an up-to-date Manifest is rewritten", node=node)
    data_exprs = [v for t, v, _ in A.assignments(up.node, "data")] + [st.value for st in A.body_walk(up.node) if isinstance(st, ast.AugAssign) and A.unparse(st.target) == "data"]
    ctx.require(len(data_exprs) >= 3, "Manifest.update: `data` building expressions not found")
    for e in data_exprs:
        for comp in [x for x in A.walk(e) if isinstance(x, (ast.GeneratorExp, ast.ListComp))]:
            for gen in comp.generators:
                n += 1
                ok = isinstance(gen.iter, ast.Call) and dotted(gen.iter.func) == "sorted" and any(k.arg == "key" for k in gen.iter.keywords)
                ctx.check("R2", up, ok, f"sorted-iter:{A.unparse(gen.iter)[:40]}", f"entries are emitted in sorted order (`{A.unparse(gen.iter)[:50]}`)",
                          f"Manifest.update emits entries by iterating `{A.unparse(gen.iter)}` unsorted: the text depends on listing/input order", node=comp)
    loops = [x for x in A.body_walk(up.node) if isinstance(x, ast.For) and any(isinstance(s, ast.AugAssign) and A.unparse(s.target) == "data" for s in x.body)]
    for lp in loops:
        n += 1
        ctx.check("R2", up, isinstance(lp.iter, ast.Tuple), f"fixed-type-order:{A.unparse(lp.iter)[:40]}", "the EBUILD/MISC blocks are emitted in a fixed literal order")
    ctx.check("R2", up, n >= 5, f"order-sites:{n}", f"{n} iteration sites feeding the Manifest text inspected")
    t = A.unparse(up.node)
    pos = [t.find("_manifest_line('AUX'"), t.find("_manifest_line('DIST'"), t.find("for mtype, inst in")]
    ctx.check("R2", up, -1 not in pos and pos == sorted(pos), "block-order", "blocks: AUX, DIST, then the remaining types")
    ctx.floor("R2", 7)

    # ---- R3 up-to-date short cut -------------------------------------------------------------------------------
    rf = [r for r in A.returns(up.node) if A.is_const(r.value, False)]
    wr = [c for c in A.calls(up.node) if (dotted(c.func) or "").endswith("AtomicWriteFile")]
    ctx.require(wr, "Manifest.update: AtomicWriteFile construction not found")
    late = [r for r in rf if any(isinstance(p, (ast.With, ast.Try)) for p in A.parents(r))]
    if not ctx.check("R3", up, len(late) == 1, "shortcut-present", "an up-to-date Manifest is left alone (return False before any write)",
                     "Manifest.update has no 'already current' short cut any more: regenerating an up-to-date Manifest rewrites it", node=up.node):
        late = None
    sc = late[0] if late else None
    if sc is not None:
        _r3(ctx, up, sc, wr, t)
    ctx.check("R3", up, "if self.thin and (not fetchables)" in t, "thin-no-distfiles", "thin Manifests without distfiles are not written at all")
    ctx.floor("R3", 3)
    _rest(ctx, P, up, ml, pm, loops, t)


def _r3(ctx, up, sc, wr, t):
    guards = [p for p in A.parents(sc) if isinstance(p, ast.If)]
    eq = [g_ for g_ in guards if isinstance(g_.test, ast.Compare) and isinstance(g_.test.ops[0], ast.Eq) and "read()" in A.unparse(g_.test) and "data" in A.names_in(g_.test)]
    ctx.check("R3", up, len(eq) == 1, "decided-by-equality", "the short cut is taken when the existing text equals the regenerated text",
              "the up-to-date short cut is no longer decided by comparing the existing text with the regenerated text", node=sc)
    for g_ in guards:
        if g_ in eq:
            continue
        tt = A.unparse(g_.test)
        bad = ("getsize" in tt or "st_size" in tt) and "len(" in tt
        ctx.check("R3", up, not bad, f"no-bytes-vs-chars-prefilter:{tt[:40]}", f"extra guard `{tt[:50]}` does not compare a byte size with a character count",
                  f"the short cut is pre-filtered by `{tt}`: a byte size is compared with a character count, so with any non-ASCII name an up-to-date Manifest is rewritten on every run", node=g_)
    ctx.check("R3", up, sc.lineno < wr[0].lineno, "shortcut-before-write", "the comparison happens before anything is written")


def _rest(ctx, P, up, ml, pm, loops, t):
    # ---- R4 writer/parser agreement ------------------------------------------------------------------------------------
    types = None
    for tg, v, _ in A.assignments(pm.node, "types"):
        if isinstance(v, ast.Dict):
            types = [k.value for k in v.keys]
    ctx.require(types, "parse_manifest: types table not found")
    emitted = {c.args[0].value for c in A.calls(up.node) if dotted(c.func) == "_manifest_line" and isinstance(c.args[0], ast.Constant)}
    for lp in loops:
        emitted |= {e.elts[0].value for e in lp.iter.elts if isinstance(e, ast.Tuple)}
    ctx.check("R4", up, emitted == set(types), f"types-agree:{sorted(emitted ^ set(types))}", f"types written {sorted(emitted)} = types parsed {sorted(types)}",
              f"types written {sorted(emitted)} differ from the types parse_manifest accepts {sorted(types)}", node=up.node)
    tl = A.unparse(ml.node)
    ctx.check("R4", ml, "size = chksums.pop('size')" in tl, "size-implicit", "size is the third field, not a named checksum")
    first = [v for tg, v, _ in A.assignments(ml.node) if isinstance(v, ast.JoinedStr) or isinstance(v, ast.List)]
    ctx.check("R4", ml, "f'{chf.upper()} {filename} {size}'" in tl or "[chf.upper(), filename, str(size)]" in tl, "head-fields", "line head: TYPE filename size")
    ctx.check("R4", ml, ".upper()} {get_handler(other_chf).long2str(" in tl or "other_chf.upper(), get_handler(other_chf).long2str(" in tl, "chf-fields", "then pairs CHF hex")
    ctx.check("R4", ml, tl.rstrip().endswith("+ '\\n'"), "newline", "one entry per line")
    tp = A.unparse(pm.node)
    ctx.check("R4", pm, "types.get(line[0])" in tp and "d[line[1]] = [('size', int(line[2]))] + list(convert_chksums(zip(i, i)))" in tp and "i = iter(line[3:])" in tp, "parser-fields", "parser: type=field 0, name=field 1, size=field 2, pairs from field 3")
    cc = P.func(MOD, "convert_chksums")
    tc = A.unparse(cc.node)
    ctx.check("R4", cc, "chf = chf.lower()" in tc and "int(sum, 16)" in tc, "parser-chf-lower-hex", "checksum names are lower-cased, values parsed as hex")
    ctx.check("R4", pm, "len(line) % 2 != 1" in tp and "if line[1] in d" in tp, "parser-rejects-malformed", "odd token counts and duplicate names are rejected")
    ctx.floor("R4", 7)

    # ---- R5 classification ----------------------------------------------------------------------------------------------
    ctx.check("R5", up, "if pathname.startswith(filesdir):\n" in t and "pathname = pathname[len(filesdir):]" in t and "d = aux" in t, "files-are-aux", "files/ entries are AUX, named relative to files/")
    ctx.check("R5", up, "elif obj.dirname == '/':" in t and "obj.location[-7:] == '.ebuild'" in t, "toplevel-ebuild-or-misc", "top-level files are EBUILD (*.ebuild) or MISC")
    ctx.check("R5", up, "excludes = frozenset(['CVS', '.svn', 'Manifest'])" in t and "excludes.intersection(pathname.split('/'))" in t, "excludes", "VCS dirs and the Manifest itself are not covered")
    ctx.check("R5", up, "if not obj.is_reg:\n" in t, "regular-files-only", "only regular files are covered")
    ctx.check("R5", up, "d[pathname] = dict(obj.chksums)" in t, "keyed-by-name", "entries are keyed by name (listing order cannot matter)")
    thin = [n_ for n_ in A.body_walk(up.node) if isinstance(n_, ast.If) and A.unparse(n_.test) == "not self.thin"]
    ctx.check("R5", up, bool(thin) and any(isinstance(x, ast.For) and "iter_scan" in A.unparse(x.iter) for x in thin[0].body), "thin-skips-scan", "thin mode covers distfiles only")
    ctx.check("R5", up, "os.path.basename(fetchable.filename), fetchable.chksums" in t, "dist-entries", "DIST entries: basename + the fetchable's checksums")
    ctx.floor("R5", 7)


F = "src/pkgcore/ebuild/digest.py"
MUTANTS = [
    {"name": "close-in-finally", "file": F, "old": "            handle.close()\n        except BaseException:\n            handle.discard()\n            raise\n", "new": "        finally:\n            handle.close()\n", "rule": "R1"},
    {"name": "revert-plain-open", "file": F, "old": "        handle = AtomicWriteFile(self.path)\n        try:\n            handle.write(data)\n            handle.close()\n        except BaseException:\n            handle.discard()\n            raise\n", "new": "        with open(self.path, \"w\") as handle:\n            handle.write(data)\n", "rule": "R1"},
    {"name": "no-discard", "file": F, "old": "        except BaseException:\n            handle.discard()\n            raise\n", "new": "        except BaseException:\n            raise\n", "rule": "R1"},
    {"name": "chksums-unsorted", "file": F, "old": "    for other_chf in sorted(chksums):", "new": "    for other_chf in chksums:", "rule": "R2"},
    {"name": "aux-unsorted", "file": F, "old": "            for path, chksums in sorted(aux.items(), key=_key_sort)", "new": "            for path, chksums in aux.items()", "rule": "R2"},
    {"name": "dist-unsorted", "file": F, "old": "            for fetchable in sorted(fetchables, key=operator.attrgetter(\"filename\"))", "new": "            for fetchable in fetchables", "rule": "R2"},
    {"name": "size-prefilter", "file": F, "old": "            with open(self.path) as handle:\n                if handle.read() == data:\n                    return False", "new": "            if os.path.getsize(self.path) == len(data):\n                with open(self.path) as handle:\n                    if handle.read() == data:\n                        return False", "rule": "R3"},
    {"name": "always-rewrite", "file": F, "old": "                if handle.read() == data:\n                    return False", "new": "                handle.read()", "rule": "R3"},
    {"name": "type-drift", "file": F, "old": "        for mtype, inst in ((\"EBUILD\", ebuild), (\"MISC\", misc)):", "new": "        for mtype, inst in ((\"EBUILD\", ebuild), (\"OTHER\", misc)):", "rule": "R4"},
    {"name": "explicit-size-column", "file": F, "old": "    size = chksums.pop(\"size\")", "new": "    size = chksums[\"size\"]", "rule": "R4"},
]
TWINS = [
    {"name": "join-form", "file": F, "old": "    line = f\"{chf.upper()} {filename} {size}\"\n    for other_chf in sorted(chksums):\n        line += f\" {other_chf.upper()} {get_handler(other_chf).long2str(chksums[other_chf])}\"\n    return line + \"\\n\"", "new": "    fields = [chf.upper(), filename, str(size)]\n    for other_chf in sorted(chksums):\n        fields += [other_chf.upper(), get_handler(other_chf).long2str(chksums[other_chf])]\n    return \" \".join(fields) + \"\\n\""},
    {"name": "exists-guard", "file": F, "old": "            with open(self.path) as handle:\n                if handle.read() == data:\n                    return False", "new": "            if os.path.exists(self.path):\n                with open(self.path) as handle:\n                    if handle.read() == data:\n                        return False"},
]
