"""C28 — Manifest generation is deterministic, idempotent, parseable and atomic."""
import ast

from ..core import generic as G
from ..core import astutil as A
from ..core import atomic
from ..core import match as M
from ..core.model import dotted

META = {
    "technique": "atomic-replace typestate on Manifest.update (publishing close only on the exception-free path, discard on failure), order-source rule (every iteration whose elements reach the Manifest text goes through sorted()), guard rule for the up-to-date short cut (decided by full-text equality only; no byte-size vs character-count pre-filter), writer/parser table and field-position agreement",
    "level": "Decides the structural clauses: the new Manifest reaches the real path only through AtomicWriteFile.close() on the success path; text order never depends on dict/listing/input order (all emitting iterations are sorted, checksum columns included); the 'already current' short cut is exactly equality with the regenerated text; the entry types and the field layout written are the ones parse_manifest accepts (TYPE name size (CHF hex)*), size is implicit, checksum names upper-cased on write and lower-cased on read, hex both ways. Does NOT decide checksums of concrete files.",
    "note": "",
}
META["technique"] += "; " + 'effect analysis on Manifest generation'
META["level"] += " Added after the second round of independent changes: " + '(R6) _manifest_line and Manifest.update do not edit the checksum mappings they are given.'
META["technique"] += "; " + 'generic pack G on the anchored files (optional-flag shift, closures outliving a loop iteration, single-pass iterables consumed twice, %-templates built from data, in-place writes to class-level / memoised objects, generators mutating what they yielded, memo keys that are projections)'
MOD = "pkgcore.ebuild.digest"


def _ml_calls(up, kind=None):
    """calls of _manifest_line in Manifest.update (optionally: with the literal entry type ``kind``)"""
    return [c for c in A.calls(up.node) if dotted(c.func) == "_manifest_line" and c.args and (kind is None or A.is_const(c.args[0], kind))]


def _text_var(up):
    """The local that accumulates the Manifest text, found by its role: the one name that is assigned / augmented with
    expressions rendering entries through _manifest_line.  -> (name, [building statements])"""
    builds = []
    for st in A.body_walk(up.node):
        if isinstance(st, ast.Assign) and len(st.targets) == 1:
            tg = st.targets[0]
        elif isinstance(st, ast.AugAssign):
            tg = st.target
        else:
            continue
        if isinstance(tg, ast.Name) and any(dotted(c.func) == "_manifest_line" for c in A.calls(st.value)):
            builds.append((tg.id, st))
    names = {n_ for n_, _ in builds}
    if len(names) != 1:
        return None, []
    return names.pop(), [st for _, st in builds]


def run(ctx):
    P = ctx.program
    ctx.explanation = META["level"]
    up = P.func(MOD, "Manifest.update")
    ml = P.func(MOD, "_manifest_line")
    pm = P.func(MOD, "parse_manifest")
    # ---- R1 atomic ---------------------------------------------------------------------------------------
    hs = atomic.handle_names(up)
    ctx.check("R1", up, len(hs) == 1, f"atomic-handle:{sorted(hs)}", "Manifest.update writes through one AtomicWriteFile",
              "Manifest.update no longer writes the Manifest through AtomicWriteFile: an interrupted write leaves a partial Manifest", node=up.node)
    for h, call in hs.items():
        ctx.check("R1", up, bool(call.args) and M.pat("self.path").matches(call.args[0]) is not None, "atomic-target", "the atomic handle targets the Manifest path")
    atomic.check(ctx, "R1", up, list(hs), what="the Manifest")
    raw = [c for c in A.calls(up.node) if dotted(c.func) == "open" and len(c.args) > 1 and isinstance(c.args[1], ast.Constant) and "w" in str(c.args[1].value)]
    ctx.check("R1", up, not raw, "no-in-place-open", "the Manifest is never opened for writing in place")
    ctx.floor("R1", 6)

    # ---- R2 order sources ------------------------------------------------------------------------------------
    n = 0
    for fn, what in ((ml, "_manifest_line"),):
        for node in A.body_walk(fn.node):
            if isinstance(node, ast.For):
                n += 1
                it = node.iter
                ok = isinstance(it, ast.Call) and dotted(it.func) == "sorted"
                ctx.check("R2", fn, ok, f"sorted-iter:{A.unparse(it)[:30]}", f"{what}: checksum columns are emitted in sorted order (`{A.unparse(it)}`)",
                          f"{what} emits checksum columns by iterating `{A.unparse(it)}`: the text depends on dict insertion order, so identical content can render differently and an up-to-date Manifest is rewritten", node=node)
    data, builds = _text_var(up)
    ctx.require(data is not None and len(builds) >= 3, "Manifest.update: `data` building expressions not found")
    for st in builds:
        for comp in [x for x in A.walk(st.value) if isinstance(x, (ast.GeneratorExp, ast.ListComp))]:
            for gen in comp.generators:
                n += 1
                ok = isinstance(gen.iter, ast.Call) and dotted(gen.iter.func) == "sorted" and any(k.arg == "key" for k in gen.iter.keywords)
                ctx.check("R2", up, ok, f"sorted-iter:{A.unparse(gen.iter)[:40]}", f"entries are emitted in sorted order (`{A.unparse(gen.iter)[:50]}`)",
                          f"Manifest.update emits entries by iterating `{A.unparse(gen.iter)}` unsorted: the text depends on listing/input order", node=comp)
    loops = [x for x in A.body_walk(up.node) if isinstance(x, ast.For) and any(st in builds for st in x.body)]
    for lp in loops:
        n += 1
        ctx.check("R2", up, isinstance(lp.iter, ast.Tuple), f"fixed-type-order:{A.unparse(lp.iter)[:40]}", "the EBUILD/MISC blocks are emitted in a fixed literal order")
    ctx.check("R2", up, n >= 5, f"order-sites:{n}", f"{n} iteration sites feeding the Manifest text inspected")
    # block order: the statement emitting AUX, then the one emitting DIST, then the loop over the remaining types
    aux_c, dist_c = _ml_calls(up, "AUX"), _ml_calls(up, "DIST")
    pos = [A.stmt_of(aux_c[0]).lineno if len(aux_c) == 1 else -1, A.stmt_of(dist_c[0]).lineno if len(dist_c) == 1 else -1, loops[0].lineno if len(loops) == 1 else -1]
    ctx.check("R2", up, -1 not in pos and pos[0] < pos[1] < pos[2], "block-order", "blocks: AUX, DIST, then the remaining types")
    ctx.floor("R2", 7)

    # ---- R3 up-to-date short cut -------------------------------------------------------------------------------
    rf = [r for r in A.returns(up.node) if A.is_const(r.value, False)]
    wr = [c for c in A.calls(up.node) if (dotted(c.func) or "").endswith("AtomicWriteFile")]
    ctx.require(wr, "Manifest.update: AtomicWriteFile construction not found")
    late = [r for r in rf if any(isinstance(p, (ast.With, ast.Try)) for p in A.parents(r))]
    if not ctx.check("R3", up, len(late) == 1, "shortcut-present", "an up-to-date Manifest is left alone (return False before any write)",
                     "Manifest.update has no 'already current' short cut any more: regenerating an up-to-date Manifest rewrites it", node=up.node):
        late = None
    sc = late[0] if late else None
    if sc is not None:
        _r3(ctx, up, sc, wr, data)
    # the regenerated text that is compared is also what gets written (ties the role-located text variable to the handle)
    wcalls = [c for c in A.calls(up.node) if isinstance(c.func, ast.Attribute) and c.func.attr in ("write", "writelines") and isinstance(c.func.value, ast.Name) and c.func.value.id in hs]
    ctx.check("R3", up, bool(wcalls) and all(len(c.args) == 1 and isinstance(c.args[0], ast.Name) and c.args[0].id == data for c in wcalls), "written-text-is-compared-text",
              "the text written through the atomic handle is the regenerated text the short cut compares")
    ctx.check("R3", up, M.has(up.node, "if self.thin and not fetchables:\n    return False"), "thin-no-distfiles", "thin Manifests without distfiles are not written at all")
    ctx.floor("R3", 3)
    _rest(ctx, P, up, ml, pm, loops)


def _is_text_equality(test, data):
    """`<something>.read() == data` (either way round): equality of the existing text with the regenerated text"""
    if not (isinstance(test, ast.Compare) and len(test.ops) == 1 and isinstance(test.ops[0], ast.Eq)):
        return False
    sides = [test.left, test.comparators[0]]
    return any(isinstance(s, ast.Name) and s.id == data for s in sides) and any(A.call_attr(c) == "read" for s in sides for c in A.calls(s))


def _r3(ctx, up, sc, wr, data):
    guards = [p for p in A.parents(sc) if isinstance(p, ast.If)]
    eq = [g_ for g_ in guards if _is_text_equality(g_.test, data)]
    ctx.check("R3", up, len(eq) == 1, "decided-by-equality", "the short cut is taken when the existing text equals the regenerated text",
              "the up-to-date short cut is no longer decided by comparing the existing text with the regenerated text", node=sc)
    for g_ in guards:
        if g_ in eq:
            continue
        tt = A.unparse(g_.test)
        sub = list(ast.walk(g_.test))
        byte_size = any((isinstance(x, ast.Attribute) and x.attr in ("getsize", "st_size")) or (isinstance(x, ast.Name) and x.id == "getsize") for x in sub)
        char_count = any(isinstance(x, ast.Call) and dotted(x.func) == "len" for x in sub)
        bad = byte_size and char_count
        ctx.check("R3", up, not bad, f"no-bytes-vs-chars-prefilter:{tt[:40]}", f"extra guard `{tt[:50]}` does not compare a byte size with a character count",
                  f"the short cut is pre-filtered by `{tt}`: a byte size is compared with a character count, so with any non-ASCII name an up-to-date Manifest is rewritten on every run", node=g_)
    ctx.check("R3", up, sc.lineno < wr[0].lineno, "shortcut-before-write", "the comparison happens before anything is written")


def _rest(ctx, P, up, ml, pm, loops):
    # ---- R4 writer/parser agreement ------------------------------------------------------------------------------------
    # the types table of the parser: the one local bound to a dict literal keyed by string constants
    tables = [(tg.id, v) for tg, v, _ in A.assignments(pm.node) if isinstance(tg, ast.Name) and isinstance(v, ast.Dict) and v.keys and all(isinstance(k, ast.Constant) and isinstance(k.value, str) for k in v.keys)]
    ctx.require(len(tables) == 1, "parse_manifest: types table not found")
    tname, tdict = tables[0]
    types = [k.value for k in tdict.keys]
    emitted = {c.args[0].value for c in _ml_calls(up) if isinstance(c.args[0], ast.Constant)}
    for lp in loops:
        if isinstance(lp.iter, ast.Tuple):
            emitted |= {e.elts[0].value for e in lp.iter.elts if isinstance(e, ast.Tuple) and e.elts and isinstance(e.elts[0], ast.Constant)}
    ctx.check("R4", up, emitted == set(types), f"types-agree:{sorted(emitted ^ set(types))}", f"types written {sorted(emitted)} = types parsed {sorted(types)}",
              f"types written {sorted(emitted)} differ from the types parse_manifest accepts {sorted(types)}", node=up.node)
    # writer: size popped out of the checksums, head `TYPE name size`, then `CHF hex` pairs, newline-terminated.
    # Two renderings are accepted: f-string concatenation and a field list joined by one blank.
    sz = M.one(ml.node, "$size = chksums.pop('size')")
    ctx.check("R4", ml, sz is not None, "size-implicit", "size is the third field, not a named checksum")
    E = dict(sz.env) if sz else {}
    head = M.one(ml.node, "$acc = f'{chf.upper()} {filename} {$size}'", E)
    joined = False
    if head is None:
        head = M.one(ml.node, "$acc = [chf.upper(), filename, str($size)]", E)
        joined = head is not None
    ctx.check("R4", ml, head is not None, "head-fields", "line head: TYPE filename size")
    E = dict(head.env) if head else E
    pair = "[$o.upper(), get_handler($o).long2str($_)]" if joined else "f' {$o.upper()} {get_handler($o).long2str($_)}'"
    cols = M.one(ml.node, f"for $_ in $_:\n    $acc += {pair}", E)
    ctx.check("R4", ml, cols is not None and cols["o"] in A.assigned_names(cols.node.target), "chf-fields", "then pairs CHF hex")
    E = {k: v for k, v in (cols.env if cols else E).items() if k in ("acc",)}
    rets = A.returns(ml.node)
    line_pat = M.pat("' '.join($acc) + '\\n'" if joined else "$acc + '\\n'")
    ctx.check("R4", ml, bool(rets) and all(r.value is not None and line_pat.matches(r.value, E) is not None for r in rets), "newline", "one entry per line")
    # parser: whitespace split; type = field 0, name = field 1, size = field 2, pairs from field 3
    PE = {"types": tname}
    rd = M.one(pm.node, "$line = $rec.split()\n$d = $types.get($line[0])", PE)
    PE = dict(rd.env) if rd else PE
    ctx.check("R4", pm, rd is not None and M.has(pm.node, "$d = $types.get($line[0])\n$i = iter($line[3:])\n$d[$line[1]] = [('size', int($line[2]))] + list(convert_chksums(zip($i, $i)))", PE),
              "parser-fields", "parser: type=field 0, name=field 1, size=field 2, pairs from field 3")
    cc = P.func(MOD, "convert_chksums")
    low = M.one(cc.node, "for $chf, $sum in iterable:\n    $chf = $chf.lower()")
    ctx.check("R4", cc, low is not None and M.has(cc.node, "yield $chf, int($sum, 16)", low.env), "parser-chf-lower-hex", "checksum names are lower-cased, values parsed as hex")
    ctx.check("R4", pm, rd is not None and M.has(pm.node, "if len($line) % 2 != 1:\n    raise errors.ParseChksumError(...)", PE) and M.has(pm.node, "if $line[1] in $d:\n    raise errors.ParseChksumError(...)", PE),
              "parser-rejects-malformed", "odd token counts and duplicate names are rejected")
    ctx.floor("R4", 7)

    # ---- R5 classification ----------------------------------------------------------------------------------------------
    # the per-type dicts by their role: what is emitted under AUX, and what the literal (type, dict) pairs name
    RE = {}
    aux_c = _ml_calls(up, "AUX")
    comp = A.enclosing(aux_c[0], (ast.GeneratorExp, ast.ListComp)) if len(aux_c) == 1 else None
    am = M.one(comp.generators[0].iter, "$aux.items()") if comp is not None else None
    if am:
        RE["aux"] = am["aux"]
    for lp in loops:
        if isinstance(lp.iter, ast.Tuple):
            for e in lp.iter.elts:
                if isinstance(e, ast.Tuple) and len(e.elts) == 2 and isinstance(e.elts[1], ast.Name) and A.const(e.elts[0]) in ("EBUILD", "MISC"):
                    RE[A.const(e.elts[0]).lower()] = e.elts[1].id
    roles = all(k in RE for k in ("aux", "ebuild", "misc"))
    scan = M.one(up.node, "for $obj in iter_scan(...):\n    $p = $obj.location", RE)
    SE = dict(scan.env) if scan else dict(RE)
    fa = M.one(up.node, "$fd = '/files/'\nfor $obj in iter_scan(...):\n    if $p.startswith($fd):\n        $d = $aux", SE) if scan else None
    ctx.check("R5", up, roles and fa is not None and M.has(up.node, "if $p.startswith($fd):\n    $p = $p[len($fd):]", fa.env), "files-are-aux", "files/ entries are AUX, named relative to files/")
    SE = dict(fa.env) if fa else SE
    ctx.check("R5", up, roles and scan is not None and M.has(up.node, "for $obj in iter_scan(...):\n    if $_:\n        ...\n    elif $obj.dirname == '/':\n        if $obj.location[-7:] == '.ebuild':\n            $d = $ebuild\n        else:\n            $d = $misc", SE),
              "toplevel-ebuild-or-misc", "top-level files are EBUILD (*.ebuild) or MISC")
    ctx.check("R5", up, scan is not None and M.has(up.node, "$ex = frozenset(['CVS', '.svn', 'Manifest'])\n...\nif not self.thin:\n    for $obj in iter_scan(...):\n        if $ex.intersection($p.split('/')):\n            continue", SE),
              "excludes", "VCS dirs and the Manifest itself are not covered")
    ctx.check("R5", up, scan is not None and M.has(up.node, "for $obj in iter_scan(...):\n    if not $obj.is_reg:\n        continue", SE), "regular-files-only", "only regular files are covered")
    ctx.check("R5", up, scan is not None and M.has(up.node, "for $obj in iter_scan(...):\n    $d[$p] = dict($obj.chksums)", SE), "keyed-by-name", "entries are keyed by name (listing order cannot matter)")
    ctx.check("R5", up, M.has(up.node, "if not self.thin:\n    for $obj in iter_scan(...):\n        ..."), "thin-skips-scan", "thin mode covers distfiles only")
    dist_c = _ml_calls(up, "DIST")
    dcomp = A.enclosing(dist_c[0], (ast.GeneratorExp, ast.ListComp)) if len(dist_c) == 1 else None
    dm = M.pat("_manifest_line('DIST', os.path.basename($f.filename), $f.chksums)").matches(dist_c[0]) if dcomp is not None else None
    ctx.check("R5", up, dm is not None and len(dcomp.generators) == 1 and A.unparse(dcomp.generators[0].target) == dm["f"] and "fetchables" in A.names_in(dcomp.generators[0].iter),
              "dist-entries", "DIST entries: basename + the fetchable's checksums")
    ctx.floor("R5", 7)

    # ---- R6 generating a Manifest reads its inputs, it does not edit them --------------------------------------------
    G.pure(ctx, "R6", [("pkgcore.ebuild.digest", "_manifest_line", (), "the checksum mapping belongs to the fetchable / the parsed Manifest; a regeneration must find it intact"),
                        ("pkgcore.ebuild.digest", "Manifest.update", ("self:",), "update refreshes this Manifest object; the fetchables are inputs")])
    ctx.floor("R6", 2)


F = "src/pkgcore/ebuild/digest.py"
MUTANTS = [
    {"name": "close-in-finally", "file": F, "old": "            handle.close()\n        except BaseException:\n            handle.discard()\n            raise\n", "new": "        finally:\n            handle.close()\n", "rule": "R1"},
    {"name": "revert-plain-open", "file": F, "old": "        handle = AtomicWriteFile(self.path)\n        try:\n            handle.write(data)\n            handle.close()\n        except BaseException:\n            handle.discard()\n            raise\n", "new": "        with open(self.path, \"w\") as handle:\n            handle.write(data)\n", "rule": "R1"},
    {"name": "no-discard", "file": F, "old": "        except BaseException:\n            handle.discard()\n            raise\n", "new": "        except BaseException:\n            raise\n", "rule": "R1"},
    {"name": "chksums-unsorted", "file": F, "old": "    for other_chf in sorted(chksums):", "new": "    for other_chf in chksums:", "rule": "R2"},
    {"name": "aux-unsorted", "file": F, "old": "            for path, chksums in sorted(aux.items(), key=_key_sort)", "new": "            for path, chksums in aux.items()", "rule": "R2"},
    {"name": "dist-unsorted", "file": F, "old": "            for fetchable in sorted(fetchables, key=operator.attrgetter(\"filename\"))", "new": "            for fetchable in fetchables", "rule": "R2"},
    {"name": "size-prefilter", "file": F, "old": "            with open(self.path) as handle:\n                if handle.read() == data:\n                    return False", "new": "            if os.path.getsize(self.path) == len(data):\n                with open(self.path) as handle:\n                    if handle.read() == data:\n                        return False", "rule": "R3"},
    {"name": "always-rewrite", "file": F, "old": "                if handle.read() == data:\n                    return False", "new": "                handle.read()", "rule": "R3"},
    {"name": "type-drift", "file": F, "old": "        for mtype, inst in ((\"EBUILD\", ebuild), (\"MISC\", misc)):", "new": "        for mtype, inst in ((\"EBUILD\", ebuild), (\"OTHER\", misc)):", "rule": "R4"},
    {"name": "explicit-size-column", "file": F, "old": "    size = chksums.pop(\"size\")", "new": "    size = chksums[\"size\"]", "rule": "R4"},
]
TWINS = [
    {"name": "join-form", "file": F, "old": "    line = f\"{chf.upper()} {filename} {size}\"\n    for other_chf in sorted(chksums):\n        line += f\" {other_chf.upper()} {get_handler(other_chf).long2str(chksums[other_chf])}\"\n    return line + \"\\n\"", "new": "    fields = [chf.upper(), filename, str(size)]\n    for other_chf in sorted(chksums):\n        fields += [other_chf.upper(), get_handler(other_chf).long2str(chksums[other_chf])]\n    return \" \".join(fields) + \"\\n\""},
    {"name": "exists-guard", "file": F, "old": "            with open(self.path) as handle:\n                if handle.read() == data:\n                    return False", "new": "            if os.path.exists(self.path):\n                with open(self.path) as handle:\n                    if handle.read() == data:\n                        return False"},
]
