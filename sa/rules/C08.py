"""C08 — repository queries return exactly the matching packages (structural clauses)."""
import ast

from ..core import astutil as A
from ..core import boolx
from ..core.cfg import cfg_of
from ..core.model import dotted

META = {
    "technique": "guard rule (every yielded package passed the caller's match function), negation-awareness rule on every site that lifts the inner value restriction of a collected package restriction for candidate pruning, each-once rule on the candidate generators, guard rule on single-candidate shortcuts, sorter-placement rule, stack-iteration rule for filtered/multiplexed trees",
    "level": "Decides: (R1) soundness by construction: _internal_match yields a package only under match_func(pkg), and itermatch binds match_func from the caller's restriction (match / force_True / force_False); (R2) candidate pruning never applies a category/package restriction with the wrong polarity: negated wrappers are skipped per DNF solution and the fast path does not narrow at all when anything below the top node is negated; (R3) candidate generators yield each category / (category, package) at most once, the one-candidate shortcut is taken only when no other package restriction is pending, and the sorter is applied to instantiated packages (version order), not to raw version strings; (R4) filtered trees filter with the polarity their sentinel selects and agree with __getitem__, multiplexed trees consult every member tree on both the sorted and unsorted path. Does NOT decide completeness of pruning for arbitrary restrictions.",
    "note": "restriction.match is opaque; over-approximating candidates is always allowed because of R1",
}
MOD = "pkgcore.repository.prototype"


def run(ctx):
    P = ctx.program
    ctx.explanation = META["level"]
    im = P.func(MOD, "tree._internal_match")
    ys = [n for n in A.body_walk(im.node) if isinstance(n, ast.Yield)]
    mf = im.params()[2]
    for y in ys:
        v = A.unparse(y.value) if y.value is not None else "None"
        if v == "None":
            continue
        guard = [p for p in A.parents(y) if isinstance(p, ast.If)]
        ok = bool(guard) and A.unparse(guard[0].test) == f"{mf}({v})" and any(A.contains_node(s, y) for s in guard[0].body)
        ctx.check("R1", im, ok, f"yield-guarded:{v}", f"`yield {v}` happens only under `{mf}({v})`", f"_internal_match yields `{v}` without the caller's match function having accepted it", node=y)
    it = P.func(MOD, "tree.itermatch")
    binds = {A.unparse(v) for t, v, _ in A.assignments(it.node, "match")}
    r0 = it.params()[1]
    ctx.check("R1", it, binds == {f"{r0}.match", f"{r0}.force_True", f"{r0}.force_False"}, "match-func-binding", "the match function is the caller's restriction's match/force_True/force_False", f"match is bound from {sorted(binds)}")
    call = [c for c in A.calls(it.node) if A.unparse(c.func) == "self._internal_match"]
    ctx.check("R1", it, len(call) == 1 and len(call[0].args) >= 2 and A.unparse(call[0].args[1]) == "match", "match-func-passed", "itermatch hands that function to _internal_match")
    ctx.floor("R1", 3)

    # ---- R2 negation awareness -----------------------------------------------------------
    ic = P.func(MOD, "tree._identify_candidates")
    fic = P.func(MOD, "tree._fast_identify_candidates")
    lifts = []
    for f in (ic, fic):
        for comp in [n for n in A.body_walk(f.node) if isinstance(n, (ast.ListComp, ast.GeneratorExp, ast.SetComp))]:
            if isinstance(comp.elt, ast.Attribute) and comp.elt.attr == "restriction" and "collect_package_restrictions" in A.unparse(comp.generators[0].iter):
                lifts.append((f, comp))
    ctx.require(len(lifts) >= 2, "_identify_candidates: sites lifting `.restriction` of collected package restrictions not found")
    for f, comp in lifts:
        var = A.unparse(comp.elt.value)
        ok = any(A.unparse(c) in (f"not {var}.negate",) for c in comp.generators[0].ifs)
        ctx.check("R2", f, ok, f"lift-skips-negated@{A.unparse(comp.generators[0].iter)[-22:]}", f"`{A.unparse(comp)[:60]}` skips negated wrappers",
                  f"{f.qual} takes `{var}.restriction` of collected package restrictions without looking at `{var}.negate`: And(category==c, not package==foo) is pruned to c/foo only and returns nothing", node=comp)
    # fast path: bail out on inner negation before anything is collected
    first = fic.node.body[0]
    if isinstance(first, ast.Expr) and isinstance(first.value, ast.Constant):
        first = fic.node.body[1]
    ok = isinstance(first, ast.If) and A.unparse(first.test) == f"self._has_inner_negation({fic.params()[1]})" and all(isinstance(s, (ast.If, ast.Return)) for s in first.body) and any(isinstance(s, ast.Return) for s in ast.walk(first))
    ctx.check("R2", fic, ok, "fast-path-negation-bailout", "the fast path returns the whole candidate space when anything below the top node is negated",
              "_fast_identify_candidates collects category/package restrictions from under negated nodes and applies them positively", node=first)
    if ok:
        rets = [A.unparse(r.value) for r in ast.walk(first) if isinstance(r, ast.Return)]
        ctx.check("R2", fic, any("self.versions" in r for r in rets) and all("self.versions" in r or "self.categories" in r for r in rets), "bailout-returns-everything", "the bail-out yields every (category, package) of the repository")
    hn = P.func(MOD, "tree._has_inner_negation")
    txt = A.unparse(hn.node)
    ctx.check("R2", hn, "restriction.Negate" in txt and "'negate', False" in txt and "boolean.base" in txt and "stack.extend" in txt, "inner-negation-walk", "the negation walk looks at Negate wrappers, .negate flags and descends through boolean nodes")
    # top-level negation handled: exact sets dropped and filters inverted
    neg_if = [n for n in A.body_walk(fic.node) if isinstance(n, ast.If) and A.unparse(n.test) == "restrict.negate"]
    ctx.check("R2", fic, bool(neg_if) and "cat_exact = pkg_exact = ()" in A.unparse(neg_if[0]), "top-negate-drops-exact", "a negated top-level node never narrows to the exact category/package sets")
    negkw = [c for c in A.calls(fic.node) if A.unparse(c.func) in ("self._cat_filter", "self._package_filter") and any(k.arg == "negate" and A.unparse(k.value) == "restrict.negate" for k in c.keywords)]
    ctx.check("R2", fic, len(negkw) >= 2, "top-negate-inverts-filters", "category/package filters receive the top-level negate flag")
    exact = [n for n in A.body_walk(fic.node) if isinstance(n, ast.ListComp) and "StrExactMatch" in A.unparse(n)]
    ctx.check("R2", fic, bool(exact) and "not x.negate" in A.unparse(exact[0]), "exact-skips-negated-values", "only non-negated exact string matches are turned into exact candidate sets")
    ctx.floor("R2", 7)

    # ---- R3 each once / shortcuts / sorter placement -----------------------------------------
    for q in ("tree._cat_filter", "tree._package_filter"):
        f = P.func(MOD, q)
        ys = [n for n in A.body_walk(f.node) if isinstance(n, ast.Yield)]
        is_genexp_return = any(isinstance(r.value, ast.GeneratorExp) and len(r.value.generators) > 1 for r in A.returns(f.node))
        ctx.check("R3", f, bool(ys) and not is_genexp_return, f"explicit-generator:{q}", f"{q} is an explicit loop (one candidate per item)",
                  f"{q} returns a multi-generator expression: an item accepted by several restrictions is produced once per restriction, so its packages are reported more than once")
        for y in ys:
            st = A.stmt_of(y)
            inner = A.enclosing(y, ast.For)
            par = getattr(st, "_parent", None)
            body = par.body if isinstance(par, (ast.If, ast.For)) else []
            idx = body.index(st) if st in body else -1
            nxt = body[idx + 1] if 0 <= idx < len(body) - 1 else None
            ctx.check("R3", f, isinstance(nxt, ast.Break), f"yield-then-break:{q}", f"{q}: after yielding an item the restriction loop is left (each item at most once)",
                      f"{q}: `yield` inside the restriction loop is not followed by `break`: an item matching several restrictions is yielded several times", node=y)
    single = [r for r in A.returns(fic.node) if isinstance(r.value, ast.List) and len(r.value.elts) == 1]
    ctx.require(single, "_fast_identify_candidates: single-candidate shortcut not found")
    for r in single:
        tests = [A.unparse(p.test) for p in A.parents(r) if isinstance(p, ast.If)]
        j = " ".join(tests)
        ctx.check("R3", fic, "not pkg_restrict" in j and "not cat_restrict" in j and "len(pkg_exact) == 1" in j and "len(cat_exact) == 1" in j, "single-candidate-guards",
                  "the one-candidate shortcut requires exactly one exact category and package and NO other category/package restriction",
                  f"the one-candidate shortcut is guarded only by {tests}: with another package restriction pending (an OR alternative) its matches are never examined", node=r)
    gc = P.func(MOD, "tree._internal_gen_candidates")
    sort_calls = [c for c in A.calls(gc.node) if dotted(c.func) == "sorter"]
    bad = [c for c in sort_calls if "versions" in A.unparse(c.args[0])]
    ctx.check("R3", gc, not bad, "sorter-on-packages", "the sorter is never applied to raw version strings",
              f"_internal_gen_candidates applies the sorter to `{A.unparse(bad[0].args[0]) if bad else ''}` (version STRINGS): 1.10 sorts before 1.9, so sorted queries come out in string order", node=bad[0] if bad else None)
    yf = [n for n in A.body_walk(gc.node) if isinstance(n, ast.YieldFrom)]
    ctx.check("R3", gc, len(yf) == 1 and A.unparse(yf[0].value) == "sorter(pkg_filter(pkgs))", "sorts-filtered-packages", "each candidate's instantiated, filtered packages go through the sorter", f"_internal_gen_candidates yields from `{A.unparse(yf[0].value) if yf else None}`")
    ctx.check("R3", gc, any(isinstance(n, ast.For) and A.unparse(n.iter) == "sorter(candidates)" for n in A.body_walk(gc.node)), "sorts-candidates", "candidates themselves are visited in sorter order")
    ctx.floor("R3", 7)

    # ---- R4 filtered / multiplex ------------------------------------------------------------
    fi = P.func("pkgcore.repository.filtered", "tree.itermatch")
    finit = P.func("pkgcore.repository.filtered", "tree.__init__")
    r = A.returns(fi.node)
    ctx.check("R4", fi, len(r) == 1 and A.unparse(r[0].value) == "self._filterfunc(self.restrict.match, self.raw_repo.itermatch(restrict, **kwds))", "filter-shape", "filtered.tree.itermatch filters the wrapped repo's matches with its own restriction")
    sel = [n for n in A.body_walk(finit.node) if isinstance(n, ast.If) and A.unparse(n.test) == "sentinel_val"]
    ok = bool(sel) and A.unparse(sel[0].body[0]) == "self._filterfunc = filter" and A.unparse(sel[0].orelse[0]) == "self._filterfunc = filterfalse"
    ctx.check("R4", finit, ok, "sentinel-polarity", "sentinel True keeps matches (filter), False keeps non-matches (filterfalse)")
    gi = P.func("pkgcore.repository.filtered", "tree.__getitem__")
    ctx.check("R4", gi, "self.restrict.match(v) != self.sentinel_val" in A.unparse(gi.node), "getitem-agrees", "__getitem__ rejects what itermatch filters out")
    mi = P.func("pkgcore.repository.multiplex", "tree.itermatch")
    iters = [n for n in A.body_walk(mi.node) if isinstance(n, (ast.GeneratorExp, ast.ListComp)) and "repo.itermatch(restrict, **kwds)" in A.unparse(n)]
    ctx.check("R4", mi, len(iters) == 2 and all(any(A.unparse(g.iter) == "self.trees" and not g.ifs for g in n.generators) for n in iters), "all-trees", "both the unsorted and the sorted path query every member tree",
              f"multiplex.tree.itermatch consults {[A.unparse(g.iter) for n in iters for g in n.generators]}")
    ctx.floor("R4", 4)


MUTANTS = [
    {"name": "lift-ignores-negate", "file": "src/pkgcore/repository/prototype.py", "old": "                    for c in collect_package_restrictions(x, (\"category\",))\n                    if not c.negate\n", "new": "                    for c in collect_package_restrictions(x, (\"category\",))\n", "rule": "R2"},
    {"name": "no-bailout", "file": "src/pkgcore/repository/prototype.py", "old": "        if self._has_inner_negation(restrict):", "new": "        if False and self._has_inner_negation(restrict):", "rule": "R2"},
    {"name": "cat-filter-genexp", "file": "src/pkgcore/repository/prototype.py", "old": "        for x in self.categories:\n            for match in cats:\n                if match(x) == sentinel:\n                    yield x\n                    break\n", "new": "        return (x for x in self.categories for match in cats if match(x) == sentinel)\n", "rule": "R3"},
    {"name": "single-shortcut-unguarded", "file": "src/pkgcore/repository/prototype.py", "old": "                if not pkg_restrict and len(pkg_exact) == 1:", "new": "                if len(pkg_exact) == 1:", "rule": "R3"},
    {"name": "yield-unguarded", "file": "src/pkgcore/repository/prototype.py", "old": "            if match_func(pkg):\n                yield pkg\n            elif yield_none:\n                yield None", "new": "            if yield_none or match_func(pkg):\n                yield pkg", "rule": "R1"},
    {"name": "multiplex-skips-first", "file": "src/pkgcore/repository/multiplex.py", "old": "        return iter_sort(f, *[repo.itermatch(restrict, **kwds) for repo in self.trees])", "new": "        return iter_sort(f, *[repo.itermatch(restrict, **kwds) for repo in self.trees[1:]])", "rule": "R4"},
    {"name": "filter-polarity", "file": "src/pkgcore/repository/filtered.py", "old": "        if sentinel_val:\n            self._filterfunc = filter\n        else:\n            self._filterfunc = filterfalse", "new": "        if sentinel_val:\n            self._filterfunc = filterfalse\n        else:\n            self._filterfunc = filter", "rule": "R4"},
    {"name": "package-filter-no-break", "file": "src/pkgcore/repository/prototype.py", "old": "                    if match(pkg) == sentinel:\n                        yield (cat, pkg)\n                        break", "new": "                    if match(pkg) == sentinel:\n                        yield (cat, pkg)", "rule": "R3"},
]
TWINS = []
