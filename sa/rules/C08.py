"""C08 — repository queries return exactly the matching packages (structural clauses)."""
import ast

from ..core import astutil as A
from ..core import boolx
from ..core import match as M
from ..core.cfg import cfg_of
from ..core.model import dotted

META = {
    "technique": "guard rule (every yielded package passed the caller's match function), negation-awareness rule on every site that lifts the inner value restriction of a collected package restriction for candidate pruning, each-once rule on the candidate generators, guard rule on single-candidate shortcuts, sorter-placement rule, stack-iteration rule for filtered/multiplexed trees",
    "level": "Decides: (R1) soundness by construction: _internal_match yields a package only under match_func(pkg), and itermatch binds match_func from the caller's restriction (match / force_True / force_False); (R2) candidate pruning never applies a category/package restriction with the wrong polarity: negated wrappers are skipped per DNF solution and the fast path does not narrow at all when anything below the top node is negated; (R3) candidate generators yield each category / (category, package) at most once, the one-candidate shortcut is taken only when no other package restriction is pending, and the sorter is applied to instantiated packages (version order), not to raw version strings; (R4) filtered trees filter with the polarity their sentinel selects and agree with __getitem__, multiplexed trees consult every member tree on both the sorted and unsorted path. Does NOT decide completeness of pruning for arbitrary restrictions.",
    "note": "restriction.match is opaque; over-approximating candidates is always allowed because of R1",
}
META["technique"] += "; " + 'must-pass rule for cache refresh on add/remove; source agreement of the versioned / unversioned forms'
META["level"] += " Added after the second round of independent changes: " + '(R5) notify_add_package refreshes the versions and the per-category package cache on every path (unless the guard looks at the package name), notify_remove_package refreshes versions; the unversioned query form asks non-emptiness of the same version list the versioned form iterates.'
META["technique"] += "; " + 'generic pack G on the anchored files (optional-flag shift, closures outliving a loop iteration, single-pass iterables consumed twice, %-templates built from data, in-place writes to class-level / memoised objects, generators mutating what they yielded, memo keys that are projections)'
MOD = "pkgcore.repository.prototype"


def _noise(st):
    """`pass` or an expression statement that is not a yield (a logging call, a bare constant): carries no control flow"""
    return isinstance(st, ast.Pass) or (isinstance(st, ast.Expr) and not isinstance(st.value, (ast.Yield, ast.YieldFrom, ast.Await)))


def _always_returns(body):
    """every path through this statement list ends in `return` (only if/return/no-op statements allowed)"""
    eff = [s for s in body if not _noise(s)]
    if not eff or not all(isinstance(s, (ast.If, ast.Return)) for s in eff):
        return False
    last = eff[-1]
    if isinstance(last, ast.Return):
        return True
    return bool(last.orelse) and _always_returns(last.body) and _always_returns(last.orelse)


def _conjuncts(test):
    if isinstance(test, ast.BoolOp) and isinstance(test.op, ast.And):
        return [c for v in test.values for c in _conjuncts(v)]
    return [test]


def _in_body(if_node, node):
    return any(A.contains_node(s, node) for s in if_node.body)


def run(ctx):
    P = ctx.program
    ctx.explanation = META["level"]
    im = P.func(MOD, "tree._internal_match")
    ys = [n for n in A.body_walk(im.node) if isinstance(n, ast.Yield)]
    mf = im.params()[2]
    for y in ys:
        v = A.unparse(y.value) if y.value is not None else "None"
        if v == "None":
            continue
        guard = [p for p in A.parents(y) if isinstance(p, ast.If)]
        ok = bool(guard) and A.unparse(guard[0].test) == f"{mf}({v})" and any(A.contains_node(s, y) for s in guard[0].body)
        ctx.check("R1", im, ok, f"yield-guarded:{v}", f"`yield {v}` happens only under `{mf}({v})`", f"_internal_match yields `{v}` without the caller's match function having accepted it", node=y)
    it = P.func(MOD, "tree.itermatch")
    r0 = it.params()[1]
    call = [c for c in A.calls(it.node) if A.unparse(c.func) == "self._internal_match"]
    # the local that carries the match function is whatever is handed to _internal_match as its 2nd argument
    mname = call[0].args[1].id if len(call) == 1 and len(call[0].args) >= 2 and isinstance(call[0].args[1], ast.Name) and call[0].args[1].id not in it.params() else None
    binds = {A.unparse(v) for t, v, _ in A.assignments(it.node, mname)} if mname else set()
    ctx.check("R1", it, binds == {f"{r0}.match", f"{r0}.force_True", f"{r0}.force_False"}, "match-func-binding", "the match function is the caller's restriction's match/force_True/force_False", f"match is bound from {sorted(binds)}")
    ctx.check("R1", it, mname is not None, "match-func-passed", "itermatch hands that function to _internal_match")
    ctx.floor("R1", 3)

    # ---- R2 negation awareness -----------------------------------------------------------
    ic = P.func(MOD, "tree._identify_candidates")
    fic = P.func(MOD, "tree._fast_identify_candidates")
    lifts = []
    for f in (ic, fic):
        for comp in [n for n in A.body_walk(f.node) if isinstance(n, (ast.ListComp, ast.GeneratorExp, ast.SetComp))]:
            if isinstance(comp.elt, ast.Attribute) and comp.elt.attr == "restriction" and "collect_package_restrictions" in A.unparse(comp.generators[0].iter):
                lifts.append((f, comp))
    ctx.require(len(lifts) >= 2, "_identify_candidates: sites lifting `.restriction` of collected package restrictions not found")
    for f, comp in lifts:
        var = A.unparse(comp.elt.value)
        ok = any(A.unparse(c) in (f"not {var}.negate",) for c in comp.generators[0].ifs)
        ctx.check("R2", f, ok, f"lift-skips-negated@{A.unparse(comp.generators[0].iter)[-22:]}", f"`{A.unparse(comp)[:60]}` skips negated wrappers",
                  f"{f.qual} takes `{var}.restriction` of collected package restrictions without looking at `{var}.negate`: And(category==c, not package==foo) is pruned to c/foo only and returns nothing", node=comp)
    # fast path: bail out on inner negation before anything is collected
    rparam = fic.params()[1]
    bail = [s for s in fic.node.body if isinstance(s, ast.If) and A.unparse(s.test) == f"self._has_inner_negation({rparam})"]
    first = bail[0] if bail else None
    # "before anything is collected": no statement that does work precedes it at the top level, and every collection call comes later
    before = [s for s in fic.node.body if first is not None and s.lineno < first.lineno and not _noise(s)]
    collected = [c for c in A.calls(fic.node) if dotted(c.func) == "collect_package_restrictions"]
    ok = first is not None and not before and all(c.lineno > first.end_lineno for c in collected) and _always_returns(first.body)
    ctx.check("R2", fic, ok, "fast-path-negation-bailout", "the fast path returns the whole candidate space when anything below the top node is negated",
              "_fast_identify_candidates collects category/package restrictions from under negated nodes and applies them positively", node=first)
    if ok:
        rets = [A.unparse(r.value) for r in ast.walk(first) if isinstance(r, ast.Return)]
        ctx.check("R2", fic, any("self.versions" in r for r in rets) and all("self.versions" in r or "self.categories" in r for r in rets), "bailout-returns-everything", "the bail-out yields every (category, package) of the repository")
    hn = P.func(MOD, "tree._has_inner_negation")
    hp = hn.params()[0]
    walk = M.has(hn.node, f"""
        $stack = list({hp}) if isinstance({hp}, boolean.base) else []
        while $stack:
            $node = $stack.pop()
            if isinstance($node, restriction.Negate) or getattr($node, 'negate', False):
                return True
            if isinstance($node, boolean.base):
                $stack.extend($node)
        return False
    """)
    ctx.check("R2", hn, walk, "inner-negation-walk", "the negation walk looks at Negate wrappers, .negate flags and descends through boolean nodes")
    # top-level negation handled: exact sets dropped and filters inverted
    # the four working sets, bound by ROLE: the *_restrict sets receive `.restriction` of the collected wrappers by attribute,
    # the *_exact sets are the ones paired with them in the loop that moves non-negated exact matches over
    coll = M.one(fic.node, f"""
        for $w in collect_package_restrictions({rparam}, ...):
            if $w.attr == 'category':
                $cat_restrict.add($w.restriction)
            elif $w.attr == 'package':
                $pkg_restrict.add($w.restriction)
    """)
    move = M.one(fic.node, """
        for $e, $s in $$pairs:
            $l = [$x for $x in $s if $_]
            $s.difference_update($l)
            $e.update($y.exact for $y in $l)
    """)
    role = {}
    if coll is not None and move is not None and isinstance(move.env["$pairs"], (ast.Tuple, ast.List)):
        pairs = {}
        for el in move.env["$pairs"].elts:
            if isinstance(el, (ast.Tuple, ast.List)) and len(el.elts) == 2 and all(isinstance(x, ast.Name) for x in el.elts):
                pairs[el.elts[1].id] = el.elts[0].id
        if coll["cat_restrict"] in pairs and coll["pkg_restrict"] in pairs and len(pairs) == 2:
            role = {"cat_restrict": coll["cat_restrict"], "pkg_restrict": coll["pkg_restrict"], "cat_exact": pairs[coll["cat_restrict"]], "pkg_exact": pairs[coll["pkg_restrict"]]}
    neg_if = [n for n in A.body_walk(fic.node) if isinstance(n, ast.If) and A.unparse(n.test) == f"{rparam}.negate"]
    emptied = {A.unparse(t) for n in neg_if[:1] for st in n.body if isinstance(st, ast.Assign) and isinstance(st.value, ast.Tuple) and not st.value.elts for t in st.targets}
    ctx.check("R2", fic, bool(role) and bool(neg_if) and {role["cat_exact"], role["pkg_exact"]} <= emptied, "top-negate-drops-exact", "a negated top-level node never narrows to the exact category/package sets")
    negkw = [c for c in A.calls(fic.node) if A.unparse(c.func) in ("self._cat_filter", "self._package_filter") and any(k.arg == "negate" and A.unparse(k.value) == f"{rparam}.negate" for k in c.keywords)]
    ctx.check("R2", fic, len(negkw) >= 2, "top-negate-inverts-filters", "category/package filters receive the top-level negate flag")
    exact = [n for n in A.body_walk(fic.node) if isinstance(n, ast.ListComp) and any(dotted(c.func) == "isinstance" and len(c.args) == 2 and (dotted(c.args[1]) or "").endswith("StrExactMatch") for c in A.calls(n))]
    ctx.check("R2", fic, bool(exact) and M.pat("[$x for $x in $_ if isinstance($x, values.StrExactMatch) and (not $x.negate)]").matches(exact[0]) is not None, "exact-skips-negated-values", "only non-negated exact string matches are turned into exact candidate sets")
    ctx.floor("R2", 7)

    # ---- R3 each once / shortcuts / sorter placement -----------------------------------------
    for q in ("tree._cat_filter", "tree._package_filter"):
        f = P.func(MOD, q)
        ys = [n for n in A.body_walk(f.node) if isinstance(n, ast.Yield)]
        is_genexp_return = any(isinstance(r.value, ast.GeneratorExp) and len(r.value.generators) > 1 for r in A.returns(f.node))
        ctx.check("R3", f, bool(ys) and not is_genexp_return, f"explicit-generator:{q}", f"{q} is an explicit loop (one candidate per item)",
                  f"{q} returns a multi-generator expression: an item accepted by several restrictions is produced once per restriction, so its packages are reported more than once")
        for y in ys:
            st = A.stmt_of(y)
            inner = A.enclosing(y, ast.For)
            par = getattr(st, "_parent", None)
            body = par.body if isinstance(par, (ast.If, ast.For)) else []
            idx = body.index(st) if st in body else -1
            # the next statement that does anything (logging lines do not count) leaves the restriction loop
            rest = [s_ for s_ in body[idx + 1:] if not _noise(s_)] if idx >= 0 else []
            nxt = rest[0] if rest else None
            ctx.check("R3", f, isinstance(nxt, ast.Break), f"yield-then-break:{q}", f"{q}: after yielding an item the restriction loop is left (each item at most once)",
                      f"{q}: `yield` inside the restriction loop is not followed by `break`: an item matching several restrictions is yielded several times", node=y)
    single = [r for r in A.returns(fic.node) if isinstance(r.value, ast.List) and len(r.value.elts) == 1]
    ctx.require(single, "_fast_identify_candidates: single-candidate shortcut not found")
    for r in single:
        tests = [A.unparse(p.test) for p in A.parents(r) if isinstance(p, ast.If)]
        conj = {A.unparse(c) for p in A.parents(r) if isinstance(p, ast.If) and _in_body(p, r) for c in _conjuncts(p.test)}
        need = {f"not {role['pkg_restrict']}", f"not {role['cat_restrict']}", f"len({role['pkg_exact']}) == 1", f"len({role['cat_exact']}) == 1"} if role else None
        ctx.check("R3", fic, need is not None and need <= conj, "single-candidate-guards",
                  "the one-candidate shortcut requires exactly one exact category and package and NO other category/package restriction",
                  f"the one-candidate shortcut is guarded only by {tests}: with another package restriction pending (an OR alternative) its matches are never examined", node=r)
    gc = P.func(MOD, "tree._internal_gen_candidates")
    sort_calls = [c for c in A.calls(gc.node) if dotted(c.func) == "sorter"]
    def _src(e):
        """text of a sorter argument, a local name resolved to what it was assigned from"""
        t = A.unparse(e)
        if isinstance(e, ast.Name):
            t += " " + " ".join(A.unparse(v) for _, v, _ in A.assignments(gc.node, e.id))
        return t
    bad = [c for c in sort_calls if c.args and "self.versions" in _src(c.args[0])]
    ctx.check("R3", gc, not bad, "sorter-on-packages", "the sorter is never applied to raw version strings",
              f"_internal_gen_candidates applies the sorter to `{A.unparse(bad[0].args[0]) if bad else ''}` (version STRINGS): 1.10 sorts before 1.9, so sorted queries come out in string order", node=bad[0] if bad else None)
    yf = [n for n in A.body_walk(gc.node) if isinstance(n, ast.YieldFrom)]
    # the local that holds the instantiated packages is whatever goes through pkg_filter and the sorter into the one `yield from`
    yfm = M.pat("sorter(pkg_filter($pkgs))").matches(yf[0].value) if len(yf) == 1 else None
    ctx.check("R3", gc, yfm is not None and M.has(gc.node, "$pkgs = (raw_pkg_cls($cp[0], $cp[1], $v) for $v in self.versions.get($cp, ()))", yfm.env), "sorts-filtered-packages", "each candidate's instantiated, filtered packages go through the sorter", f"_internal_gen_candidates yields from `{A.unparse(yf[0].value) if yf else None}`")
    ctx.check("R3", gc, any(isinstance(n, ast.For) and A.unparse(n.iter) == "sorter(candidates)" for n in A.body_walk(gc.node)), "sorts-candidates", "candidates themselves are visited in sorter order")
    ctx.floor("R3", 7)

    # ---- R4 filtered / multiplex ------------------------------------------------------------
    fi = P.func("pkgcore.repository.filtered", "tree.itermatch")
    finit = P.func("pkgcore.repository.filtered", "tree.__init__")
    r = A.returns(fi.node)
    ctx.check("R4", fi, len(r) == 1 and A.unparse(r[0].value) == "self._filterfunc(self.restrict.match, self.raw_repo.itermatch(restrict, **kwds))", "filter-shape", "filtered.tree.itermatch filters the wrapped repo's matches with its own restriction")
    sel = [n for n in A.body_walk(finit.node) if isinstance(n, ast.If) and A.unparse(n.test) == "sentinel_val"]
    ffs = [A.unparse(v) for t, v, _ in A.assignments(finit.node) if A.unparse(t) == "self._filterfunc"]
    ok = len(sel) == 1 and sorted(ffs) == ["filter", "filterfalse"] and M.pat("if sentinel_val:\n    self._filterfunc = filter\nelse:\n    self._filterfunc = filterfalse").matches(sel[0]) is not None
    ctx.check("R4", finit, ok, "sentinel-polarity", "sentinel True keeps matches (filter), False keeps non-matches (filterfalse)")
    gi = P.func("pkgcore.repository.filtered", "tree.__getitem__")
    gk = gi.params()[1]
    ctx.check("R4", gi, M.has(gi.node, f"$v = self.raw_repo[{gk}]\nif self.restrict.match($v) != self.sentinel_val:\n    raise KeyError(...)\nreturn $v"), "getitem-agrees", "__getitem__ rejects what itermatch filters out")
    mi = P.func("pkgcore.repository.multiplex", "tree.itermatch")
    mr = mi.params()[1]
    iters = []  # (comprehension, name of the member-tree variable queried in it)
    for n in A.body_walk(mi.node):
        if isinstance(n, (ast.GeneratorExp, ast.ListComp)):
            qs = M.find(n, f"$repo.itermatch({mr}, **kwds)")
            if qs:
                iters.append((n, {q_["repo"] for q_ in qs}))
    ctx.check("R4", mi, len(iters) == 2 and all(len(vs) == 1 and any(A.unparse(g.target) in vs and A.unparse(g.iter) == "self.trees" and not g.ifs for g in n.generators) for n, vs in iters), "all-trees", "both the unsorted and the sorted path query every member tree",
              f"multiplex.tree.itermatch consults {[A.unparse(g.iter) for n, _ in iters for g in n.generators]}")
    ctx.floor("R4", 4)

    # ---- R5 the caches a query reads are invalidated when the contents change; both query forms read one source ----
    na = P.func(MOD, "tree.notify_add_package")
    g5 = cfg_of(na.node)

    def regen_nodes(fn, cache):
        return [g_ for c in A.calls(fn.node) if A.call_attr(c) == "force_regen" and isinstance(c.func.value, ast.Attribute) and c.func.value.attr == cache
                for g_ in [cfg_of(fn.node).node_of(c)] if g_ is not None]

    for cache, why in (("versions", "the new version is only visible through the version cache"),
                       ("packages", "a package new to an already listed category is otherwise missing from every query that enumerates the category")):
        nodes = regen_nodes(na, cache)
        ctx.check("R5", na, bool(nodes), f"add-invalidates:{cache}:present", f"notify_add_package refreshes the {cache} cache")
        if not nodes:
            continue
        path = g5.find_path([g5.entry], lambda n: n is g5.exit, avoid=lambda n: n in nodes)
        guarded_by_pkg = False
        if path:
            # conditional refresh is fine when the condition looks at the package name itself
            for n in nodes:
                for p_ in A.parents(n.ast):
                    if isinstance(p_, ast.If) and any(isinstance(x, ast.Attribute) and x.attr == "package" for x in ast.walk(p_.test)):
                        guarded_by_pkg = True
        ctx.check("R5", na, path is None or guarded_by_pkg, f"add-invalidates:{cache}",
                  f"every way through notify_add_package refreshes the {cache} cache ({why})",
                  f"notify_add_package can finish without refreshing the {cache} cache ({g5.fmt_path(path, na.relpath) if path else ''}): {why}",
                  node=nodes[0].ast)
    nr = P.func(MOD, "tree.notify_remove_package")
    gr = cfg_of(nr.node)
    vn = regen_nodes(nr, "versions")
    ctx.check("R5", nr, bool(vn) and gr.find_path([gr.entry], lambda n: n is gr.exit, avoid=lambda n: n in vn) is None, "remove-invalidates:versions",
              "every way through notify_remove_package refreshes the versions cache")
    # unversioned form: "has at least one version" must be asked of the same source the versioned form iterates
    vers_iter = [ge.generators[0].iter for ge in ast.walk(gc.node) if isinstance(ge, ast.GeneratorExp) and len(ge.generators) == 1
                 and any(isinstance(x, ast.Attribute) and x.attr == "versions" for x in ast.walk(ge.generators[0].iter))]
    vb = [n for n in A.body_walk(gc.node) if isinstance(n, ast.If) and A.unparse(n.test) == "versioned"]
    ctx.require(vers_iter and vb, "_internal_gen_candidates: versioned arm / version iteration not found")
    want = A.unparse(vers_iter[0])
    unv_tests = [n for st_ in vb[0].orelse for n in ast.walk(st_) if isinstance(n, ast.If)]
    ctx.require(unv_tests, "_internal_gen_candidates: the unversioned arm has no emptiness test")
    t0 = unv_tests[0].test
    inner = t0
    if isinstance(inner, ast.Call) and isinstance(inner.func, ast.Name) and inner.func.id in ("bool", "len", "any") and inner.args:
        inner = inner.args[0]
    ctx.check("R5", gc, A.unparse(inner) == want, "unversioned-asks-version-list",
              f"the unversioned form reports a package iff `{want}` is non-empty, the list the versioned form iterates",
              f"the unversioned form reports a package when `{A.unparse(t0)}` holds, but the versioned form yields one package per element of `{want}`: "
              f"a known package with an empty version list is reported unversioned although no versioned query returns it", node=unv_tests[0])
    ctx.floor("R5", 5)


MUTANTS = [
    {"name": "lift-ignores-negate", "file": "src/pkgcore/repository/prototype.py", "old": "                    for c in collect_package_restrictions(x, (\"category\",))\n                    if not c.negate\n", "new": "                    for c in collect_package_restrictions(x, (\"category\",))\n", "rule": "R2"},
    {"name": "no-bailout", "file": "src/pkgcore/repository/prototype.py", "old": "        if self._has_inner_negation(restrict):", "new": "        if False and self._has_inner_negation(restrict):", "rule": "R2"},
    {"name": "cat-filter-genexp", "file": "src/pkgcore/repository/prototype.py", "old": "        for x in self.categories:\n            for match in cats:\n                if match(x) == sentinel:\n                    yield x\n                    break\n", "new": "        return (x for x in self.categories for match in cats if match(x) == sentinel)\n", "rule": "R3"},
    {"name": "single-shortcut-unguarded", "file": "src/pkgcore/repository/prototype.py", "old": "                if not pkg_restrict and len(pkg_exact) == 1:", "new": "                if len(pkg_exact) == 1:", "rule": "R3"},
    {"name": "yield-unguarded", "file": "src/pkgcore/repository/prototype.py", "old": "            if match_func(pkg):\n                yield pkg\n            elif yield_none:\n                yield None", "new": "            if yield_none or match_func(pkg):\n                yield pkg", "rule": "R1"},
    {"name": "multiplex-skips-first", "file": "src/pkgcore/repository/multiplex.py", "old": "        return iter_sort(f, *[repo.itermatch(restrict, **kwds) for repo in self.trees])", "new": "        return iter_sort(f, *[repo.itermatch(restrict, **kwds) for repo in self.trees[1:]])", "rule": "R4"},
    {"name": "filter-polarity", "file": "src/pkgcore/repository/filtered.py", "old": "        if sentinel_val:\n            self._filterfunc = filter\n        else:\n            self._filterfunc = filterfalse", "new": "        if sentinel_val:\n            self._filterfunc = filterfalse\n        else:\n            self._filterfunc = filter", "rule": "R4"},
    {"name": "package-filter-no-break", "file": "src/pkgcore/repository/prototype.py", "old": "                    if match(pkg) == sentinel:\n                        yield (cat, pkg)\n                        break", "new": "                    if match(pkg) == sentinel:\n                        yield (cat, pkg)", "rule": "R3"},
]
TWINS = []
