"""C30 — world-file updates record exactly the requested entries."""
import ast

from ..core import generic as G
from ..core import astutil as A
from ..core import match as M
from ..core import atomic
from ..core import cfg as CFG
from ..core.model import dotted

META = {
    "technique": "atomic-replace typestate on FileList.flush; value-use rule for the slot in WorldFile._modify (used whole: truth test, comparison with '0', concatenation — never iterated or indexed); exactly-one-effect path rule (each path through _modify applies the add/remove once, to an atom rebuilt from key[:slot]); early-exit rule for update_worldset (the only exits that skip the flush are 'no world set' and 'nothing to remove')",
    "level": "Decides the structural clauses: the slot string is recorded whole; the recorded atom is rebuilt from the key (and slot unless '0'), never the raw request; add/remove is applied exactly once per request; pmerge flushes after every add and after every successful remove, and no membership pre-check on the raw atom can skip recording; the file is replaced through AtomicWriteFile with close() on the success path only; output is one atom per line, sorted. Does NOT decide: preservation of '@set' references and comments in a pre-existing world file (they are dropped by design, with a logged warning).",
    "note": "",
}
META["technique"] += "; " + 'generic pack G on the anchored files (optional-flag shift, closures outliving a loop iteration, single-pass iterables consumed twice, %-templates built from data, in-place writes to class-level / memoised objects, generators mutating what they yielded, memo keys that are projections)'
MOD = "pkgcore.pkgsets.filelist"


def run(ctx):
    P = ctx.program
    ctx.explanation = META["level"]
    fl = P.func(MOD, "FileList.flush")
    # ---- R1 atomic ----------------------------------------------------------------------------------
    hs = atomic.handle_names(fl)
    ctx.check("R1", fl, len(hs) == 1, f"atomic-handle:{sorted(hs)}", "flush writes through one AtomicWriteFile", "FileList.flush no longer writes through AtomicWriteFile", node=fl.node)
    for h, c in hs.items():
        ctx.check("R1", fl, A.unparse(c.args[0]) == "self.path", "atomic-target", "the handle targets the set's own file")
    atomic.check(ctx, "R1", fl, list(hs), what="the world file")
    ctx.floor("R1", 5)

    # ---- R2 slot used whole / exactly one effect ---------------------------------------------------------
    md = P.func(MOD, "WorldFile._modify")
    req, fn = md.params()[1], md.params()[2]
    slot_names = {f"{req}.slot"} | {t.id for t, v, _ in A.assignments(md.node) if isinstance(t, ast.Name) and A.unparse(v) == f"{req}.slot"}
    n_use = 0
    for n in A.walk(md.node):
        txt = A.unparse(n) if isinstance(n, (ast.Name, ast.Attribute)) else None
        if txt not in slot_names or isinstance(getattr(n, "ctx", None), ast.Store):
            continue
        p = getattr(n, "_parent", None)
        if isinstance(p, ast.Attribute) and A.unparse(p) in slot_names:
            continue
        n_use += 1
        kind = None
        if isinstance(p, (ast.For, ast.comprehension)) and p.iter is n:
            kind = "iterated"
        elif isinstance(p, ast.Subscript) and p.value is n:
            kind = "indexed"
        elif isinstance(p, ast.Call) and n in p.args and dotted(p.func) in ("list", "tuple", "set", "sorted", "iter"):
            kind = "iterated"
        elif isinstance(p, ast.Starred):
            kind = "iterated"
        ctx.check("R2", md, kind is None, f"slot-whole:{kind}", f"slot use `{A.unparse(p)[:40]}` treats the slot as one string",
                  f"WorldFile._modify {kind or ''} the slot string (`{A.unparse(p)[:60]}`): each character of a multi-character slot (':13', ':3.12') is recorded/removed as its own slot", node=n)
    ctx.check("R2", md, n_use >= 3, f"slot-uses:{n_use}", f"{n_use} uses of the slot inspected")
    g = CFG.cfg_of(md.node)
    eff = [c for c in A.calls(md.node) if isinstance(c.func, ast.Name) and c.func.id == fn]
    ctx.require(eff, "WorldFile._modify: application of the add/remove function not found")
    enodes = {g.node_of(c) for c in eff}
    p0 = g.find_path([g.entry], lambda n: n is g.exit, avoid=lambda n: n in enodes)
    ctx.check("R2", md, p0 is None, "effect-on-every-path", "every path through _modify applies the add/remove", "a path through WorldFile._modify applies nothing", node=md.node, witness=g.fmt_path(p0) if p0 else None)
    twice = any(any(m in enodes for m in g.reach([e]) if m is not e) or any(isinstance(p, (ast.For, ast.While)) for p in A.parents(g_ast(e))) for e in enodes)
    ctx.check("R2", md, not twice, "effect-at-most-once", "and applies it at most once", "WorldFile._modify applies the add/remove more than once for one request (inside a loop or twice on a path)", node=md.node)
    for c in eff:
        a = c.args[1]
        srcs = [v for t, v, _ in A.assignments(md.node, a.id)] if isinstance(a, ast.Name) else [a]
        built = [v for v in srcs if isinstance(v, ast.Call) and dotted(v.func) == "atom"]
        # the definition reaching this call must be a rebuilt atom whose text derives from .key
        reach_def = [v for v in built if v.lineno < c.lineno]
        ok = bool(reach_def) and all(f"{req}.key" in A.unparse(v) and not any(x in A.unparse(v) for x in (f"str({req})", f"{req}.cpvstr", f"{req}.version")) for v in reach_def)
        ctx.check("R2", md, ok, f"records-rebuilt-atom@{c.lineno - md.node.lineno}", f"`{A.unparse(c)}` records an atom rebuilt from the key (version, USE, repo and operators of the request are dropped)",
                  f"`{A.unparse(c)}` records `{A.unparse(a)}`, which is not an atom rebuilt from `{req}.key`", node=c)
    t = A.unparse(md.node)
    zero = (M.one(md.node, f"$s = {req}.slot\nif $s == '0':\n    $n = atom({req}.key)\nelse:\n    $n = atom({req}.key + ':' + $s)")
            or M.one(md.node, f"if {req}.slot == '0':\n    $n = atom({req}.key)\nelse:\n    $n = atom({req}.key + ':' + {req}.slot)"))
    ctx.check("R2", md, zero is not None, "slot-zero-is-bare-name", "slot '0' records the bare name, any other slot records name:slot")
    for name, f_ in (("add", "FileList.add"), ("remove", "FileList.remove")):
        m = P.func(MOD, f"WorldFile.{name}")
        ctx.check("R2", m, M.has(m.node, f"self._modify({m.params()[1]}, {f_})") and len(list(A.calls(m.node))) == 1, f"{name}-via-modify", f"WorldFile.{name} goes through _modify")
    ctx.floor("R2", 9)

    # ---- R3 pmerge: flush discipline -------------------------------------------------------------------------------
    uw = P.func("pkgcore.scripts.pmerge", "update_worldset")
    ws, pk = uw.params()[0], uw.params()[1]
    rets = A.returns(uw.node)
    n_ok = 0
    for r in rets:
        ps = list(A.parents(r))
        if isinstance(ps[0], ast.If) and A.unparse(ps[0].test) == f"{ws} is None":
            n_ok += 1
            continue
        if isinstance(ps[0], ast.ExceptHandler) and ps[0].type is not None and A.unparse(ps[0].type) == "KeyError" and any(isinstance(p, ast.If) and A.unparse(p.test) == "remove" for p in ps):
            n_ok += 1
            continue
        guard = next((A.unparse(p.test) for p in ps if isinstance(p, ast.If)), "?")
        ctx.fail("R3", uw, f"early-exit-skips-recording:{guard[:40]}", f"update_worldset returns early under `{guard}` without recording/flushing: membership of the RAW atom is not membership of the name / name:slot form that would be recorded (a world file containing '=cat/pkg-1.0' makes adding that atom a no-op)", node=r)
    ctx.check("R3", uw, n_ok == 2, f"sanctioned-exits:{n_ok}", "the only exits that skip the flush: no world set, nothing to remove")
    g = CFG.cfg_of(uw.node)
    addc = [c for c in A.calls(uw.node) if A.unparse(c.func) == f"{ws}.add"]
    remc = [c for c in A.calls(uw.node) if A.unparse(c.func) == f"{ws}.remove"]
    flc = [c for c in A.calls(uw.node) if A.unparse(c.func) == f"{ws}.flush"]
    ctx.require(addc and remc and flc, "update_worldset: add/remove/flush calls not found")
    fn_ = g.node_of(flc[0])
    p1 = g.find_path([g.node_of(addc[0])], lambda n: n is g.exit, avoid=lambda n: n is fn_)
    ctx.check("R3", uw, p1 is None, "flush-after-add", "every add is followed by a flush", "an add can leave update_worldset without flush()", node=addc[0], witness=g.fmt_path(p1) if p1 else None)
    p2 = g.find_path([g.node_of(remc[0])], lambda n: n is g.exit, avoid=lambda n: n is fn_, edge_ok=lambda a, b, lab: lab != "exc")
    ctx.check("R3", uw, p2 is None, "flush-after-remove", "every successful remove is followed by a flush", "a successful remove can leave update_worldset without flush()", node=remc[0], witness=g.fmt_path(p2) if p2 else None)
    ctx.check("R3", uw, A.unparse(addc[0].args[0]) == pk and A.unparse(remc[0].args[0]) == pk, "passes-request", "the request atom itself is handed to the world set (normalisation is WorldFile's job)")
    memb = [n for n in A.walk(uw.node) if isinstance(n, ast.Compare) and isinstance(n.ops[0], (ast.In, ast.NotIn)) and A.unparse(n.comparators[0]) == ws]
    ctx.check("R3", uw, not memb, "no-raw-membership-test", "no membership test of the raw atom against the world set")
    ctx.floor("R3", 5)

    # ---- R4 file format ------------------------------------------------------------------------------------------------------
    w = [c for c in A.calls(fl.node) if A.call_attr(c) == "write"]
    ctx.check("R4", fl, len(w) == 1 and M.pat("'\\n'.join((str($x) for $x in sorted(self._atoms)))").matches(w[0].args[0]) is not None, "one-atom-per-line-sorted", "flush writes the atoms sorted, one per line")
    ps = P.func(MOD, "FileList._parse")
    tp = A.unparse(ps.node)
    ctx.check("R4", ps, M.has(ps.node, "with contextlib.closing(readlines_ascii(self.path, True)) as $ls:\n    for $x in $ls:\n        if not $x or $x.startswith('#'):\n            continue\n        elif $x.startswith('@'):\n            ...\n        else:\n            $s.add(atom($x))"), "parse-one-atom-per-line", "the reader takes one atom per stripped line, skipping blanks and comments")
    for name, op in (("add", "self._atoms.add(atom_inst)"), ("remove", "self._atoms.remove(atom_inst)")):
        m = P.func(MOD, f"FileList.{name}")
        ctx.check("R4", m, M.has(m.node, op.replace("atom_inst", m.params()[1])) and len(list(A.calls(m.node))) == 1, f"set-{name}", f"FileList.{name} touches only the given atom (other entries intact)")
    ctx.floor("R4", 4)

    # ---- R5 flush always publishes the current set ----------------------------------------------------------------------
    G.always_reaches(ctx, "R5", MOD, "FileList.flush", lambda c: isinstance(c.func, ast.Attribute) and c.func.attr == "close" and isinstance(c.func.value, ast.Name),
                     "the publishing close() of the atomic write handle", "flush-always-writes")
    ctx.floor("R5", 2)


def g_ast(node):
    return node.ast


F = "src/pkgcore/pkgsets/filelist.py"
MUTANTS = [
    {"name": "close-in-finally", "file": F, "old": "            f.close()\n        except:\n            if f is not None:\n                f.discard()\n            raise\n", "new": "        finally:\n            if f is not None:\n                f.close()\n", "rule": "R1"},
    {"name": "iterate-slot", "file": F, "old": "            slot = atom_inst.slot\n            if slot == \"0\":\n                new_atom_inst = atom(atom_inst.key)\n            else:\n                new_atom_inst = atom(atom_inst.key + \":\" + slot)\n            func(self, new_atom_inst)\n", "new": "            for slot in atom_inst.slot:\n                if slot == \"0\":\n                    new_atom_inst = atom(atom_inst.key)\n                else:\n                    new_atom_inst = atom(atom_inst.key + \":\" + slot)\n                func(self, new_atom_inst)\n", "rule": "R2"},
    {"name": "revert-slot-first-char", "file": F, "old": "            slot = atom_inst.slot\n", "new": "            slot = atom_inst.slot[0]\n", "rule": "R2"},
    {"name": "records-raw-atom", "file": F, "old": "            atom_inst = atom(atom_inst.key)\n            func(self, atom_inst)", "new": "            func(self, atom_inst)", "rule": "R2"},
    {"name": "raw-membership-skip", "file": "src/pkgcore/scripts/pmerge.py", "old": "    else:\n        world_set.add(pkg)\n    world_set.flush()", "new": "    else:\n        if pkg in world_set:\n            return\n        world_set.add(pkg)\n    world_set.flush()", "rule": "R3"},
    {"name": "flush-only-on-remove", "file": "src/pkgcore/scripts/pmerge.py", "old": "            return\n    else:\n        world_set.add(pkg)\n    world_set.flush()", "new": "            return\n        world_set.flush()\n    else:\n        world_set.add(pkg)", "rule": "R3"},
    {"name": "unsorted-output", "file": F, "old": "str(x) for x in sorted(self._atoms)", "new": "str(x) for x in self._atoms", "rule": "R4"},
]
TWINS = [
    {"name": "inline-slot", "file": F, "old": "            slot = atom_inst.slot\n            if slot == \"0\":\n                new_atom_inst = atom(atom_inst.key)\n            else:\n                new_atom_inst = atom(atom_inst.key + \":\" + slot)", "new": "            if atom_inst.slot == \"0\":\n                new_atom_inst = atom(atom_inst.key)\n            else:\n                new_atom_inst = atom(atom_inst.key + \":\" + atom_inst.slot)"},
]
