"""C31 — the environment handed to the build daemon arrives exactly (quoting + size-prefixed framing)."""
import ast

from ..core import generic as G
from ..core import astutil as A
from ..core import bashlex as B
from ..core import match as M
from ..core.model import dotted

META = {
    "technique": "protocol-frame agreement between the Python writers and the bash reader (every size-prefixed payload is announced in encoded BYTES through the one sized-write helper; the bash side reads with `LC_ALL=C read -r -N`), literal-table evaluation of the escape sets, order rule on the escape chains (backslash first), container-kind fact for the non-exported marker (a set of names, not a string), route agreement (inline/file carry the same text; both acknowledged by env_received)",
    "level": "Decides the structural clauses: (R1) all senders of size-prefixed payloads use write_sized, which measures the encoded payload; __ebd_read_size reads exactly N bytes raw (-r, -N, C locale) into the named variable and dies on failure; every bash consumer of a sized payload uses it. (R2) scalar quoting: alnum bare, else single quotes when the value has none, else $'..' with backslash escaped BEFORE the quote; array elements are double-quoted with exactly \\ \" $ ` escaped, backslash first. (R3) the non-exported marker is split into a set of names and tested by membership; marked names are emitted as bare assignments on their own line, others after `export`. (R4) inline and file routes send the same generated text and wait for env_received; the daemon evals/sources it and answers env_received / env_receiving_failed. Does NOT decide what a concrete bash build does with concrete bytes.",
    "note": "",
}
META["technique"] += "; " + 'effect analysis on environment rendering'
META["level"] += " Added after the second round of independent changes: " + "(R5) _generate_env_str does not edit the caller's mapping."
META["technique"] += "; " + 'generic pack G on the anchored files (optional-flag shift, closures outliving a loop iteration, single-pass iterables consumed twice, %-templates built from data, in-place writes to class-level / memoised objects, generators mutating what they yielded, memo keys that are projections)'
MOD = "pkgcore.ebuild.processor"
LIB = "data/lib/pkgcore/ebd/ebuild-daemon-lib.bash"
DAEMON = "data/lib/pkgcore/ebd/ebuild-daemon.bash"


def _is_noop(st):
    """an expression statement without effect (a bare constant / docstring-like line), or `pass`"""
    return isinstance(st, ast.Pass) or (isinstance(st, ast.Expr) and isinstance(st.value, ast.Constant))


def _value_names(fn):
    """Names that hold an environment VALUE (or one element of a sequence value) inside _generate_env_str, found by
    role: the second target of the loop over ``<env param>.items()``, plus comprehension targets drawn from such a name
    (the element, not the index, of an ``enumerate``).  Returns (loop, key-name, value-name, all value names)."""
    ps = fn.params()
    envp = ps[1] if len(ps) > 1 else "env_dict"
    loop = key = val = None
    vals = set()
    for n in A.walk(fn.node):
        if isinstance(n, ast.For) and M.has(n.iter, f"{envp}.items()") and isinstance(n.target, ast.Tuple) and len(n.target.elts) == 2 and all(isinstance(x, ast.Name) for x in n.target.elts):
            if loop is None:
                loop, key, val = n, n.target.elts[0].id, n.target.elts[1].id
            vals.add(n.target.elts[1].id)
    grew = True
    while grew:
        grew = False
        for comp in [n for n in A.walk(fn.node) if isinstance(n, (ast.GeneratorExp, ast.ListComp, ast.SetComp, ast.DictComp))]:
            for gen in comp.generators:
                if not (A.names_in(gen.iter) & vals):
                    continue
                tgt = gen.target
                if isinstance(gen.iter, ast.Call) and dotted(gen.iter.func) == "enumerate" and isinstance(tgt, ast.Tuple) and len(tgt.elts) == 2:
                    tgt = tgt.elts[1]
                new = set(A.assigned_names(tgt)) - vals
                if new:
                    vals |= new
                    grew = True
    return loop, key, val, vals


def run(ctx):
    P = ctx.program
    ctx.explanation = META["level"]
    EP = P.cls(MOD, "EbuildProcessor")
    # ---- R1 framing --------------------------------------------------------------------------------------
    ws = EP.methods.get("write_sized")
    sized_cmds = {}
    for m in EP.methods.values():
        for c in A.calls(m.node):
            if A.unparse(c.func) == "self.write" and c.args and isinstance(c.args[0], ast.JoinedStr):
                js = c.args[0]
                parts = js.values
                # f"<cmd> {N}\n{payload}"
                idx = [i for i, p in enumerate(parts) if isinstance(p, ast.Constant) and "\n" in p.value]
                if not idx or idx[0] == 0 or not isinstance(parts[idx[0] - 1], ast.FormattedValue) or idx[0] + 1 >= len(parts):
                    continue
                size_e = parts[idx[0] - 1].value
                payload = parts[idx[0] + 1].value if isinstance(parts[idx[0] + 1], ast.FormattedValue) else None
                if payload is None:
                    continue
                sized_cmds[(m.name, c.lineno)] = (m, c, size_e, payload)
    ctx.check("R1", EP, len(sized_cmds) >= 1, f"frame-writers:{len(sized_cmds)}", f"{len(sized_cmds)} writer(s) of `<command> <size>\\n<payload>` frames found")
    for (mn, _), (m, c, size_e, payload) in sorted(sized_cmds.items()):
        st = A.unparse(size_e)
        defs = [v for t, v, _ in A.assignments(m.node, st)] if isinstance(size_e, ast.Name) else [size_e]
        pt = A.unparse(payload)
        ok = bool(defs) and all(isinstance(v, ast.Call) and dotted(v.func) == "len" and isinstance(v.args[0], ast.Call) and A.call_attr(v.args[0]) == "encode" and A.unparse(v.args[0].func.value) == pt for v in defs)
        ctx.check("R1", m, ok, f"size-in-bytes:{mn}:{A.unparse(defs[0])[:40] if defs else st}", f"{mn}: the announced size is len({pt}.encode(...)) — bytes, what `read -N` counts in the daemon's C locale",
                  f"EbuildProcessor.{mn} announces `{A.unparse(defs[0]) if defs else st}` for the payload `{pt}`: a character count, while the daemon reads bytes — any non-ASCII value leaves part of the payload in the pipe and desynchronizes the command channel", node=c)
        if ok:
            enc = defs[0].args[0]
            ctx.check("R1", m, "self.ebd_write.encoding" in A.unparse(enc), f"size-encoding-matches-stream:{mn}", "measured with the stream's own encoding")
        ctx.check("R1", m, any(k.arg == "append_newline" and A.is_const(k.value, False) for k in c.keywords), f"no-extra-newline:{mn}", "nothing follows the payload (no newline appended)")
    if ws is not None:
        users = [(m, c) for m in EP.methods.values() for c in A.calls(m.node) if A.unparse(c.func) == "self.write_sized"]
        ctx.check("R1", EP, len(users) >= 3, f"sized-helper-users:{len(users)}", f"{len(users)} senders go through write_sized (env, metadata path, depend-like phases)")
        ctx.check("R1", EP, set(sized_cmds) <= {k for k in sized_cmds if k[0] == "write_sized"}, "only-helper-builds-frames", "no other method builds a size-prefixed frame by hand")
    bl = P.bashfile(LIB)
    fns = B.functions(bl.src)
    ctx.require("__ebd_read_size" in fns, "__ebd_read_size not found in ebuild-daemon-lib.bash")
    rs = fns["__ebd_read_size"]
    cmds = B.commands(rs.body, rs.body_line)
    reads = [c for c in cmds if c.name == "read"]
    ctx.require(len(reads) == 1, "__ebd_read_size: read command not found")
    rd = reads[0]
    o = rd.opts()
    ctx.check("R1", LIB + ":__ebd_read_size", "N" in o and "n" not in o, f"read-exact-count:{''.join(sorted(o))}", "`read -N`: exactly the announced count, newlines included",
              "__ebd_read_size uses `read -n`, which stops at the first newline: a payload containing a newline is cut there and its rest is read as the next command (channel desynchronized)", node=rd.line)
    ctx.check("R1", LIB + ":__ebd_read_size", "r" in o, "read-raw", "`-r`: backslashes are not interpreted", "__ebd_read_size reads without -r: backslashes in the payload are eaten", node=rd.line)
    ctx.check("R1", LIB + ":__ebd_read_size", "LC_ALL=C" in rd.assigns, f"read-counts-bytes:{','.join(rd.assigns)}", "`LC_ALL=C`: the count is in bytes whatever locale the received env set",
              "__ebd_read_size reads in the shell's current locale: after an env with a UTF-8 LC_ALL the count means characters, not the bytes the sender announced", node=rd.line)
    w = rd.words
    ctx.check("R1", LIB + ":__ebd_read_size", "-u" in w and w[w.index("-u") + 1] == "${PKGCORE_EBD_READ_FD}" and w[w.index("-N") + 1] == "$1" and w[-1] == "$2" if "-N" in w else False, "read-args", "reads $1 units from the command fd into the variable named by $2")
    ctx.check("R1", LIB + ":__ebd_read_size", any(c.name == "die" for c in cmds), "read-failure-dies", "a short read kills the daemon instead of continuing desynchronized")
    dm = P.bashfile(DAEMON)
    consumers = [c for c in B.commands(dm.src) if c.name == "__ebd_read_size"]
    ctx.check("R1", DAEMON, len(consumers) >= 3, f"sized-consumers:{len(consumers)}", f"{len(consumers)} daemon-side consumers read their payload through __ebd_read_size")
    ctx.floor("R1", 12)

    # ---- R2 quoting ------------------------------------------------------------------------------------------------
    gfn = EP.methods["_generate_env_str"]
    value_names = _value_names(gfn)[3]
    n_interp = 0
    for js in [n for n in A.walk(gfn.node) if isinstance(n, ast.JoinedStr)]:
        for fv in js.values:
            if not isinstance(fv, ast.FormattedValue):
                continue
            if not (A.names_in(fv.value) & value_names):
                continue
            if isinstance(getattr(js, "_parent", None), ast.Call) and A.unparse(js._parent.func) in ("KeyError", "TypeError"):
                continue
            inner_js = [x for x in A.walk(fv.value) if isinstance(x, ast.JoinedStr)]
            if inner_js:
                continue  # judged at the inner f-string
            n_interp += 1
            quoted = any(A.unparse(c.func) in ("self._quote_env_value", "self._escape_double_quoted") for c in A.calls(fv.value))
            ctx.check("R2", gfn, quoted, f"value-quoted:{A.unparse(fv.value)[:40]}", f"`{{{A.unparse(fv.value)[:40]}}}` goes through a quoting helper before it becomes shell text",
                      f"_generate_env_str interpolates `{{{A.unparse(fv.value)[:60]}}}` into shell text without a complete quoting helper: quotes, backslashes, $ or backticks in the value are interpreted by bash", node=fv)
    ctx.check("R2", gfn, n_interp >= 2, f"value-interpolations:{n_interp}", f"{n_interp} interpolations of environment values into shell text inspected")
    if "_quote_env_value" not in EP.methods or "_escape_double_quoted" not in EP.methods:
        ctx.fail("R2", EP, "quoting-helpers-missing", "EbuildProcessor has no _quote_env_value/_escape_double_quoted: values are not quoted by a complete, checkable routine", node=gfn.node)
        ctx.floor("R2", 2)
        return _r3r4(ctx, P, EP, dm)
    q = EP.methods["_quote_env_value"]
    v = q.params()[0]
    # the two early forms are top-level guards of the function (the parameter is spelled from the signature)
    top = q.node.body
    alnum = [n for n in top if M.pat(f"if {v}.isalnum():\n    return {v}").matches(n)]
    ctx.check("R2", q, len(alnum) == 1 and not alnum[0].orelse, "bare-alnum", "alphanumeric values are sent bare")
    sq = [n for n in top if M.pat(f"if \"'\" not in {v}:\n    return $$form").matches(n)]
    sq_ok = False
    if len(sq) == 1 and not sq[0].orelse:
        form = A.returns(sq[0])[-1].value
        sq_ok = isinstance(form, ast.JoinedStr) and M.pat(f"""f"'{{{v}}}'" """.strip()).matches(form) is not None
    ctx.check("R2", q, sq_ok and bool(alnum) and alnum[0].lineno < sq[0].lineno, "single-quote-when-no-quote", "values without a single quote go inside single quotes (nothing is special there)",
              "the single-quote branch of _quote_env_value no longer requires that the value has no single quote", node=q.node)
    chain = []
    for t, val, _ in A.assignments(q.node, v):
        e = val
        seq = []
        while isinstance(e, ast.Call) and A.call_attr(e) == "replace":
            seq.append((A.try_literal(e.args[0]), A.try_literal(e.args[1])))
            e = e.func.value
        chain = list(reversed(seq))
    ctx.check("R2", q, chain == [("\\", "\\\\"), ("'", "\\'")], f"ansi-c-escapes:{chain}", "for $'..' the backslash is escaped first, then the single quote",
              f"_quote_env_value's $'..' escape chain is {chain}: backslash must be doubled BEFORE the quote is escaped (else the escape's own backslash is doubled, or backslashes in the value become escapes)", node=q.node)
    rets = A.returns(q.node)
    ctx.check("R2", q, isinstance(rets[-1].value, ast.JoinedStr) and A.fstring_prefix(rets[-1].value) == "$'", "ansi-c-form", "the last form is $'..'")
    e = EP.methods["_escape_double_quoted"]
    loops = [n for n in e.node.body if isinstance(n, ast.For)]
    ctx.require(len(loops) == 1, "_escape_double_quoted: escape loop not found")
    it = A.try_literal(loops[0].iter, default=None)
    elems = list(it) if isinstance(it, (tuple, list, str)) else None
    ctx.check("R2", e, elems is not None and set(elems) == {"\\", '"', "$", "`"}, f"dq-escape-set:{elems}", "inside double quotes exactly \\ \" $ ` are escaped",
              f"_escape_double_quoted escapes {elems}: bash treats \\ \" $ ` specially inside double quotes; a missing one is interpreted by bash (lost backslash, expansion, swallowed closing quote)", node=loops[0])
    ctx.check("R2", e, bool(elems) and elems[0] == "\\", f"dq-backslash-first:{elems[:1] if elems else None}", "backslash is escaped first (else the added escapes are doubled)",
              "_escape_double_quoted does not escape backslash first: the backslashes it adds for other characters get doubled", node=loops[0])
    ev = e.params()[0]
    form_ok = isinstance(loops[0].target, ast.Name) and M.pat(f"for $c in $_:\n    {ev} = {ev}.replace($c, '\\\\' + $c)").matches(loops[0]) is not None
    erets = A.returns(e.node)
    ret_ok = len(erets) == 1 and M.pat(f"return {ev}").matches(erets[0]) is not None and erets[0].lineno > loops[0].lineno and erets[0] in e.node.body
    ctx.check("R2", e, form_ok and ret_ok and sum(not _is_noop(x) for x in loops[0].body) == 1, "dq-escape-form", "each special gets one backslash in front; the escaped text is what the helper returns")
    ctx.floor("R2", 9)
    _r3r4(ctx, P, EP, dm)


def _r3r4(ctx, P, EP, dm):
    # ---- R3 marker / emission --------------------------------------------------------------------------------------------
    g = EP.methods["_generate_env_str"]
    ne = [(t, val) for t, val, _ in A.assignments(g.node) if isinstance(t, ast.Name) and "PKGCORE_NONEXPORTED_VARS" in A.unparse(val)]
    ctx.require(len(ne) == 1, "_generate_env_str: non-exported marker handling not found")
    nm, val = ne[0][0].id, ne[0][1]
    is_set = isinstance(val, ast.Call) and dotted(val.func) in ("frozenset", "set") and val.args and isinstance(val.args[0], ast.Call) and A.call_attr(val.args[0]) == "split"
    ctx.check("R3", g, is_set, f"marker-is-name-set:{A.unparse(val)[:50]}", "the marker is split into a set of names",
              f"`{nm} = {A.unparse(val)}` keeps the marker as a string: `key in {nm}` is then a SUBSTRING test, so D, T, S, A, PV... match inside DEPEND, DISTDIR, SLOT, ARCH, PVR and are silently not exported", node=val)
    envp = g.params()[1] if len(g.params()) > 1 else "env_dict"
    ctx.check("R3", g, M.has(val, f"{envp}.pop('PKGCORE_NONEXPORTED_VARS', ...)"), "marker-not-sent", "the marker itself is removed from what is sent")
    # locals are bound by ROLE: key/value of the loop over the (sorted) items, the marker set found above
    loop, key, vname, _ = _value_names(g)
    L = loop if loop is not None else g.node
    E = {"nm": nm}
    if loop is not None:
        E.update(key=key, val=vname)
    route = M.one(L, "($plain if $key in $nm else $exported).append($assign)", E)
    ctx.check("R3", g, route is not None and route["plain"] != route["exported"] and loop is not None and A.stmt_of(route.node) in loop.body, "membership-routes", "marked names go to the bare-assignment list, all others to the export list")
    E2 = dict(route.env) if route else dict(E)
    after = loop.end_lineno if loop is not None else 0
    p1 = M.one(g.node, "$lines.append(' '.join($plain))", E2)
    p2 = M.one(g.node, "$lines.append(f\"export {' '.join($exported)}\")", p1.env if p1 else E2)
    fin = A.returns(g.node)[-1] if A.returns(g.node) else None
    p3 = M.pat("return '\\n'.join($lines)").matches(fin, p2.env if p2 else E2) if fin is not None else None
    ctx.check("R3", g, bool(p1 and p2 and p3) and after < p1.node.lineno < p2.node.lineno < fin.lineno and M.has(g.node, "$lines = []", p3.env), "emission-shape", "bare assignments on their own line, then one `export ...` line")
    ctx.check("R3", g, M.has(L, "$assign = f'{$key}={self._quote_env_value($val)}'", E2), "scalar-quoted", "scalars are quoted by _quote_env_value")
    ctx.check("R3", g, M.has(L, "$elements = ' '.join((f'[{$i}]=\"{self._escape_double_quoted($value)}\"' for $i, $value in enumerate($val)))\n$assign = f'{$key}=({$elements})'", E2), "array-form", "sequences become NAME=([0]=\"..\" [1]=\"..\") with escaped elements")
    ctx.check("R3", g, loop is not None and M.pat(f"for $key, $val in sorted({envp}.items()):\n    if $key in self._readonly_vars:\n        continue").matches(loop) is not None, "readonly-skipped-sorted", "readonly shell variables are skipped; output order is sorted")
    bad_name = [m for m in M.find(L, "if $$c:\n    raise KeyError($_)") if key in A.names_in(m.env["$c"])]
    ctx.check("R3", g, loop is not None and bool(bad_name) and M.has(L, "if not isinstance($val, $_):\n    raise TypeError($_)", E), "bad-input-rejected", "invalid names and non-text values are rejected, not mangled")
    ctx.floor("R3", 8)

    # ---- R4 routes ----------------------------------------------------------------------------------------------------------
    se = EP.methods["send_env"]
    sp = se.params()
    envp4 = sp[1] if len(sp) > 1 else "env_dict"
    gen = M.one(se.node.body, f"$data = self._generate_env_str({envp4})")
    ctx.check("R4", se, gen is not None and gen.node in se.node.body and len(A.assignments(se.node, gen["data"])) == 1, "one-text", "both routes send the text of _generate_env_str")
    E4 = dict(gen.env) if gen else {}
    after = gen.node.lineno if gen else 0
    fr = M.one(se.node, "with open($path, ...) as $file:\n    $file.write($data)\nself.write(f'start_receiving_env file {$path}')", E4)
    ctx.check("R4", se, fr is not None and fr.node.lineno > after, "file-route", "file route: text written to the transfer file, daemon told to source it")
    inline = [c for c in A.calls(se.node) if M.pat("self.write_sized('start_receiving_env bytes', $data)").matches(c, E4)]
    if not inline and gen:
        # a hand-built frame (judged by R1): still the same text after the `start_receiving_env bytes` head
        inline = [c for c in A.calls(se.node) if A.unparse(c.func) == "self.write" and c.args and isinstance(c.args[0], ast.JoinedStr) and (A.fstring_prefix(c.args[0]) or "").startswith("start_receiving_env bytes")
                  and any(isinstance(p, ast.FormattedValue) and isinstance(p.value, ast.Name) and p.value.id == gen["data"] for p in c.args[0].values)]
    ctx.check("R4", se, bool(inline) and all(c.lineno > after for c in inline), "inline-route", "inline route: `start_receiving_env bytes <size>` + payload")
    srets = A.returns(se.node)
    ctx.check("R4", se, bool(srets) and srets[-1] in se.node.body and M.pat("return self.expect('env_received', async_req=async_req, flush=True)").matches(srets[-1]) is not None
              and all(c.lineno < srets[-1].lineno for c in inline) and (fr is None or fr.node.lineno < srets[-1].lineno), "ack-awaited", "the transfer is acknowledged by env_received")
    cases = [c for c in B.case_blocks(dm.src) if any("start_receiving_env*" in a.patterns for a in c.arms)]
    ctx.require(cases, "ebuild-daemon.bash: start_receiving_env handler not found")
    arm = [a for a in cases[0].arms if "start_receiving_env*" in a.patterns][0]
    inner = B.case_blocks(arm.body, arm.line)
    ctx.require(inner, "ebuild-daemon.bash: start_receiving_env route dispatch not found")
    routes = {p: a for a in inner[0].arms for p in a.patterns}
    fb = routes.get("file*")
    bb = routes.get("bytes*")
    ctx.check("R4", DAEMON, fb is not None and any(c.name == "source" and c.words[1:] == ['"${line}"'] for c in B.commands(fb.body)), "daemon-file-sources", "file route: the daemon sources the named file")
    ok = False
    if bb is not None:
        cs = B.commands(bb.body)
        names = [c.name for c in cs]
        ok = "__ebd_read_size" in names and "eval" in names and names.index("__ebd_read_size") < names.index("eval") and [c for c in cs if c.name == "eval"][0].words[1:] == ['"${line}"']
    ctx.check("R4", DAEMON, ok, "daemon-bytes-evals", "inline route: sized read, then eval of exactly what was read")
    ac = B.commands(arm.body)
    wl = [c.words[1].strip('"') for c in ac if c.name == "__ebd_write_line" and len(c.words) > 1]
    ctx.check("R4", DAEMON, wl == ["env_receiving_failed", "env_received"], f"daemon-answers:{wl}", "the daemon answers env_receiving_failed (and exits) or env_received")
    ctx.floor("R4", 7)

    # ---- R5 rendering an environment does not edit the caller's mapping (the same mapping is sent for every phase) -------
    G.pure(ctx, "R5", [("pkgcore.ebuild.processor", "EbuildProcessor._generate_env_str", (), "markers popped from the caller's dict are gone for the next phase")])
    ctx.floor("R5", 1)


FP = "src/pkgcore/ebuild/processor.py"
MUTANTS = [
    {"name": "revert-char-count", "file": FP, "old": "        size = len(data.encode(self.ebd_write.encoding, self.ebd_write.errors))", "new": "        size = len(data)", "rule": "R1"},
    {"name": "hand-built-frame", "file": FP, "old": "        self.write_sized(\"set_metadata_path\", data)", "new": "        self.write(f\"set_metadata_path {len(data)}\\n{data}\", append_newline=False)", "rule": "R1"},
    {"name": "read-n", "file": LIB, "old": "	LC_ALL=C read -u ${PKGCORE_EBD_READ_FD} -r -N $1 $2", "new": "	LC_ALL=C read -u ${PKGCORE_EBD_READ_FD} -r -n $1 $2", "rule": "R1"},
    {"name": "read-not-raw", "file": LIB, "old": "	LC_ALL=C read -u ${PKGCORE_EBD_READ_FD} -r -N $1 $2", "new": "	LC_ALL=C read -u ${PKGCORE_EBD_READ_FD} -N $1 $2", "rule": "R1"},
    {"name": "read-locale-dependent", "file": LIB, "old": "	LC_ALL=C read -u ${PKGCORE_EBD_READ_FD} -r -N $1 $2", "new": "	read -u ${PKGCORE_EBD_READ_FD} -r -N $1 $2", "rule": "R1"},
    {"name": "revert-quote-order", "file": FP, "old": "        val = val.replace(\"\\\\\", \"\\\\\\\\\").replace(\"'\", \"\\\\'\")", "new": "        val = val.replace(\"'\", \"\\\\'\").replace(\"\\\\\", \"\\\\\\\\\")", "rule": "R2"},
    {"name": "dq-set-string", "file": FP, "old": "        for char in (\"\\\\\", '\"', \"$\", \"`\"):", "new": "        for char in '\\\"$`':", "rule": "R2"},
    {"name": "dq-backslash-last", "file": FP, "old": "        for char in (\"\\\\\", '\"', \"$\", \"`\"):", "new": "        for char in ('\"', \"$\", \"`\", \"\\\\\"):", "rule": "R2"},
    {"name": "marker-substring", "file": FP, "old": "        nonexported = frozenset(env_dict.pop(\"PKGCORE_NONEXPORTED_VARS\", \"\").split())", "new": "        nonexported = env_dict.pop(\"PKGCORE_NONEXPORTED_VARS\", \"\")", "rule": "R3"},
    {"name": "daemon-eval-before-read", "file": DAEMON, "old": "						__ebd_read_size \"${line}\" line\n						__IFS_push $'\\0'\n						eval \"${line}\"", "new": "						__IFS_push $'\\0'\n						eval \"${line}\"", "rule": "R4"},
]
TWINS = [
    {"name": "set-instead-of-frozenset", "file": FP, "old": "        nonexported = frozenset(env_dict.pop(\"PKGCORE_NONEXPORTED_VARS\", \"\").split())", "new": "        nonexported = set(env_dict.pop(\"PKGCORE_NONEXPORTED_VARS\", \"\").split())"},
    {"name": "dq-list-literal", "file": FP, "old": "        for char in (\"\\\\\", '\"', \"$\", \"`\"):", "new": "        for char in [\"\\\\\", \"$\", '\"', \"`\"]:"},
]
