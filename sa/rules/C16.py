"""C16 — resolver choice policy: highest version for upgrades, reuse for minimal installs (structural clauses)."""
import ast
import itertools

from ..core import astutil as A
from ..core import match as M
from ..core.dtable import Walker
from ..core.model import dotted

META = {
    "technique": "wiring table of the resolver factory functions and selection strategies (callee + argument order), decision tables of the sort comparators by path enumeration over (cmp sign, livefs(x), livefs(y)), determinism lint (no set-typed container in the repository-ordering pipeline, with a positive control), keyword-forwarding rule for the repository wrappers, guard rule for the global 'insoluble' memo",
    "level": "Decides: (R1) upgrade_resolver wires source repos before installed ones, highest-first package sorting and the prefer-highest strategy; min_install_resolver wires installed repos first and the reuse strategy, whose installed-package group precedes the source group; (R2) the comparators order by version first and on equal versions put the installed (livefs) package first, given the reverse= flag of their sort call; (R3) nothing in the repository-ordering pipeline goes through a set (whose iteration order is not reproducible); (R4) repository wrappers forward the caller's keyword arguments (the sorter) to the wrapped repository; (R5) an atom is only memoised as globally insoluble by a lookup that was not limited to installed packages. Does NOT decide which version a concrete resolution picks.",
    "note": "snakeoil iter_sort / sort_cmp are trusted base: stable, comparator sign convention of cmp(); reverse=True puts larger first",
}
META["technique"] += "; " + 'alias-capture rule (state handed out by reference in __init__ is never rebound); sibling agreement on the build-time dependency classes'
META["level"] += " Added after the second round of independent changes: " + '(R6) merge_plan.state, whose vdb_filter is captured by the installed-package filter in __init__, is never rebound; (R7) check_for_cycles treats exactly the classes _rec_add_atom skips for built packages as build-time.'
META["technique"] += "; " + 'generic pack G on the anchored files (optional-flag shift, closures outliving a loop iteration, single-pass iterables consumed twice, %-templates built from data, in-place writes to class-level / memoised objects, generators mutating what they yielded, memo keys that are projections)'


def call_shape(c):
    return (dotted(c.func) or "?", [A.unparse(a) for a in c.args])


def comparator_rows(fn):
    """rows {(c, lx, ly): result} of the nested comparator f(x, y) by path enumeration"""
    px, py = [a.arg for a in fn.args.args][:2]
    rows = {}
    for c, lx, ly in itertools.product((-1, 0, 1), (False, True), (False, True)):
        def oracle(e, env, w, c=c, lx=lx, ly=ly):
            t = A.unparse(e)
            if t == f"cmp({px}, {py})":
                return c
            if t == f"{px}.repo.livefs":
                return lx
            if t == f"{py}.repo.livefs":
                return ly
            return NotImplemented
        w = Walker(oracle, (), 0)
        rows[(c, lx, ly)] = w.run(fn, {px: ("param", px), py: ("param", py)})
    return rows


def run(ctx):
    P = ctx.program
    ctx.explanation = META["level"]
    rmod = "pkgcore.ebuild.resolver"
    pmod = "pkgcore.resolver.plan"

    # ---- R1 wiring -----------------------------------------------------------
    up = P.func(rmod, "upgrade_resolver")
    mi = P.func(rmod, "min_install_resolver")
    for f, order, strat in ((up, "dbs + vdbs", "prefer_highest_version_strategy"), (mi, "vdbs + dbs", "prefer_reuse_strategy")):
        rets = [r for r in A.returns(f.node) if isinstance(r.value, ast.Call) and dotted(r.value.func) == "resolver_cls"]
        ctx.require(len(rets) == 1, f"{f.qual}: `return resolver_cls(...)` not found")
        c = rets[0].value
        args = [A.unparse(a) for a in c.args]
        ctx.require(len(args) >= 3, f"{f.qual}: resolver_cls called with fewer than 3 positional arguments")
        ctx.check("R1", f, args[0] == order, "repo-order", f"{f.name} passes the repositories as `{order}`", f"{f.name} passes repositories as `{args[0]}`, expected `{order}`", node=c)
        ctx.check("R1", f, args[1] == "plan.pkg_sort_highest", "pkg-sort", f"{f.name} sorts each repository's matches highest first", f"{f.name} passes per-repo strategy `{args[1]}`", node=c)
        sv = args[2]
        if isinstance(c.args[2], ast.Name):
            defs = [A.unparse(v) for t, v, _ in A.assignments(f.node, c.args[2].id)]
            sv = defs[-1] if defs else sv
        ctx.check("R1", f, sv == f"plan.merge_plan.{strat}", "strategy", f"{f.name} uses {strat}", f"{f.name} uses global strategy `{sv}`, expected plan.merge_plan.{strat}", node=c)
    mod = P.module(pmod)
    for name, want in (("pkg_sort_highest", "partial(sorted, reverse=True)"), ("pkg_sort_lowest", "sorted")):
        v = mod.assigns.get(name)
        ctx.check("R1", mod, v is not None and A.unparse(v) == want, f"def:{name}", f"{name} is `{want}`", node=v)
    table = {
        "merge_plan.prefer_highest_version_strategy": ("misc.multiplex_sorting_repo", ["highest_iter_sort", "cls.prefer_livefs_dbs(dbs)"]),
        "merge_plan.prefer_livefs_dbs": ("chain", ["cls.just_livefs_dbs(dbs)", "cls.just_nonlivefs_dbs(dbs)"]),
        "merge_plan.prefer_nonlivefs_dbs": ("chain", ["cls.just_nonlivefs_dbs(dbs)", "cls.just_livefs_dbs(dbs)"]),
        "merge_plan.prefer_reuse_strategy": ("multiplex.tree", ["misc.multiplex_sorting_repo(highest_iter_sort, cls.just_livefs_dbs(dbs))",
                                                               "misc.multiplex_sorting_repo(highest_iter_sort, cls.just_nonlivefs_dbs(dbs))"]),
    }
    for q, (callee, args) in table.items():
        f = P.func(pmod, q)
        rets = A.returns(f.node)
        ok = len(rets) == 1 and isinstance(rets[0].value, ast.Call) and call_shape(rets[0].value) == (callee, args)
        ctx.check("R1", f, ok, "shape", f"{q} returns {callee}({', '.join(args)})", f"{q} returns `{A.unparse(rets[0].value) if rets else None}`; expected {callee}({', '.join(args)})", node=f.node)
    # the comprehension variable is a local: bind it by role ($r), the parameter `dbs` and the attribute stay literal
    for q, want in (("merge_plan.just_livefs_dbs", "($r for $r in dbs if $r.livefs)"), ("merge_plan.just_nonlivefs_dbs", "($r for $r in dbs if not $r.livefs)")):
        f = P.func(pmod, q)
        rets = A.returns(f.node)
        ctx.check("R1", f, len(rets) == 1 and rets[0].value is not None and M.pat(want).matches(rets[0].value) is not None, "filter", f"{q} keeps the given order and filters on livefs", f"{q} returns `{A.unparse(rets[0].value) if rets else None}`")
    msr = P.func("pkgcore.repository.misc", "multiplex_sorting_repo.itermatch")
    calls = [c for c in A.calls(msr.node) if dotted(c.func) == "iter_sort"]
    ctx.check("R1", msr, len(calls) == 1 and A.unparse(calls[0].args[0]) == "self.__sorter__" and any(isinstance(a, ast.Starred) for a in calls[0].args),
              "merge-sorted", "the per-repository iterators are merged with iter_sort(<sorter>, *iters) in repository order")
    ctx.floor("R1", 14)

    # ---- R2 comparators ------------------------------------------------------------
    for outer, reverse, spec_name in (("highest_iter_sort", True, "highest"), ("lowest_iter_sort", False, "lowest")):
        of = P.func(pmod, outer)
        inner = [n for n in of.node.body if isinstance(n, ast.FunctionDef)]
        ctx.require(len(inner) == 1, f"{outer}: nested comparator not found")
        rows = comparator_rows(inner[0])
        sc = [c for c in A.calls(of.node) if dotted(c.func) == "sort_cmp"]
        ctx.require(len(sc) == 1, f"{outer}: sort_cmp call not found")
        rev = any(k.arg == "reverse" and A.try_literal(k.value) is True for k in sc[0].keywords)
        ctx.check("R2", of, rev == reverse, "reverse-flag", f"{outer} sorts with reverse={reverse}", node=sc[0])
        ctx.check("R2", of, A.unparse(sc[0].args[1]) == inner[0].name, "uses-comparator", f"{outer} sorts with its comparator", node=sc[0])
        bad = []
        for (c, lx, ly), res in rows.items():
            if c != 0:
                want = c
            else:
                # sign that puts the livefs package first given the sort direction
                first = 1 if rev else -1
                want = 0 if lx == ly else (first if lx else -first)
            if res != want:
                bad.append(((c, lx, ly), res, want))
        ctx.ob("R2", of, f"{outer}: comparator table over 12 rows (cmp sign x livefs(x) x livefs(y)): version decides, ties put livefs first")
        if bad:
            (k, res, want) = bad[0]
            ctx.fail("R2", of, f"comparator:{k}", f"{outer} comparator: cmp={k[0]}, livefs(x)={k[1]}, livefs(y)={k[2]} returns {res!r}, expected {want} "
                     f"({'equal versions must put the installed package first' if k[0] == 0 else 'the version order must decide'}; {len(bad)} of 12 rows differ)", node=inner[0])
    ctx.floor("R2", 6)

    # ---- R3 determinism lint ----------------------------------------------------------
    pipeline = ["merge_plan.just_livefs_dbs", "merge_plan.just_nonlivefs_dbs", "merge_plan.prefer_livefs_dbs", "merge_plan.prefer_nonlivefs_dbs",
                "merge_plan.prefer_highest_version_strategy", "merge_plan.prefer_lowest_version_strategy", "merge_plan.prefer_downgrade_version_strategy",
                "merge_plan.prefer_reuse_strategy", "highest_iter_sort", "lowest_iter_sort", "downgrade_iter_sort"]
    funcs = [P.func(pmod, q) for q in pipeline] + [P.func("pkgcore.repository.misc", "multiplex_sorting_repo.__init__"), msr, up, mi]

    def set_uses(node):
        out = []
        for n in ast.walk(node):
            if isinstance(n, ast.Call) and dotted(n.func) in ("set", "frozenset"):
                out.append(n)
            elif isinstance(n, (ast.Set, ast.SetComp)):
                out.append(n)
        return out

    control = ast.parse("def f(dbs):\n    dbs = set(dbs)\n    return chain(dbs)\n")
    ctx.require(len(set_uses(control)) == 1, "determinism lint: positive control did not match")
    for f in funcs:
        hits = set_uses(f.node)
        ctx.check("R3", f, not hits, "set-in-ordering", f"{f.qual}: no set-typed container on the repository/package ordering path",
                  f"{f.qual} routes the ordered repositories/packages through `{A.unparse(hits[0])[:50]}`: iteration order of a set of repo objects depends on their ids, so identical inputs resolve differently between runs" if hits else "", node=hits[0] if hits else None)
    ctx.floor("R3", 14)

    # ---- R4 wrappers forward keyword arguments ------------------------------------------
    mm = P.module("pkgcore.repository.misc")
    n4 = 0
    for K in mm.classes.values():
        for mname in ("itermatch", "match"):
            m = K.methods.get(mname)
            if m is None:
                continue
            deleg = [c for c in A.calls(m.node) if A.call_attr(c) in ("itermatch", "match") and isinstance(c.func, ast.Attribute) and A.unparse(c.func.value) != "super()"
                     and A.unparse(c.func.value) in ("self.raw_repo", "self.__db__", "self.repo", "self._repo")]
            if not deleg:
                continue
            kw = m.node.args.kwarg.arg if m.node.args.kwarg else None
            # callers pass sorter= (caching_repo.match does); a wrapper must accept and forward it
            accepts = kw is not None or any(a.arg == "sorter" for a in m.node.args.args + m.node.args.kwonlyargs)
            if K.name in ("caching_repo", "multiplex_sorting_repo"):
                continue  # end points: they choose the sorter themselves
            n4 += 1
            ctx.check("R4", m, accepts, f"accepts-kwds:{K.name}.{mname}", f"{K.name}.{mname} accepts keyword arguments (sorter=...)", node=m.node)
            for c in deleg:
                fw = kw is not None and any(k.arg is None and A.unparse(k.value) == kw for k in c.keywords)
                ctx.check("R4", m, fw, f"forwards-kwds:{K.name}.{mname}", f"{K.name}.{mname} forwards **{kw} to the wrapped repository",
                          f"{K.name}.{mname} calls `{A.unparse(c)[:60]}` without forwarding its keyword arguments: the version sorter the resolver passes is dropped and the wrapped repository yields in native order", node=c)
    ctx.require(n4 >= 2, "repository wrappers with delegating itermatch/match not found")

    # ---- R5 insoluble memo ------------------------------------------------------------------
    from ..core import boolx
    vi = P.func(pmod, "merge_plan._viable")
    adds = [c for c in A.calls(vi.node) if A.unparse(c.func) == "self.insoluble.add"]
    ctx.require(adds, "merge_plan._viable: self.insoluble.add(...) not found")
    lim = [p for p in vi.params() if "limit" in p and "vdb" in p]
    ctx.require(lim, "merge_plan._viable: limit_to_vdb parameter not found")
    for c in adds:
        ok = False
        for par in A.parents(c):
            if isinstance(par, ast.If) and lim[0] in A.names_in(par.test):
                ok = boolx.forced_outcome(par.test, {lim[0]: True}) is False
        ctx.check("R5", vi, ok, "insoluble-only-unlimited", "an atom is memoised as globally insoluble only when the lookup was not limited to installed packages",
                  "merge_plan._viable memoises an atom as globally insoluble even when the lookup was limited to the installed-package repositories: a later unrestricted request for the same atom is refused", node=c)

    # ---- R6 planner state captured by reference in __init__ keeps its identity -------------------------------------
    from ..core import capture
    mp = P.cls(pmod, "merge_plan")
    caps = capture.captured(mp)
    ctx.check("R6", mp, "state" in caps, "state-captured", "merge_plan.__init__ hands self.state.vdb_filter to the filter on the installed-package repositories",
              "merge_plan.__init__ no longer captures self.state.vdb_filter (the installed-package view is not tied to the plan state)")
    for attr, sites in sorted(caps.items()):
        rb = capture.rebinds(mp, attr)
        ctx.check("R6", mp, not rb, f"captured-attr-rebound:{attr}",
                  f"merge_plan.{attr} (captured in __init__: {sites[0][1]}) is never rebound",
                  f"merge_plan.{rb[0][0].name if rb else ''} rebinds self.{attr} although __init__ handed out a reference into the old object ({sites[0][1]}): the filter on the "
                  f"installed-package repositories keeps consulting the abandoned state, so a second resolution on the same resolver sees different installed packages than the first",
                  node=rb[0][1] if rb else None)
    ctx.floor("R6", 2)

    # ---- R7 "build-time dependency" means the same classes at both sites that special-case it --------------------------
    ra7 = P.func(pmod, "merge_plan._rec_add_atom")
    build_classes = set()
    for c in A.calls(ra7.node):
        if A.unparse(c.func) == "self.process_dependencies_and_blocks" and len(c.args) >= 3 and isinstance(A.try_literal(c.args[2]), str):
            for p_ in A.parents(c):
                if isinstance(p_, ast.If) and any(isinstance(x, ast.Attribute) and x.attr == "built" for x in ast.walk(p_.test)) and A.contains_node(p_, c) and any(A.contains_node(b_, c) for b_ in p_.body):
                    build_classes.add(A.try_literal(c.args[2]))
    cc = P.func(pmod, "merge_plan.check_for_cycles")
    mode_sets = []
    for n in A.body_walk(cc.node):
        if isinstance(n, ast.If) and isinstance(n.test, ast.Compare) and len(n.test.ops) == 1 and isinstance(n.test.ops[0], ast.In) \
                and isinstance(n.test.left, ast.Attribute) and n.test.left.attr == "mode":
            v = A.try_literal(n.test.comparators[0])
            if isinstance(v, (tuple, list, set, frozenset)):
                mode_sets.append((n, set(v)))
    ctx.require(build_classes and mode_sets, f"build-time classes not found (guarded={sorted(build_classes)}, cycle tests={len(mode_sets)})")
    for n, ms in mode_sets:
        ctx.check("R7", cc, ms == build_classes, "build-time-classes-agree:" + ",".join(sorted(ms ^ build_classes)),
                  f"check_for_cycles breaks cycles through the installed copy for exactly the classes _rec_add_atom treats as build-time ({sorted(build_classes)})",
                  f"check_for_cycles treats {sorted(ms)} as build-time cycles, but _rec_add_atom only skips {sorted(build_classes)} for built packages: a package first reached through "
                  f"{sorted(ms - build_classes) or sorted(build_classes - ms)} inside an ordinary run-time cycle is forced to come from the installed set, and when it is not installed the "
                  f"branch fails and a lower version of the target is chosen", node=n)
    ctx.floor("R7", 1)


MUTANTS = [
    {"name": "reuse-strategy-order", "file": "src/pkgcore/resolver/plan.py", "old": "            misc.multiplex_sorting_repo(highest_iter_sort, cls.just_livefs_dbs(dbs)),\n            misc.multiplex_sorting_repo(highest_iter_sort, cls.just_nonlivefs_dbs(dbs)),", "new": "            misc.multiplex_sorting_repo(highest_iter_sort, cls.just_nonlivefs_dbs(dbs)),\n            misc.multiplex_sorting_repo(highest_iter_sort, cls.just_livefs_dbs(dbs)),", "rule": "R1"},
    {"name": "highest-tie-prefers-source", "file": "src/pkgcore/resolver/plan.py", "old": "        elif x.repo.livefs:\n            if y.repo.livefs:\n                return 0\n            return 1\n        elif y.repo.livefs:\n            return -1\n        return 0\n\n    sort_cmp(l, f, key=pkg_grabber, reverse=True)\n    return l\n\n\ndef downgrade", "new": "        elif x.repo.livefs:\n            if y.repo.livefs:\n                return 0\n            return -1\n        elif y.repo.livefs:\n            return 1\n        return 0\n\n    sort_cmp(l, f, key=pkg_grabber, reverse=True)\n    return l\n\n\ndef downgrade", "rule": "R2"},
    {"name": "upgrade-uses-lowest", "file": "src/pkgcore/ebuild/resolver.py", "old": "    f = plan.merge_plan.prefer_highest_version_strategy\n    # hack.", "new": "    f = plan.merge_plan.prefer_lowest_version_strategy\n    # hack.", "rule": "R1"},
    {"name": "set-partition", "file": "src/pkgcore/resolver/plan.py", "old": "        return chain(cls.just_livefs_dbs(dbs), cls.just_nonlivefs_dbs(dbs))", "new": "        dbs = set(dbs)\n        return chain(cls.just_livefs_dbs(dbs), cls.just_nonlivefs_dbs(dbs))", "rule": "R3"},
    {"name": "nodeps-drops-kwds", "file": "src/pkgcore/repository/misc.py", "old": "            for x in self.raw_repo.itermatch(*a, **kwds)", "new": "            for x in self.raw_repo.itermatch(*a)", "rule": "R4"},
    {"name": "insoluble-unguarded", "file": "src/pkgcore/resolver/plan.py", "old": "        if not limit_to_vdb and not matches:\n            self.insoluble.add(atom)", "new": "        if not matches:\n            self.insoluble.add(atom)", "rule": "R5"},
    {"name": "min-install-source-first", "file": "src/pkgcore/ebuild/resolver.py", "old": "        vdbs + dbs, plan.pkg_sort_highest, plan.merge_plan.prefer_reuse_strategy, **kwds", "new": "        dbs + vdbs, plan.pkg_sort_highest, plan.merge_plan.prefer_reuse_strategy, **kwds", "rule": "R1"},
]
TWINS = []
