"""C41 — parallel map processes every item exactly once (structural necessary conditions)."""
import ast

from ..core import generic as G
from ..core import astutil as A
from ..core import match as M
from ..core import cfg as CFG
from ..core.model import dotted

META = {
    "technique": "identity-sentinel rule (the end-of-feed marker is a unique object no caller can supply, compared by identity, the same object on the producer and consumer side, one per worker), join-dominates-return rule on map_async's CFG (the result container is handed back only after every started thread was joined; a queue-drain wait is not a thread-completion wait), result-kind rule (streaming is decided per RESULT object, not per functor), single-producer/single-handoff shape (each item is put once; workers only take items from the queue)",
    "level": "Decides the structural necessary conditions: no input value can be mistaken for the stop marker; every worker receives exactly one stop marker, also when feeding fails; map_async cannot return before every worker has returned and stored its result; a result that is a generator is drained whatever kind of callable produced it; each input item is enqueued exactly once and reaches exactly one worker through Queue.get. Does NOT decide freedom from races under all schedules (no shared mutable state other than the Queue and the deque is touched, which is what the rules pin down).",
    "note": "",
}
META["technique"] += "; " + 'timed / non-blocking get: only the stop marker ends a worker; per-item exception isolation'
META["level"] += " Added after the second round of independent changes: " + "(R1) an empty queue sends the worker back to waiting; (R6) regen_iter's exception handling sits inside the package loop."
META["technique"] += "; " + 'generic pack G on the anchored files (optional-flag shift, closures outliving a loop iteration, single-pass iterables consumed twice, %-templates built from data, in-place writes to class-level / memoised objects, generators mutating what they yielded, memo keys that are projections)'
MOD = "pkgcore.util.thread_pool"
UNIQUE = {"klass.sentinel", "object()", "_sentinel", "sentinel"}


def run(ctx):
    P = ctx.program
    ctx.explanation = META["level"]
    ma = P.func(MOD, "map_async")
    iq = P.func(MOD, "map_async.<locals>.iter_queue")
    wk = P.func(MOD, "map_async.<locals>.worker")
    # ---- R1 sentinel ------------------------------------------------------------------------------
    ps = iq.params()
    got = M.one(iq.node, f"$item = {ps[1]}.get()")
    if got is None:
        # a get() with a timeout / non-blocking get: the only way a worker may stop is the stop marker, so an empty queue
        # must send it back to waiting (continue / retry), never out of the loop
        got = M.one(iq.node, f"$item = {ps[1]}.get(...)")
        ctx.require(got is not None, "iter_queue: item = <queue>.get(...) not found")
        leaves = []
        for t in [n for n in A.body_walk(iq.node) if isinstance(n, ast.Try) and A.contains_node(n, got.node)]:
            for h in t.handlers:
                for x in ast.walk(h):
                    if isinstance(x, (ast.Break, ast.Return)) or (isinstance(x, ast.Raise)):
                        leaves.append(x)
        unhandled = not any(isinstance(n, ast.Try) and A.contains_node(n, got.node) for n in A.body_walk(iq.node))
        ctx.check("R1", iq, not leaves and not unhandled, "worker-stops-only-on-marker",
                  "an empty queue sends the worker back to waiting; only the stop marker ends it",
                  f"iter_queue takes items with `{A.unparse(got.node.value)}` and leaves its loop when the queue is momentarily empty "
                  f"({'`' + A.unparse(leaves[0]) + '` in the Empty handler' if leaves else 'queue.Empty is not handled'}): a worker that outpaces the feeder quits for good, "
                  f"items queued afterwards are never processed and map_async still returns normally", node=got.node)
    itemv = got["item"]
    cmpn = [n for n in A.walk(iq.node) if isinstance(n, ast.Compare) and len(n.ops) == 1 and isinstance(n.ops[0], (ast.Is, ast.Eq, ast.IsNot, ast.NotEq))
            and itemv in (A.unparse(n.left), A.unparse(n.comparators[0]))]
    ctx.require(len(cmpn) == 1, "iter_queue: stop-marker test not found")
    c = cmpn[0]
    rhs = c.comparators[0] if A.unparse(c.left) == itemv else c.left  # == / is are symmetric; the canonical form may have swapped the operands
    by_identity = isinstance(c.ops[0], ast.Is)
    ctx.check("R1", iq, by_identity, "marker-compared-by-identity", "the stop marker is recognised by identity (`is`)", f"iter_queue recognises the stop marker with `{A.unparse(c)}`: an input item that merely equals it stops a worker", node=c)
    marker_param = isinstance(rhs, ast.Name) and rhs.id in ps
    literal = A.unparse(rhs)
    calls = [x for x in A.calls(ma.node) if isinstance(x.func, ast.Name) and x.func.id == "iter_queue"]
    ctx.require(len(calls) == 1, "map_async: iter_queue(...) construction not found")
    if marker_param:
        idx = ps.index(rhs.id)
        consumer = A.unparse(calls[0].args[idx]) if idx < len(calls[0].args) else None
    else:
        consumer = literal
    unique = consumer in UNIQUE or (isinstance(consumer, str) and consumer in {t.id for t, v, _ in A.assignments(ma.node) if isinstance(t, ast.Name) and A.unparse(v) == "object()"})
    ctx.check("R1", ma, unique, f"marker-unique:{consumer}", f"the stop marker `{consumer}` is a unique object no input item can be",
              f"the stop marker is `{consumer}`: an input item with that value is indistinguishable from end-of-feed — it is never handed to the worker, it terminates one worker thread early, and once as many have been fed as there are threads every later item stays unprocessed", node=c)
    fin = [n for n in A.body_walk(ma.node) if isinstance(n, ast.Try) and n.finalbody]
    ctx.require(fin, "map_async: try/finally around the feed not found")
    fb = fin[-1] if len(fin) == 1 else [f for f in fin if any("put(" in A.unparse(s) for s in f.finalbody)][0]
    puts = [x for s in fb.finalbody for x in A.calls(s) if A.call_attr(x) == "put"]
    ctx.check("R1", ma, len(puts) == 1 and A.unparse(puts[0].args[0]) == consumer, f"same-marker-both-sides:{A.unparse(puts[0].args[0]) if puts else None}", "the producer puts the very object the consumers test for",
              f"the producer puts `{A.unparse(puts[0].args[0]) if puts else '?'}` but the consumers test for `{consumer}`: workers never stop (or stop on data)", node=fb)
    ploop = next((p for p in A.parents(puts[0]) if isinstance(p, ast.For)), None) if puts else None
    tloop = [n for n in ma.node.body if isinstance(n, ast.For) and any(dotted(x.func) == "threading.Thread" for x in A.calls(n))]
    ctx.check("R1", ma, ploop is not None and len(tloop) == 1 and A.unparse(ploop.iter) == A.unparse(tloop[0].iter) and M.pat("range($n)").matches(ploop.iter) is not None, "one-marker-per-worker", "exactly one stop marker per worker thread, put in the `finally` (also when feeding failed)")
    ctx.floor("R1", 4)

    # ---- R2 join dominates return ------------------------------------------------------------------------
    g = CFG.cfg_of(ma.node)
    dom = g.dominators()
    resm = M.one(ma.node, "$res = deque()")
    ctx.require(resm is not None, "map_async: results container (deque()) not found")
    resv = resm["res"]
    qm = M.one(ma.node, "$q = queue.Queue()")
    ctx.require(qm is not None, "map_async: shared queue not found")
    qv = qm["q"]
    # callers that run the map for its effect and drop the result (the threaded merge triggers) rely on the call itself
    # doing the work: map_async must not be a generator function, whose body only runs when the result is iterated
    from ..core import lints as _lints
    droppers = [f_ for f_ in P.all_funcs() for _n, t_, _m in _lints.discarded_generator_call(P, f_) if t_.endswith(":" + ma.node.name)]
    lazy = any(isinstance(n, (ast.Yield, ast.YieldFrom)) for n in A.body_walk(ma.node))
    ctx.check("R2", ma, not lazy, "map-runs-at-call", "map_async does its work when called (it is not a generator function)",
              "map_async contains `yield`: calling it only builds a generator, no thread is started and no item is handed out until the result is iterated"
              + (f" — {', '.join(sorted({d.qual for d in droppers}))} call(s) it as a bare statement and never do" if droppers else ""))
    rets = [r for r in A.returns(ma.node) if r.value is not None and A.unparse(r.value) == resv]
    if lazy and not rets:
        return
    ctx.require(len(rets) == 1, "map_async: return of the results container not found")
    rc = P.func(MOD, "reclaim_threads")
    joins = [x for x in A.calls(rc.node) if A.call_attr(x) == "join"]
    loop = [n for n in rc.node.body if isinstance(n, ast.For)]
    rc_ok = len(joins) == 1 and len(loop) == 1 and A.unparse(loop[0].iter) == rc.params()[0] and A.unparse(joins[0].func.value) == A.unparse(loop[0].target)
    ctx.check("R2", rc, rc_ok, "reclaim-joins-each", "reclaim_threads joins every thread it is given")
    tl = M.one(ma.node, "$ths.append(threading.Thread(...))")
    ctx.require(tl is not None, "map_async: list of worker threads not found")
    thv = tl["ths"]
    waits = [x for x in A.calls(ma.node) if dotted(x.func) == "reclaim_threads" and A.unparse(x.args[0]) == thv]
    direct = [x for x in A.calls(ma.node) if A.call_attr(x) == "join" and A.unparse(x.func.value) != qv and any(isinstance(p, ast.For) and A.unparse(p.iter) == thv and A.unparse(p.target) == A.unparse(x.func.value) for p in A.parents(x))]
    rn = g.node_of(rets[0])
    dominated = any(g.node_of(w) in dom.get(rn, ()) for w in waits + direct)
    ctx.check("R2", ma, dominated and bool(waits or direct), f"threads-joined-before-return:{len(waits)}+{len(direct)}", "every path to `return results` has joined the worker threads",
              "map_async can return `results` without having joined its worker threads (Queue.join only proves the feed was drained, not that the workers returned and stored their result): results of workers still running are missing", node=rets[0])
    th = [x for x in A.calls(ma.node) if dotted(x.func) == "threading.Thread"]
    ctx.check("R2", ma, len(th) == 1 and not any(k.arg == "daemon" and A.is_const(k.value, True) for k in th[0].keywords), "non-daemon-workers", "workers are ordinary (non-daemon) threads")
    started = [x for x in A.calls(ma.node) if A.call_attr(x) == "start"]
    sl = next((p for p in A.parents(started[0]) if isinstance(p, ast.For)), None) if started else None
    ctx.check("R2", ma, sl is not None and A.unparse(sl.iter) == thv, "all-started", "every created thread is started")
    ctx.floor("R2", 4)

    # ---- R3 streaming decided per result --------------------------------------------------------------------------
    res = [(t, v) for t, v, _ in A.assignments(wk.node) if isinstance(t, ast.Name) and isinstance(v, ast.Call) and A.unparse(v.func) == "functor"]
    ctx.require(len(res) == 1, "worker: result = functor(...) not found")
    rname = res[0][0].id
    ext = [x for x in A.calls(wk.node) if A.unparse(x.func) == f"{resv}.extend"]
    ctx.require(len(ext) == 1, "worker: results.extend not found")
    guard = next((p for p in A.parents(ext[0]) if isinstance(p, ast.If)), None)
    ok = guard is not None and isinstance(guard.test, ast.Call) and dotted(guard.test.func) == "isinstance" and A.unparse(guard.test.args[0]) == rname and "GeneratorType" in A.unparse(guard.test.args[1])
    ctx.check("R3", wk, ok, f"streaming-by-result-type:{A.unparse(guard.test)[:40] if guard is not None else ''}", "whether to drain is decided from the result object itself (isinstance(result, GeneratorType))",
              f"worker decides to drain under `{A.unparse(guard.test) if guard is not None else '?'}`: a callable that RETURNS a generator without being a generator function (decorator wrapper, callable object, lambda) gets its unstarted generator appended instead of drained — the worker body never runs on any item", node=ext[0])
    ctx.check("R3", wk, A.unparse(ext[0].args[0]) == rname and any(A.unparse(x) == f"{resv}.append({rname})" for x in A.calls(wk.node)), "drain-or-append", "a generator result is drained into results, any other non-None result appended")
    ctx.check("R3", wk, f"if {rname} is not None:" in A.unparse(wk.node), "none-skipped", "None results are skipped (every non-empty result is kept)")
    ctx.floor("R3", 3)

    # ---- R4 single producer, single hand-off ------------------------------------------------------------------------
    feeds = [x for x in A.calls(ma.node) if A.call_attr(x) == "put" and x not in puts]
    fl = next((p for p in A.parents(feeds[0]) if isinstance(p, ast.For)), None) if feeds else None
    ctx.check("R4", ma, len(feeds) == 1 and fl is not None and A.unparse(fl.iter) == "iterable" and A.unparse(feeds[0].args[0]) == A.unparse(fl.target), "each-item-put-once", "each input item is enqueued exactly once")
    gets = [x for x in A.calls(iq.node) if A.call_attr(x) == "get"]
    ys = [y for y in A.walk(iq.node) if isinstance(y, ast.Yield)]
    ctx.check("R4", iq, len(gets) == 1 and len(ys) == 1 and A.unparse(ys[0].value) == itemv, "handoff-through-queue", "a worker obtains items only through Queue.get (each item reaches one worker) and yields each once")
    ctx.check("R4", ma, qm is not None and resm is not None, "thread-safe-containers", "the shared containers are a Queue and a deque (atomic append/extend)")
    t = A.unparse(ma.node)
    tav = next((A.unparse(k.value) for k in th[0].keywords if k.arg == "args"), None) if th else None
    feed_ok = False
    if tav:
        for t_, v, _ in A.assignments(ma.node, tav):
            first = v
            while isinstance(first, ast.BinOp) and isinstance(first.op, ast.Add):
                first = first.left
            feed_ok = isinstance(first, ast.Tuple) and len(first.elts) == 1 and isinstance(first.elts[0], ast.Call) and A.unparse(first.elts[0].func) == "iter_queue" and qv in [A.unparse(a) for a in first.elts[0].args] and "args" in A.names_in(v)
    ctx.check("R4", ma, feed_ok, "feed-is-first-arg", "every worker is handed its own feed over the one shared queue")
    hs = [h for n in A.body_walk(ma.node) if isinstance(n, ast.Try) for h in n.handlers]
    km = M.one(ma.node, "$kill = threading.Event()")
    ctx.check("R4", ma, km is not None and any(M.has(h.body, "$kill.set()\nraise", km.env) for h in hs), "feed-failure-stops-workers", "a failing feed sets the kill flag and re-raises (after the finally woke and joined the workers)")
    # the abort flag belongs to the feeder: a worker that sets it (because its own item failed) makes every healthy worker
    # leave its feed after the current item, and whatever is still queued is never handed out
    if km is not None:
        setters = [c for c in A.calls(ma.node, into_nested=True) if A.unparse(c.func) == f"{km['kill']}.set"]
        nested = [d for d in ast.walk(ma.node) if isinstance(d, (ast.FunctionDef, ast.Lambda)) and d is not ma.node]
        for c in setters:
            inside = next((d for d in nested if A.contains_node(d, c)), None)
            ctx.check("R4", ma, inside is None, f"abort-flag-set-by-worker:{getattr(inside, 'name', 'lambda')}", "the abort flag is set by the feeding code only",
                      f"`{A.unparse(c)}` inside `{getattr(inside, 'name', 'lambda')}` (code run by the worker threads): one failing item stops every other worker after its current item, "
                      f"and the items still queued are silently never processed", node=c)
    ctx.floor("R4", 6)

    # ---- R6 one failing package does not retire the worker thread ----------------------------------------------------
    G.per_item_isolation(ctx, "R6", "pkgcore.operations.regen", "regen_iter", lambda c: isinstance(c.func, ast.Name) and c.func.id == P.func("pkgcore.operations.regen", "regen_iter").params()[1], "package")
    ctx.floor("R6", 1)

    # ---- R7 the per-package function is called once per package -----------------------------------------------------------
    ri = P.func("pkgcore.operations.regen", "regen_iter")
    fparam = ri.params()[1]
    calls7 = [c for c in A.calls(ri.node) if isinstance(c.func, ast.Name) and c.func.id == fparam]
    ctx.check("R7", ri, len(calls7) == 1, f"one-call-per-item:{len(calls7)}", "regen_iter calls the regen function at exactly one place per package",
              f"regen_iter calls `{fparam}(pkg)` at {len(calls7)} places: a package that takes the second call site (a retry after a failure) is processed twice", node=calls7[-1] if calls7 else None)
    ma7 = P.func(MOD, "map_async")
    bounded = [c for c in A.calls(ma7.node) if isinstance(c.func, ast.Name) and c.func.id in ("min", "max")]
    ctx.floor("R7", 1)


F = "src/pkgcore/util/thread_pool.py"
MUTANTS = [
    {"name": "none-as-marker", "file": F, "old": "        targs = (iter_queue(kill, q, klass.sentinel),) + args + per_thread_args()", "new": "        targs = (iter_queue(kill, q, None),) + args + per_thread_args()", "rule": "R1"},
    {"name": "marker-by-equality", "file": F, "old": "            if item is empty_signal:", "new": "            if item == empty_signal:", "rule": "R1"},
    {"name": "one-marker-only", "file": F, "old": "        for x in range(parallelism):\n            q.put(klass.sentinel)", "new": "        for x in range(1):\n            q.put(klass.sentinel)", "rule": "R1"},
    {"name": "queue-join-instead", "file": F, "old": "        reclaim_threads(threads)\n\n    return results", "new": "        q.join()\n\n    return results", "rule": "R2"},
    {"name": "join-only-on-success", "file": F, "old": "        reclaim_threads(threads)\n\n    return results", "new": "        if not kill.is_set():\n            reclaim_threads(threads)\n\n    return results", "rule": "R2"},
    {"name": "streaming-by-functor", "file": F, "old": "            if isinstance(result, GeneratorType):", "new": "            if isgeneratorfunction(functor):", "rule": "R3"},
    {"name": "item-put-twice", "file": F, "old": "            for data in iterable:\n                q.put(data)", "new": "            for data in iterable:\n                q.put(data)\n                q.put(data)", "rule": "R4"},
]
TWINS = [
    {"name": "local-object-marker", "file": F, "old": "    kill.clear()\n", "new": "    kill.clear()\n    _sentinel = object()\n"},
]

MUTANTS += [
    {"name": "worker-sets-abort-flag-on-failure", "file": F, "old": "        result = functor(*args)\n", "new": "        try:\n            result = functor(*args)\n        except Exception:\n            kill.set()\n            raise\n", "rule": "R4"},
]
