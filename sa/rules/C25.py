"""C25 — binary package tarballs round-trip their contents (writer/reader agreement)."""
import ast
import os

from ..core import astutil as A
from ..core import cfg as CFG
from ..core import match as M
from ..core.model import dotted

META = {
    "technique": "writer/reader table agreement (entry kinds and TarInfo attributes written by fsobj_to_tarinfo vs read by archive_to_fsobj), CFG path rule on the writer (no path reaches the add of a regular member with a non-zero size and no data), name-normalisation sibling agreement incl. the strip-takes-a-character-set idiom, inode-cache typestate on the reader, fixpoint-shape rule for symlink relocation, handler-type agreement with the stdlib tarfile source for the empty archive",
    "level": "Decides the structural clauses: every kind the writer emits has a reader branch building the matching entry class; the TarInfo attributes read are exactly those written; every regular member is added either as a zero-size hardlink or with its data; member names and hardlink targets are normalised the same way and never through a multi-character strip; hardlinked members share the target's inode and are themselves registered (chains); nested symlinked directories are relocated to a fixpoint; the empty-archive handler catches the exception type tarfile really raises. Does NOT decide byte-level round trips on concrete archives.",
    "note": "",
}
META["technique"] += "; " + 'generic pack G on the anchored files (optional-flag shift, closures outliving a loop iteration, single-pass iterables consumed twice, %-templates built from data, in-place writes to class-level / memoised objects, generators mutating what they yielded, memo keys that are projections)'
MOD = "pkgcore.fs.tar"
KIND = {"is_reg": ("isreg", "fsFile"), "is_dir": ("isdir", "fsDir"), "is_sym": ("issym", "fsSymlink"), "is_fifo": ("isfifo", "fsFifo"), "is_dev": ("isdev", "fsDev")}


def chain(if_node):
    out = []
    n = if_node
    while True:
        out.append((n.test, n.body))
        if len(n.orelse) == 1 and isinstance(n.orelse[0], ast.If):
            n = n.orelse[0]
        else:
            out.append((None, n.orelse))
            return out


def run(ctx):
    P = ctx.program
    ctx.explanation = META["level"]
    w = P.func(MOD, "fsobj_to_tarinfo")
    r = P.func(MOD, "archive_to_fsobj")
    add = P.func(MOD, "add_contents_to_tarfile")
    obj = w.params()[0]
    # the writer's TarInfo local, whatever it is called: the name bound to tarfile.TarInfo()
    wt = M.one(w.node, "$t = tarfile.TarInfo()")
    ctx.require(wt is not None, "fsobj_to_tarinfo: the TarInfo under construction not found")
    tv = wt["t"]
    # ---- R1 kinds ----------------------------------------------------------------------------------
    wif = [n for n in w.node.body if isinstance(n, ast.If) and A.unparse(n.test).startswith(f"{obj}.is_")]
    ctx.require(wif, "fsobj_to_tarinfo: kind dispatch not found")
    wkinds = {}
    for test, body in chain(wif[0]):
        if test is None:
            continue
        k = A.unparse(test).split(".")[-1]
        types = [A.unparse(v) for st in body for t_, v, _ in A.assignments(ast.Module(body=[st], type_ignores=[])) if A.unparse(t_) == f"{tv}.type"]
        wkinds[k] = types
    loop = [n for n in A.body_walk(r.node) if isinstance(n, ast.For)]
    ctx.require(loop, "archive_to_fsobj: member loop not found")
    mem = A.unparse(loop[0].target)
    rif = [n for n in loop[0].body if isinstance(n, ast.If) and f"{mem}.isdir()" in A.unparse(n.test)]
    ctx.require(rif, "archive_to_fsobj: kind dispatch not found")
    rkinds = {}
    rchain = chain(rif[0])
    for test, body in rchain:
        if test is None:
            ctx.check("R1", r, any(isinstance(s, ast.Raise) for s in body), "unknown-kind-raises", "an unknown member type raises instead of being dropped")
            continue
        preds = [A.call_attr(c) for c in A.calls(test) if A.unparse(c.func.value) == mem]
        built = [dotted(c.func) for st in body for c in A.calls(st) if (dotted(c.func) or "").startswith("fs") and (dotted(c.func) or "")[2:3].isupper()]
        for p in preds:
            rkinds.setdefault(p, set()).update(built)
    for k, (pred, cls) in KIND.items():
        ctx.check("R1", w, bool(wkinds.get(k)), f"writer-kind:{k}", f"writer emits {k} entries as {wkinds.get(k)}", f"writer has no branch for {k} entries")
        ctx.check("R1", r, cls in rkinds.get(pred, ()), f"reader-kind:{pred}->{cls}", f"reader turns {pred}() members into {cls}",
                  f"archive_to_fsobj has no branch building {cls} for members the writer emitted from {k} entries", node=rif[0])
    ctx.check("R1", r, "fsFile" in rkinds.get("islnk", ()), "reader-kind:islnk->fsFile", "hardlink members are read back as files")
    ctx.check("R1", w, "tarfile.CHRTYPE" in wkinds.get("is_dev", ()) and "tarfile.BLKTYPE" in wkinds.get("is_dev", ()), "dev-char-or-block", "devices keep their char/block distinction")
    ctx.floor("R1", 12)

    # ---- R2 attributes ---------------------------------------------------------------------------------
    wattrs = {t_.attr for t_, v, _ in A.assignments(w.node) if isinstance(t_, ast.Attribute) and A.unparse(t_.value) == tv}
    rattrs = {n.attr for n in A.walk(r.node) if isinstance(n, ast.Attribute) and A.unparse(n.value) == mem and not (isinstance(getattr(n, "_parent", None), ast.Call) and n._parent.func is n)} - {"type"}
    for a in sorted((wattrs - {"type", "size"}) | rattrs):
        ctx.check("R2", r, a in wattrs and a in rattrs, f"attr:{a}", f"TarInfo.{a} is written and read back",
                  f"TarInfo.{a} is {'written but never read back' if a in wattrs else 'read by archive_to_fsobj but never written by fsobj_to_tarinfo (tarfile spells device numbers devmajor/devminor)'}", node=r.node)
    srcs = {}
    for t_, v, _ in A.assignments(w.node):
        if isinstance(t_, ast.Attribute) and A.unparse(t_.value) == tv and isinstance(v, ast.Attribute) and A.unparse(v.value) == obj:
            srcs[t_.attr] = v.attr
    want = {"linkname": "target", "devmajor": "major", "devminor": "minor", "mode": "mode", "uid": "uid", "gid": "gid", "mtime": "mtime", "name": "location"}
    for a, s in want.items():
        ctx.check("R2", w, srcs.get(a) == s, f"writer-source:{a}<-{srcs.get(a)}", f"t.{a} comes from the entry's {s}")
    # reader: which member attr lands in which entry attribute.  The entry-attribute dict and the entry location are
    # found by their ROLE in the entry constructors `fsXxx(<location>, ..., **<attrs>)`, not by their names.
    ctors = [c for c in A.calls(loop[0]) if dotted(c.func) in {cls for _, cls in KIND.values()}]
    dnames = {k.value.id for c in ctors for k in c.keywords if k.arg is None and isinstance(k.value, ast.Name)}
    locnames = {c.args[0].id for c in ctors if c.args and isinstance(c.args[0], ast.Name)}
    dkeys = {}
    for t_, v, _ in A.assignments(r.node):
        if isinstance(t_, ast.Name) and t_.id in dnames and isinstance(v, ast.Dict):
            for k, v_ in zip(v.keys, v.values):
                if isinstance(k, ast.Constant):
                    dkeys[k.value] = A.unparse(v_)
    for t_, v, _ in A.assignments(r.node):
        if isinstance(t_, ast.Subscript) and isinstance(t_.value, ast.Name) and t_.value.id in dnames and isinstance(t_.slice, ast.Constant):
            dkeys.setdefault(t_.slice.value, A.unparse(v))
    for k, v in {"uid": f"{mem}.uid", "gid": f"{mem}.gid", "mtime": f"{mem}.mtime", "mode": f"{mem}.mode", "major": f"int({mem}.devmajor)", "minor": f"int({mem}.devminor)"}.items():
        ctx.check("R2", r, dkeys.get(k) == v, f"reader-source:{k}<-{dkeys.get(k)}", f"entry {k} comes from {v}")
    sym = [c for c in A.calls(r.node) if dotted(c.func) == "fsSymlink"]
    ctx.check("R2", r, len(sym) == 1 and len(sym[0].args) > 1 and A.unparse(sym[0].args[1]) == f"{mem}.linkname", "symlink-target-verbatim", "the symlink target is read back verbatim")
    ctx.floor("R2", 20)

    # ---- R3 name normalisation ----------------------------------------------------------------------------
    # location: the first argument of every entry constructor; target: the key the hardlink branch looks up in the
    # inode cache (`<inode> = <cache>.get(<target>)`)
    lookups = M.find(r.node, "$inode = $inodes.get($target)")
    loc = [v for t_, v, _ in A.assignments(r.node) if isinstance(t_, ast.Name) and t_.id in locnames]
    tgt = [v for t_, v, _ in A.assignments(r.node, lookups[0]["target"])] if len(lookups) == 1 else []
    ctx.require(len(locnames) == 1 and len(loc) == 1 and len(tgt) == 1, "archive_to_fsobj: location/target normalisation not found")
    locv = next(iter(locnames))
    RE = dict(lookups[0].env)          # inode, inodes, target as spelled today
    sepm = M.one(r.node, "$psep = os.path.sep")
    sep = "$psep" if sepm else "os.path.sep"
    NE = {"mem": mem, **({"psep": sepm["psep"]} if sepm else {})}

    def norm_form(e, attr):
        return any(M.pat(p).matches(e, NE) for p in (f"os.path.abspath(os.path.join({sep}, $mem.{attr}.strip({sep})))", f"os.path.abspath(os.path.join({sep}, $mem.{attr}))"))
    ctx.check("R3", r, norm_form(loc[0], "name"), f"name-normalised:{A.unparse(loc[0])[:60]}", "member names are normalised by abspath(join('/', name))",
              f"member name normalisation is `{A.unparse(loc[0])}`", node=loc[0])
    ctx.check("R3", r, norm_form(tgt[0], "linkname"), f"linkname-normalised:{A.unparse(tgt[0])[:60]}", "hardlink targets are normalised the same way as member names (they key the same inode cache)",
              f"hardlink target normalisation is `{A.unparse(tgt[0])}`: it keys the same cache as the member name normalisation `{A.unparse(loc[0])}`", node=tgt[0])
    n_strip = 0
    for f in (w, r, add):
        for c in A.calls(f.node):
            if A.call_attr(c) in ("strip", "lstrip", "rstrip") and c.args:
                n_strip += 1
                lit = A.try_literal(c.args[0], default=None)
                if lit is None and (A.unparse(c.args[0]) == "os.path.sep" or isinstance(c.args[0], ast.Name) and M.has(f.node, "$p = os.path.sep", {"p": c.args[0].id})):
                    lit = os.sep
                ok = isinstance(lit, str) and len(set(lit)) == 1
                ctx.check("R3", f, ok, f"strip-charset:{A.unparse(c)[-24:]}", f"`{A.unparse(c)[-40:]}` strips a single character",
                          f"`{A.unparse(c)}` strips a SET of characters {sorted(set(lit)) if isinstance(lit, str) else '?'}: a leading '.' of a dot-named top-level entry ('./.keep') is eaten along with the './' prefix", node=c)
    ctx.check("R3", r, n_strip >= 4, f"strip-sites:{n_strip}", f"{n_strip} strip sites in the tar writer/reader inspected")
    rel = [v for t_, v, _ in A.assignments(w.node) if A.unparse(t_) == f"{tv}.name"]
    ctx.check("R3", w, any(isinstance(x, ast.JoinedStr) and A.fstring_prefix(x) == "./" and len(x.values) > 1 and isinstance(x.values[1], ast.FormattedValue)
                           and M.pat("$$o.location.lstrip('/')").matches(x.values[1].value) for x in rel), "relative-name", "relative member names are './' + location without its leading '/'")
    # writer side of the hardlink bookkeeping, bound by role: the member being added is the first argument of
    # addfile(<t>, fileobj=<data>); <t> = fsobj_to_tarinfo(<x>, ...); <key> = (<x>.dev, <x>.inode); <existing> = <cache>.get(<key>)
    adds = [c for c in A.calls(add.node) if A.call_attr(c) == "addfile" and any(k.arg == "fileobj" for k in c.keywords)]
    at = A.unparse(adds[0].args[0]) if adds and adds[0].args and isinstance(adds[0].args[0], ast.Name) else None
    am = M.one(add.node, "$t = fsobj_to_tarinfo($x, ...)", {"t": at}) if at else None
    em = M.one(add.node, "$existing = $inodes.get($key)", am.env) if am else None
    km = M.one(add.node, "$key = ($x.dev, $x.inode)\n$existing = $inodes.get($key)", em.env) if em else None
    AE = dict(em.env) if em else dict(am.env) if am else {}
    ln = [v for t_, v, _ in A.assignments(add.node) if A.unparse(t_) == f"{at}.linkname"]
    ctx.check("R3", add, len(ln) == 1 and em is not None and M.pat("'./{}'.format($existing.location.lstrip('/'))").matches(ln[0], AE) is not None, "hardlink-name", "a hardlink names its target the same way ('./' + location)")
    ctx.floor("R3", 8)

    # ---- R4 every regular member carries its data ------------------------------------------------------------
    g = CFG.cfg_of(add.node)
    ctx.require(len(adds) == 1 and at is not None, "add_contents_to_tarfile: addfile(t, fileobj=data) not found")
    dvar = A.unparse([k.value for k in adds[0].keywords if k.arg == "fileobj"][0])
    none_sets = [st for t_, v, st in A.assignments(add.node, dvar) if A.is_const(v, None)]
    good = [st for t_, v, st in A.assignments(add.node, dvar) if not A.is_const(v, None)]
    zero = [st for t_, v, st in A.assignments(add.node) if A.unparse(t_) == f"{at}.size" and A.is_const(v, 0)]
    ctx.require(none_sets and good and zero, "add_contents_to_tarfile: data/size assignments not found")
    goal = g.node_of(A.stmt_of(adds[0]))
    avoid = {g.node_of(s) for s in good + zero}
    path = g.find_path([g.node_of(none_sets[0])], lambda n: n is goal, avoid=lambda n: n in avoid)
    ctx.check("R4", add, path is None, "regular-member-without-data", "every path to addfile(t, fileobj=data) either made the member a zero-size hardlink or loaded the file's data",
              "add_contents_to_tarfile can add a regular member that announces its size but carries no data (entry shares an inode key with an earlier one but cannot be hardlinked to it — e.g. every entry without dev/inode): the archive is corrupt from that member on", node=adds[0], witness=g.fmt_path(path) if path else None)
    lnk = [st for t_, v, st in A.assignments(add.node) if A.unparse(t_) == f"{at}.type" and A.unparse(v) == "tarfile.LNKTYPE"]
    ctx.require(lnk, "add_contents_to_tarfile: hardlink emission not found")
    guards = [p.test for p in A.parents(lnk[0]) if isinstance(p, ast.If)]
    ctx.check("R4", add, em is not None and any(M.has(t, "$_._can_be_hardlinked($existing)", AE) for t in guards) and any(M.has(t, "$existing is not None", AE) for t in guards), "hardlink-guard", "a hardlink is emitted only for an entry that can be hardlinked to an earlier one with the same (dev, inode)")
    ctx.check("R4", add, km is not None and (M.has(add.node, "$inodes[$key] = $x", AE) or M.has(add.node, "$inodes.setdefault($key, $x)", AE)), "inode-key", "hardlink groups are keyed by (dev, inode)")
    d1, d2 = M.one(add.node, "contents_set.dirs()"), M.one(add.node, "contents_set.iterdirs(invert=True)")
    ctx.check("R4", add, d1 is not None and d2 is not None and d1.node.lineno < d2.node.lineno, "dirs-first", "directories are written first, then everything else")
    ctx.floor("R4", 4)

    # ---- R5 reader inode cache ------------------------------------------------------------------------------------
    reg = [st for t_, v, st in A.assignments(r.node) if A.unparse(t_) == f"{RE['inodes']}[{locv}]"]
    ctx.require(reg, "archive_to_fsobj: inode cache registration not found")

    def branch(st):
        """'both' when st is outside `if member.islnk()`, else the branch it sits in"""
        child = st
        for p in A.parents(st):
            if isinstance(p, ast.If) and A.unparse(p.test) in (f"{mem}.islnk()", f"not {mem}.islnk()"):
                in_body = any(child is x for x in p.body)
                return "link" if in_body != A.unparse(p.test).startswith("not ") else "other"
            child = p
        return "both"
    br = {branch(st) for st in reg}
    ctx.check("R5", r, "both" in br or {"link", "other"} <= br, f"links-registered-too:{','.join(sorted(br))}", "hardlink members are registered in the inode cache too (chains x -> y -> z)",
              "archive_to_fsobj registers only non-link members in the inode cache: a hardlink to a hardlink cannot be resolved", node=reg[0])
    lk = [n for n in A.body_walk(r.node) if isinstance(n, ast.If) and A.unparse(n.test) == f"{mem}.islnk()"]
    ctx.require(lk, "archive_to_fsobj: hardlink branch not found")
    ctx.check("R5", r, M.has(lk[0].body, "$inode = $inodes.get($target)\nif $inode is None:\n    raise AssertionError(...)\n$d['inode'] = $inode", RE) and M.one(lk[0].body, "$d['inode'] = $inode", RE)["d"] in dnames,
              "link-shares-inode", "a hardlink member gets the inode of its target; an unknown target is an error")
    ctx.check("R5", r, M.has(lk[0].orelse, "_unique_inode()"), "fresh-inode", "any other regular member gets a fresh inode")
    devs = [m for m in M.find(r.node, "$dev = _unique_inode()") if any(m.node is s for s in r.node.body)]
    ctx.check("R5", r, any(m2["d"] in dnames for m in devs for m2 in M.find(loop[0], "$d['dev'] = $dev", m.env)), "one-dev-per-archive", "all members of one archive share one synthetic device number")
    ctx.floor("R5", 4)

    # ---- R6 symlinked directories resolved to a fixpoint ---------------------------------------------------------------
    cv = P.func(MOD, "convert_archive")
    # <raw_syms> = <t>.links(); <syms> = contentsSet(<raw_syms>): the three sets the relocation works on
    sm = M.one(cv.node, "$raw_syms = $t.links()\n$syms = contents.contentsSet($raw_syms)")
    SE = dict(sm.env) if sm else {}
    rew = [n for n in A.body_walk(cv.node) if isinstance(n, ast.For) and M.has(n, "$syms.update($_.change_offset(...))", SE)]
    ctx.require(len(rew) == 1, "convert_archive: symlink rewrite loop not found")
    wh = [p for p in A.parents(rew[0]) if isinstance(p, ast.While)]
    restart = any(isinstance(s, ast.Break) for s in rew[0].body) and any(isinstance(s, ast.Break) for s in rew[0].orelse)
    ctx.check("R6", cv, bool(wh) and restart, "sym-rewrite-fixpoint", "symlinks beneath symlinked directories are relocated until nothing changes (restart after each rewrite, stop on a clean pass)",
              "convert_archive relocates symlinks beneath symlinked directories in a single pass: a relocated symlink is never re-examined against the symlinks it now sits beneath (three levels of nesting resolve differently from a live merge)", node=rew[0])
    ctx.check("R6", cv, sm is not None and M.has(cv.node, "$syms = sorted($syms, reverse=True)\nfor $x in $syms:\n    $additions.extend($aff.change_offset($x.location, $x.resolved_target))\n$t.update($additions)", SE),
              "children-relocated", "entries beneath a symlinked directory move to the resolved target")
    ctx.check("R6", cv, sm is not None and M.has(cv.node, "$t.add_missing_directories()", SE), "dirs-completed", "directories made necessary by relocation are added")
    ctx.check("R6", cv, sm is not None and M.has(cv.node, "$t.difference_update($raw_syms)\n$t.update($syms)", SE), "syms-replaced", "the raw symlinks are replaced by the relocated ones")
    ctx.floor("R6", 4)

    # ---- R7 empty archive --------------------------------------------------------------------------------------------------
    gc = P.func(MOD, "generate_contents")
    tries = [n for n in A.body_walk(gc.node) if isinstance(n, ast.Try)]
    ctx.require(tries, "generate_contents: try around the open not found")
    import tarfile as _std
    std_src = open(_std.__file__, encoding="utf-8").read()
    ctx.require("raise ReadError('empty file')" in std_src.replace('"', "'"), "stdlib tarfile no longer converts the empty-header error to ReadError('empty file')")
    ctx.ob("R7", gc, f"stdlib fact (read from {os.path.basename(_std.__file__)}): TarFile.__init__/next() convert EOFHeaderError/EmptyHeaderError at offset 0 into ReadError('empty file')")
    hs = tries[0].handlers
    types = [A.unparse(h.type) if h.type is not None else "<bare>" for h in hs]
    accept = {"tarfile.ReadError", "tarfile.TarError", "Exception", "<bare>"}
    ctx.check("R7", gc, any(t in accept for t in types), f"handler-type:{','.join(types)}", "the handler catches tarfile.ReadError, which is what an empty stream raises",
              f"generate_contents catches {types}: TarFile never lets those escape — an empty stream raises ReadError('empty file'), which now propagates instead of reading as an empty set", node=tries[0])
    h = [x for x in hs if x.type is not None and A.unparse(x.type) in accept]
    if h:
        lits = {s for s in A.str_constants(h[0])}
        ctx.check("R7", gc, "empty file" in lits and "empty header" in lits and any(A.call_attr(c) == "endswith" for c in A.calls(h[0])), "empty-messages", "both empty-archive messages are recognised (suffix match: newer tarfile prefixes the message)",
                  f"the handler recognises {sorted(lits)} only", node=h[0])
        # the handle is whatever generate_contents hands to convert_archive; the handler replaces it by no members
        th = M.one(gc.node, "return convert_archive($th)")
        ctx.check("R7", gc, th is not None and M.has(h[0].body, "$th = []", th.env), "reads-as-empty", "an empty archive is read as no members")
        ctx.check("R7", gc, any(isinstance(n, ast.Raise) for n in A.walk(h[0])), "other-errors-propagate", "any other read error propagates")
    ctx.floor("R7", 4)

    # ---- R8 TarInfo.isdev() also holds for fifos: the fifo test must come first --------------------------------------------
    a2f = P.func("pkgcore.fs.tar", "archive_to_fsobj")
    order = []
    for n in A.body_walk(a2f.node):
        if isinstance(n, ast.If):
            for c in ast.walk(n.test):
                if isinstance(c, ast.Call) and A.call_attr(c) in ("isfifo", "isdev"):
                    order.append((n.lineno, A.call_attr(c)))
    order.sort()
    kinds = [k for _, k in order]
    ctx.check("R8", a2f, "isfifo" in kinds and "isdev" in kinds and kinds.index("isfifo") < kinds.index("isdev"), "fifo-before-dev:" + ">".join(kinds),
              "named pipes are recognised before the generic device test",
              f"archive_to_fsobj tests {' then '.join(kinds)}: tarfile's isdev() is true for FIFOTYPE too, so a fifo member is taken for a device node and the archive cannot be read")
    ctx.floor("R8", 1)


F = "src/pkgcore/fs/tar.py"
MUTANTS = [
    {"name": "reader-major", "file": F, "old": "            d[\"major\"] = int(member.devmajor)", "new": "            d[\"major\"] = int(member.major)", "rule": "R2"},
    {"name": "no-fifo-branch", "file": F, "old": "        elif member.isfifo():\n            yield fsFifo(location, **d)\n", "new": "", "rule": "R1"},
    {"name": "writer-mtime-dropped", "file": F, "old": "    t.mtime = fsobj.mtime\n", "new": "", "rule": "R2"},
    {"name": "lstrip-charset", "file": F, "old": "member.name.strip(psep)))\n        if member.isdir():", "new": "member.name.lstrip(\"./\")))\n        if member.isdir():", "rule": "R3"},
    {"name": "revert-data-fix", "file": F, "old": "            if existing is not None and x._can_be_hardlinked(existing):\n                t.type = tarfile.LNKTYPE\n                t.linkname = \"./{}\".format(existing.location.lstrip(\"/\"))\n                t.size = 0\n            else:\n                if existing is None:\n                    inodes[key] = x\n                data = x.data.bytes_fileobj()\n",
     "new": "            if existing is not None:\n                if x._can_be_hardlinked(existing):\n                    t.type = tarfile.LNKTYPE\n                    t.linkname = \"./{}\".format(existing.location.lstrip(\"/\"))\n                    t.size = 0\n            else:\n                inodes[key] = x\n                data = x.data.bytes_fileobj()\n", "rule": "R4"},
    {"name": "links-not-registered-2", "file": F, "old": "            inodes[location] = inode\n", "new": "            if not member.islnk():\n                inodes[location] = inode\n", "rule": "R5"},
    {"name": "handler-dead-types", "file": F, "old": "    except tarfile.ReadError as e:\n        if not str(e).endswith((\"empty header\", \"empty file\")):\n            raise\n", "new": "    except (tarfile.EmptyHeaderError, tarfile.EOFHeaderError):\n", "rule": "R7"},
    {"name": "revert-empty-file-msg", "file": F, "old": "        if not str(e).endswith((\"empty header\", \"empty file\")):", "new": "        if str(e) != \"empty header\":", "rule": "R7"},
    {"name": "single-pass", "file": F, "old": "            del affected\n            break\n        else:\n            break\n", "new": "            del affected\n        break\n", "rule": "R6"},
]
TWINS = [
    {"name": "setdefault-form", "file": F, "old": "                if existing is None:\n                    inodes[key] = x\n                data = x.data.bytes_fileobj()", "new": "                inodes.setdefault(key, x)\n                data = x.data.bytes_fileobj()"},
]
