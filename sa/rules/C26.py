"""C26 — XPAK metadata segments round-trip and rewrites preserve the archive (structural clauses)."""
import ast
import struct

from ..core import astutil as A
from ..core import match as M
from ..core.cfg import cfg_of
from ..core.model import dotted

META = {
    "technique": "format-constant agreement between writer and reader (struct sizes computed from the literal format strings, constant parts of the stored trailer offset and of the reader's seeks, per-key index stride), CFG ordering rule for the rewrite sequence seek -> header -> payload -> trailer -> truncate -> close, def-use rule 'lengths are taken from the encoded bytes that are written'",
    "level": "Decides: (R1) header and trailer structs are 16 bytes each with the documented magics; the trailer stores index+data+24 (trailer size + 8, the format's historical off-by-8) and the reader seeks back that value + 8, landing on the header; the reader's first seek equals the trailer size and its per-key stride equals the writer's per-key fixed overhead (12 bytes); (R2) write_xpak seeks to the old segment's start (or end of file) before any write, writes header, payload and trailer in order, then truncates and closes on every path; (R3) every length recorded in the index is the length of the encoded bytes actually written, and the reader decodes every value except environment*. Does NOT decide byte-level equality for concrete mappings.",
    "note": "XPAK layout constants are the on-disk format shared with portage (frozen: stored offset = index + data + 24; reader adds 8)",
}
META["technique"] += "; " + 'generic pack G on the anchored files (optional-flag shift, closures outliving a loop iteration, single-pass iterables consumed twice, %-templates built from data, in-place writes to class-level / memoised objects, generators mutating what they yielded, memo keys that are projections)'
MOD = "pkgcore.binpkg.xpak"


def const_part(expr, sizes):
    """sum of integer constants and known struct sizes in an additive expression; len(...) terms are ignored"""
    total = 0
    terms = []

    def flat(e, sign=1):
        if isinstance(e, ast.BinOp) and isinstance(e.op, ast.Add):
            flat(e.left, sign)
            flat(e.right, sign)
        elif isinstance(e, ast.BinOp) and isinstance(e.op, ast.Sub):
            flat(e.left, sign)
            flat(e.right, -sign)
        else:
            terms.append((sign, e))

    flat(expr)
    lens = []
    for sign, t in terms:
        if isinstance(t, ast.Constant) and isinstance(t.value, int):
            total += sign * t.value
        elif A.unparse(t) in sizes:
            total += sign * sizes[A.unparse(t)]
        elif isinstance(t, ast.Call) and dotted(t.func) == "len":
            lens.append(A.unparse(t.args[0]))
        elif isinstance(t, ast.Name):
            lens.append(t.id)
        else:
            return None, None
    return total, lens


def run(ctx):
    P = ctx.program
    ctx.explanation = META["level"]
    X = P.cls(MOD, "Xpak")
    # literal magics and formats
    magics = {}
    for st in X.node.body:
        if isinstance(st, ast.Assign) and isinstance(st.targets[0], ast.Name) and isinstance(st.value, ast.Constant) and isinstance(st.value.value, str):
            magics.setdefault(st.targets[0].id, st.value.value)
    ctx.check("R1", X, magics.get("trailer_pre_magic") == "XPAKSTOP" and magics.get("trailer_post_magic") == "STOP" and magics.get("header_pre_magic") == "XPAKPACK", "magics", "XPAKPACK / XPAKSTOP / STOP magics", f"magics are {magics}")
    fmts = {}
    for name in ("trailer", "header"):
        for st in X.node.body:
            if isinstance(st, ast.Assign) and isinstance(st.targets[0], ast.Name) and st.targets[0].id == name and isinstance(st.value, ast.Call):
                env = {f"len({k})": len(v) for k, v in magics.items()}
                arg = st.value.args[0]
                txt = ""
                ok = True
                if isinstance(arg, ast.JoinedStr):
                    for v in arg.values:
                        if isinstance(v, ast.Constant):
                            txt += v.value
                        else:
                            key = A.unparse(v.value)
                            if key in env:
                                txt += str(env[key])
                            else:
                                ok = False
                elif isinstance(arg, ast.Constant):
                    txt = arg.value
                else:
                    ok = False
                if ok:
                    fmts[name] = txt
    ctx.require(set(fmts) == {"trailer", "header"}, f"Xpak: struct formats not evaluable ({fmts})")
    T, H = struct.calcsize(fmts["trailer"]), struct.calcsize(fmts["header"])
    ctx.check("R1", X, (fmts["trailer"], fmts["header"]) == (">8sL4s", ">8sLL") and T == 16 and H == 16, "struct-formats", "trailer '>8sL4s' and header '>8sLL' (16 bytes each, big endian)", f"formats {fmts}, sizes trailer={T} header={H}")
    sizes = {"cls.trailer.size": T, "cls.header.size": H, "self.trailer.size": T, "self.header.size": H}
    wx = P.func(MOD, "Xpak.write_xpak")
    cm = P.func(MOD, "Xpak._check_magic")
    # ---- locals of write_xpak, bound by ROLE (never by spelling) ------------------------------------------------
    hm = M.one(wx.node, "$h = open(target_source, $_)")
    ctx.require(hm is not None, "write_xpak: the opened file handle is not found")
    hn = hm["h"]
    # the payload write names the joined index and data blocks
    pm = M.one(wx.node, "$h.write(struct.pack($_, $idx, $dat))", hm.env)
    idx_n, dat_n = (pm["idx"], pm["dat"]) if pm else (None, None)
    tw = [c for c in A.calls(wx.node) if A.unparse(c.func) in ("cls.trailer.write",)]
    ctx.require(len(tw) == 1 and len(tw[0].args) == 4, "write_xpak: trailer write not found")
    cw, lens = const_part(tw[0].args[2], sizes)
    ctx.require(cw is not None, "write_xpak: stored trailer offset expression not understood")
    ctx.check("R1", wx, cw == T + 8 and pm is not None and sorted(lens) == sorted([idx_n, dat_n]), f"stored-offset:+{cw}", "the trailer stores len(index) + len(data) + 24 (the documented XPAK offset)",
              f"write_xpak stores len({lens}) + {cw} in the trailer; the XPAK format (and every other writer/reader) uses index + data + 24", node=tw[0])
    seeks = [c for c in A.calls(cm.node) if A.call_attr(c) == "seek"]
    ctx.require(len(seeks) == 2, "_check_magic: expected two seeks")
    s1 = A.try_literal(seeks[0].args[0])
    ctx.check("R1", cm, s1 == -T and A.try_literal(seeks[0].args[1]) == 2, "trailer-seek", f"the reader finds the trailer {T} bytes before the end", f"first seek is {A.unparse(seeks[0])}", node=seeks[0])
    a0 = seeks[1].args[0]
    cr, vars_ = None, None
    if isinstance(a0, ast.UnaryOp) and isinstance(a0.op, ast.USub):
        cr, vars_ = const_part(a0.operand, sizes)
    # the value that is seeked back by is the offset read from the trailer
    tr = M.one(cm.node, "$pre, $size, $post = self.trailer.read(fd)")
    ctx.check("R1", cm, cr == 8 and A.try_literal(seeks[1].args[1]) == 2 and tr is not None and vars_ == [tr["size"]], f"header-seek:+{cr}", "the reader seeks back (stored offset + 8) from the end to reach the header",
              f"second seek is `{A.unparse(seeks[1])}`: the documented format needs -(size + 8)", node=seeks[1])
    if cw is not None and cr is not None:
        ctx.check("R1", X, cw + cr == H + T, "offsets-meet", f"stored offset ({cw}) + reader adjustment ({cr}) = header + trailer size ({H + T}): the reader lands on the header it wrote")
    ret = A.returns(cm.node)
    hr = M.one(cm.node, "$pre, $il, $dl = self.header.read(fd)")
    ctx.check("R1", cm, len(ret) == 1 and hr is not None and M.has(cm.node, "return (self.xpak_start + self.header.size, $il, $dl)", hr.env), "index-start", "the index starts right after the header")
    xs = [A.unparse(v) for t, v, _ in A.assignments(cm.node) if A.unparse(t) == "self.xpak_start"]
    ctx.check("R1", cm, xs == ["fd.tell()"] and any(st.lineno > seeks[1].lineno for t, v, st in A.assignments(cm.node) if A.unparse(t) == "self.xpak_start"), "records-start", "xpak_start is the position of the header")
    # per-key stride
    kd = P.func(MOD, "Xpak.keys_dict")
    # the remaining-index counter is the index length _check_magic returned
    km = M.one(kd.node, "$fd = self._fd\n$istart, $ilen, $dlen = self._check_magic($fd)")
    ctx.require(km is not None, "keys_dict: call of _check_magic on the file object not found")
    fd_n = km["fd"]
    stride = [n for n in A.body_walk(kd.node) if isinstance(n, ast.AugAssign) and isinstance(n.op, ast.Sub) and A.unparse(n.target) == km["ilen"]]
    ctx.require(len(stride) == 1, "keys_dict: index stride not found")
    in_loop = any(isinstance(p, ast.While) and A.unparse(p.test) == km["ilen"] for p in A.parents(stride[0]))
    sc, sv = const_part(stride[0].value, {})
    # the writer's key/value loop and its per-key index record
    loop = [n for n in wx.node.body if isinstance(n, ast.For)]
    ctx.require(len(loop) == 1 and isinstance(loop[0].target, ast.Tuple) and len(loop[0].target.elts) == 2, "write_xpak: key/value loop not found")
    lp = loop[0]
    kname, vname = [A.unparse(e) for e in lp.target.elts]
    packs = [c for c in A.calls(lp) if dotted(c.func) == "struct.pack" and c.args and isinstance(c.args[0], ast.JoinedStr)]
    ctx.require(len(packs) == 1, "write_xpak: per-key pack not found")
    pf = "".join(v.value if isinstance(v, ast.Constant) else "0" for v in packs[0].args[0].values)
    fixed = struct.calcsize(pf)
    kl = M.one(kd.node, "while $ilen:\n    $kl = struct.unpack('>L', $fd.read(4))[0]\n    $key = $fd.read($kl)", km.env)
    ctx.check("R1", kd, sc == fixed == 12 and in_loop and kl is not None and sv == [kl["kl"]], f"index-stride:{sc}/{fixed}", "the reader's per-key stride (key_len + 12) equals the writer's per-key record overhead", f"reader subtracts key_len + {sc}, writer packs {pf} = {fixed} fixed bytes", node=stride[0])
    reads = [A.unparse(c) for c in A.calls(kd.node) if A.call_attr(c) == "read"]
    ctx.check("R1", kd, kl is not None and reads == [f"{fd_n}.read(4)", f"{fd_n}.read({kl['kl']})", f"{fd_n}.read(8)"], "index-record-reads", "an index record is read as 4 + key_len + 8 bytes", f"reads are {reads}")
    ctx.floor("R1", 10)

    # ---- R2 write order --------------------------------------------------------------------
    # a write is a write: no "already current" early-out may skip the segment (equality of the old and new mapping is not
    # equality of what a reader gets back: order, bytes vs text, duplicates)
    from ..core import generic as G
    G.always_reaches(ctx, "R2", MOD, "Xpak.write_xpak", lambda c: A.call_attr(c) == "truncate",
                     "the write of the new segment (ending in `handle.truncate()`)", "write-always-writes")
    g = cfg_of(wx.node)
    seek = [c for c in A.calls(wx.node) if A.unparse(c.func) == f"{hn}.seek"]
    hdr = [c for c in A.calls(wx.node) if A.unparse(c.func) == "cls.header.write"]
    pay = [c for c in A.calls(wx.node) if A.unparse(c.func) == f"{hn}.write"]
    trunc = [c for c in A.calls(wx.node) if A.unparse(c.func) == f"{hn}.truncate"]
    close = [c for c in A.calls(wx.node) if A.unparse(c.func) == f"{hn}.close"]
    seq = [("seek", seek), ("header", hdr), ("payload", pay), ("trailer", tw), ("truncate", trunc), ("close", close)]
    for name, hits in seq:
        ctx.check("R2", wx, len(hits) == 1, f"has:{name}", f"write_xpak performs exactly one {name} step",
                  f"write_xpak has {len(hits)} `{name}` step(s): " + ("without truncate() the stale tail of a longer old segment stays after the new trailer" if name == "truncate" else "the rewrite sequence is incomplete"))
    present = [(n, h[0]) for n, h in seq if len(h) == 1]
    doms = g.dominators()
    for (n1, c1), (n2, c2) in zip(present, present[1:]):
        ok = g.node_of(c1) in doms.get(g.node_of(c2), ()) and g.node_of(c1) is not g.node_of(c2)
        ctx.check("R2", wx, ok, f"order:{n1}<{n2}", f"{n1} happens before {n2} on every path", node=c2)
    # `start` = the variable that receives the old segment's offset
    sm = M.one(wx.node, "$old = cls(target_source)\n$start = $old.xpak_start")
    if seek:
        ctx.check("R2", wx, sm is not None and [A.unparse(a) for a in seek[0].args] == [sm["start"], "0"], "seek-to-start", "the write position is the old segment's start (or end of file), absolute")
    starts = [A.unparse(v) for t, v, _ in A.assignments(wx.node, sm["start"])] if sm else []
    ctx.check("R2", wx, sm is not None and any("st_size" in s for s in starts), "start-sources", "start is the old segment's offset when one exists, else the current size", f"start is assigned from {starts}")
    opens = [c for c in A.calls(wx.node) if dotted(c.func) == "open"]
    ctx.check("R2", wx, len(opens) == 1 and A.try_literal(opens[0].args[1]) in ("r+b", "rb+"), "open-mode", "the file is opened r+b (never truncated up front)", node=opens[0] if opens else None)
    ctx.floor("R2", 12)

    # ---- R3 lengths of encoded bytes ----------------------------------------------------------
    venv = {"v": vname, "k": kname}
    enc = [n for n in lp.body if isinstance(n, ast.If) and M.has(n.test, "isinstance($v, str)", venv)]
    enc_ok = bool(enc) and M.has(enc[0].body, "$v = $v.encode('utf8')", venv)
    ctx.check("R3", wx, enc_ok, "value-encoded-utf8", "text values are encoded as UTF-8 into the same variable that is then measured and written",
              "write_xpak no longer re-binds the value to its UTF-8 bytes before measuring it: recorded lengths are in characters, not in the bytes written")
    lens_uses = [n for n in ast.walk(lp) if isinstance(n, ast.Call) and dotted(n.func) == "len" and A.unparse(n.args[0]) == vname]
    for n in lens_uses:
        ctx.check("R3", wx, bool(enc) and n.lineno > enc[0].end_lineno, f"len-after-encode@{A.unparse(A.stmt_of(n))[:30]}", "len(value) is taken after the value was encoded to bytes",
                  "write_xpak measures the value before encoding it: for non-ASCII text the recorded length is in characters, shorter than the bytes written, and every later offset is shifted", node=n)
    # the list that collects the data block: the one later joined into the payload's data argument
    dl = M.one(wx.node.body, "$dlist = []\nfor $k, $v in $_:\n    $dlist.append($_)\n$dat = $_.join($dlist)", dict(venv, **({"dat": dat_n} if dat_n else {})))
    app = [c for c in A.calls(lp) if dl is not None and A.unparse(c.func) == f"{dl['dlist']}.append"]
    ctx.check("R3", wx, len(app) == 1 and A.unparse(app[0].args[0]) == vname, "writes-measured-bytes", "the bytes appended to the data block are the measured variable itself",
              f"write_xpak appends `{A.unparse(app[0].args[0]) if app else None}` but measured `{vname}`", node=app[0] if app else None)
    # the running offset: the one augmented in the loop, initialised to 0 before it
    pos = [n for n in lp.body if isinstance(n, ast.AugAssign) and isinstance(n.op, ast.Add) and isinstance(n.target, ast.Name)]
    pos_n = pos[0].target.id if len(pos) == 1 else None
    ctx.check("R3", wx, pos_n is not None and A.unparse(pos[0].value) == f"len({vname})" and M.has(wx.node.body, "$pos = 0\nfor $k, $v in $_:\n    ...", dict(venv, pos=pos_n)), "offset-advances", "the running offset advances by the written length")
    pk = packs[0]
    ctx.check("R3", wx, pos_n is not None and [A.unparse(a) for a in pk.args[1:]] == [f"len({kname})", kname, pos_n, f"len({vname})"], "index-record", "an index record is (len(key), key, offset, len(value))")
    gd = P.func(MOD, "Xpak._get_data")
    rd = M.one(gd.node, "$r = fd.read(data_len)")
    ctx.check("R3", gd, rd is not None and (M.has(gd.node, "if needs_decoding:\n    return $r.decode()", rd.env) or M.has(gd.node, "$r.decode() if needs_decoding else $_", rd.env)), "reader-decodes", "the reader decodes values flagged for decoding")
    ctx.check("R3", kd, M.has(kd.node, "$d[$key] = ($_, $_, not $key.startswith('environment'))"), "environment-raw", "every key except environment* is flagged for decoding")
    ctx.floor("R3", 7)


MUTANTS = [
    {"name": "no-truncate", "file": "src/pkgcore/binpkg/xpak.py", "old": "        handle.truncate()\n        handle.close()", "new": "        handle.close()", "rule": "R2"},
    {"name": "len-before-encode", "file": "src/pkgcore/binpkg/xpak.py", "old": "            if isinstance(val, str):\n                val = val.encode(\"utf8\")\n            if isinstance(key, str):\n                key = key.encode()\n            new_index.append(\n                struct.pack(f\">L{len(key)}sLL\", len(key), key, cur_pos, len(val))\n            )\n            new_data.append(val)\n            cur_pos += len(val)", "new": "            vlen = len(val)\n            if isinstance(key, str):\n                key = key.encode()\n            new_index.append(\n                struct.pack(f\">L{len(key)}sLL\", len(key), key, cur_pos, vlen)\n            )\n            new_data.append(val.encode(\"utf8\") if isinstance(val, str) else val)\n            cur_pos += vlen", "rule": "R3"},
    {"name": "offset-cleaned-up", "file": "src/pkgcore/binpkg/xpak.py", "old": "            len(new_index) + len(new_data) + cls.trailer.size + 8,", "new": "            len(new_index) + len(new_data) + cls.trailer.size + cls.header.size,", "rule": "R1"},
    {"name": "reader-seek-no-8", "file": "src/pkgcore/binpkg/xpak.py", "old": "        fd.seek(-(size + 8), 2)", "new": "        fd.seek(-size, 2)", "rule": "R1"},
    {"name": "stride-8", "file": "src/pkgcore/binpkg/xpak.py", "old": "            index_len -= key_len + 12", "new": "            index_len -= key_len + 8", "rule": "R1"},
    {"name": "truncate-before-trailer", "file": "src/pkgcore/binpkg/xpak.py", "old": "        # the +8 is for the longs for new_index/new_data\n        cls.trailer.write(", "new": "        handle.truncate()\n        # the +8 is for the longs for new_index/new_data\n        cls.trailer.write(", "rule": "R2"},
    {"name": "open-w", "file": "src/pkgcore/binpkg/xpak.py", "old": "            handle = open(target_source, \"r+b\")", "new": "            handle = open(target_source, \"wb\")", "rule": "R2"},
]
TWINS = []
