"""C43 — config section inheritance resolves to the nearest definition (worklist order / first-match / error clauses)."""
import ast

from ..core import generic as G
from ..core import astutil as A
from ..core import match as M
from ..core.model import dotted

META = {
    "technique": "worklist-discipline rule (the inheritance worklist starts with the section itself and grows only at its tail while being walked front to back: FIFO = breadth-first), first-match rule over the per-key stacks built in worklist order, shadowing rule for config sources (a later source is pushed in FRONT of the per-name stack and the front element is the one used), presence and guards of the three error exits (self-inherit with nothing below, recursive inherit, missing target)",
    "level": "Decides the structural clauses: sections are visited breadth-first starting from the section itself; per key the candidates are kept in visiting order and the first one defining the key wins; for one name the newest config source's section is used, a self-inherit continues with the older ones; a repeated name is a recursion error, an unknown name a missing-target error, a self-inherit without an older definition an error; the bookkeeping keys (inherit, inherit-only, class, default) are not passed on as settings. Two FIFO shapes are accepted (appending to the list being iterated; deque.popleft loop); LIFO operations on the worklist are violations, any other shape is an analysis error, not a verdict. Does NOT decide values on concrete inheritance graphs.",
    "note": "first written as not-applicable (DESIGN §6) for fear of a brittle shape proxy; the property itself prescribes breadth-first order, so FIFO discipline is a necessary condition, and both usual FIFO idioms are accepted",
}
META["technique"] += "; " + 'generic pack G on the anchored files (optional-flag shift, closures outliving a loop iteration, single-pass iterables consumed twice, %-templates built from data, in-place writes to class-level / memoised objects, generators mutating what they yielded, memo keys that are projections)'
MOD = "pkgcore.config.central"


def run(ctx):
    P = ctx.program
    ctx.explanation = META["level"]
    gi = P.func(MOD, "ConfigManager._get_inherited_sections")
    name, sections = gi.params()[1], gi.params()[2]
    # ---- R1 worklist discipline ---------------------------------------------------------------------
    init = [(t, v) for t, v, _ in A.assignments(gi.node) if isinstance(t, ast.Name) and isinstance(v, ast.List) and len(v.elts) == 1 and A.unparse(v.elts[0]) == f"({name}, {sections})"]
    ctx.check("R1", gi, len(init) == 1, "starts-with-self", "the worklist starts with the section being collapsed (most specific first)",
              "the inheritance worklist no longer starts with the section itself: inherited values can shadow the section's own", node=gi.node)
    wl = init[0][0].id if init else "slist"
    loops = [n for n in gi.node.body if isinstance(n, (ast.For, ast.While))]
    ctx.require(len(loops) == 1, "_get_inherited_sections: worklist loop not found")
    lp = loops[0]
    it = lp.iter if isinstance(lp, ast.For) else None
    if isinstance(it, ast.Call) and dotted(it.func) == "enumerate" and it.args:
        it = it.args[0]
    if isinstance(lp, ast.For):
        walks_front_to_back = it is not None and A.unparse(it) == wl
    else:
        walks_front_to_back = any(A.call_attr(c) == "popleft" and A.unparse(c.func.value) == wl for c in A.calls(lp))
    ops = [(A.call_attr(c), c) for c in A.calls(lp) if isinstance(c.func, ast.Attribute) and A.unparse(c.func.value) == wl]
    slice_stores = [n for n in A.walk(lp) if isinstance(n, ast.Subscript) and isinstance(n.ctx, ast.Store) and A.unparse(n.value) == wl]
    ops += [("slice-insert", n) for n in slice_stores]
    grow = [c for o, c in ops if o in ("append", "extend")]
    lifo = [c for o, c in ops if o in ("insert", "appendleft", "pop", "reverse", "slice-insert")]
    ctx.require(walks_front_to_back or lifo, "_get_inherited_sections: worklist idiom not understood")
    ctx.check("R1", gi, walks_front_to_back and len(grow) >= 1 and not lifo, f"fifo-worklist:{[o for o, _ in ops]}", "newly found sections are appended at the tail of the worklist being walked front to back (breadth-first)",
              f"the worklist is manipulated with {[o for o, _ in ops]}: sections are no longer visited breadth-first, so a deeper definition can win over a nearer one", node=lp)
    ret = A.returns(gi.node)[-1]
    ctx.check("R1", gi, M.pat(f"[_section_data($n, $st[0]) for ($n, $st) in {wl}]").matches(ret.value) is not None, "result-in-visit-order", "the result lists the sections in visiting order, each represented by the front of its stack")
    # parents are queued in the order the section lists them: the rendered inherit list reaches the inner loop as it is (no
    # sorted() / set() / de-duplication in between, which would replace list order by alphabetical or hash order)
    REORDER = {"sorted", "set", "frozenset", "reversed", "fromkeys", "stable_unique", "unique", "iter_stable_unique", "dict", "OrderedDict", "shuffle", "sort"}
    inner = [n for n in A.walk(lp) if isinstance(n, ast.For) and n is not lp]
    rv_pat = M.pat("$_.render_value(self, 'inherit', 'list')")
    rvs = [(t.id, v) for t, v, _ in A.assignments(gi.node) if isinstance(t, ast.Name) and any(rv_pat.matches(c) for c in ast.walk(v) if isinstance(c, ast.Call))]
    rv = {"inh": rvs[0][0]} if rvs else None
    if ctx.check("R1", gi, rv is not None and bool(inner), "inherit-list-walked", "the inherit list of the section being visited is walked by an inner loop"):
        src = inner[0].iter
        through = [A.unparse(c.func).split(".")[-1] for c in ast.walk(src) if isinstance(c, ast.Call)]
        defs = [v for t, v, _ in A.assignments(gi.node, rv["inh"])]
        through += [A.unparse(c.func).split(".")[-1] for v in defs for c in ast.walk(v) if isinstance(c, ast.Call)]
        through += [A.call_attr(c) for c in A.calls(lp) if A.call_attr(c) in ("sort", "reverse") and A.unparse(c.func.value) == rv["inh"]]
        bad = sorted((set(through) - {"render_value"}) & REORDER)
        uses_list = any(isinstance(n, ast.Name) and n.id == rv["inh"] for n in ast.walk(src))
        ctx.check("R1", gi, uses_list and not bad, "parents-in-list-order:" + ",".join(bad), "the parents are visited in the order the inherit list names them",
                  f"the inherit list passes through {bad or 'another iterable'} before it is walked: parents are visited in alphabetical / hash order instead of list order, so for a key set by "
                  f"two parents the wrong one is nearest", node=inner[0])
    ctx.floor("R1", 5)

    # ---- R2 first match --------------------------------------------------------------------------------------
    rv = P.func(MOD, "_ConfigStack.render_value")
    ok = M.has(rv.node, "for $d in self.get(key, ()):\n    if key in $d.section:\n        return $d.section.render_value(manager, key, type_name)")
    ctx.check("R2", rv, ok, "first-defining-section-wins", "the first candidate (in visiting order) that defines the key supplies the value",
              "_ConfigStack.render_value no longer returns the FIRST section defining the key", node=rv.node)
    ctx.check("R2", rv, A.is_const(A.returns(rv.node)[-1].value, None) and len(A.returns(rv.node)) == 2, "undefined-is-none", "a key nobody defines renders as None")
    cs = P.func(MOD, "ConfigManager.collapse_section")
    t = A.unparse(cs.node)
    walk = M.one(cs.node, "$rel = self._get_inherited_sections(_name, sections)\n$stk = _ConfigStack()\nfor $d in $rel:\n    for $k in $d.section.keys():\n        $stk[$k].append($d)")
    ctx.check("R2", cs, walk is not None, "stacks-in-visit-order", "per-key candidate stacks are filled in visiting order (append)",
              "collapse_section no longer fills the per-key stacks by appending in visiting order", node=cs.node)
    ctx.check("R2", cs, M.has(cs.node, "$rel = self._get_inherited_sections(_name, sections)"), "uses-inheritance-walk", "collapse uses the inheritance walk")
    ctx.check("R2", cs, walk is not None and M.has(cs.node, "for $k2 in ('inherit', 'inherit-only', 'class', 'default'):\n    $stk.pop($k2, None)", {"stk": walk["stk"]}), "bookkeeping-keys-dropped", "inherit/inherit-only/class/default are not handed on as settings")
    ctx.floor("R2", 5)

    # ---- R3 source shadowing ------------------------------------------------------------------------------------------
    ac = P.func(MOD, "ConfigManager._integrate_config_source")
    ta = A.unparse(ac.node)
    ctx.check("R3", ac, M.has(ac.node, "for $n in $cd:\n    self.sections_lookup[$n].appendleft($cd[$n])"), "newer-source-in-front", "a later config source's section is pushed in front of the older ones of the same name",
              "_integrate_config_source no longer pushes a later source section in front: earlier sources win", node=ac.node)
    tg = A.unparse(gi.node)
    fr = M.one(lp, "$conf = $stack[0]\nif 'inherit' not in $conf:\n    continue")
    ctx.check("R3", gi, fr is not None and isinstance(lp, ast.For) and fr["stack"] in A.names_in(lp.target), "front-of-stack-used", "the front (newest) section of a name is the one consulted")
    sv = fr["stack"] if fr else "section_stack"
    ctx.check("R3", gi, M.has(lp, f"{wl}.append(($i, {sv}[1:]))") or M.has(lp, f"{wl}.append(($i, list({sv})[1:]))"), "self-inherit-continues-below", "a self-inherit continues with the older definitions of the same name")
    ctx.floor("R3", 3)

    # ---- R4 error exits -------------------------------------------------------------------------------------------------
    raises = {}
    for r in A.raises(gi.node):
        msg = A.unparse(r.exc)
        conds = [A.unparse(p.test) for p in A.parents(r) if isinstance(p, ast.If)]
        raises[msg] = conds
    def has(fragment, cond):
        return any(fragment in m and any(cond in c for c in cs_) for m, cs_ in raises.items())
    vis = M.one(gi.node, f"$seen = {{{name}}}")
    E = dict(vis.env) if vis else {}
    rec = M.one(lp, "if $i in $seen:\n    raise errors.ConfigurationError($_)\n$seen.add($i)", E)
    ctx.check("R4", gi, vis is not None and rec is not None, "recursion-error", "a name met twice is reported as recursive", "the recursive-inherit error is gone or no longer guarded by the visited-names test", node=gi.node)
    ctx.check("R4", gi, M.has(lp, "$t = self.sections_lookup.get($i)\nif $t is None:\n    raise errors.ConfigurationError($_)"), "missing-target-error", "an unknown inherit target is reported",
              "an unknown inherit target is no longer reported as an error", node=gi.node)
    ctx.check("R4", gi, M.has(lp, f"if len({sv}) == 1:\n    raise errors.ConfigurationError($_)"), "self-inherit-error", "a self-inherit with nothing below it is reported")
    ctx.check("R4", gi, vis is not None and rec is not None, "visited-set", "visited names start with the section itself and grow with every new target")
    ctx.floor("R4", 4)

    # ---- R5 adding a source invalidates every rendering -----------------------------------------------------------------
    G.always_reaches(ctx, "R5", "pkgcore.config.central", "ConfigManager.add_config_source", lambda c: A.unparse(c.func) == "self.reload",
                     "a full reload() of the rendered sections", "add-source-reloads")
    ctx.floor("R5", 1)


F = "src/pkgcore/config/central.py"
MUTANTS = [
    {"name": "depth-first", "file": F, "old": "                    slist.append((inherit, target))", "new": "                    slist.insert(slist.index((current_section, section_stack)) + 1, (inherit, target))", "rule": "R1"},
    {"name": "last-match-wins", "file": F, "old": "        for data in self.get(key, ()):\n            if key in data.section:\n                return data.section.render_value(manager, key, type_name)\n        return None", "new": "        found = None\n        for data in self.get(key, ()):\n            if key in data.section:\n                found = data.section.render_value(manager, key, type_name)\n        return found", "rule": "R2"},
    {"name": "older-source-wins", "file": F, "old": "            self.sections_lookup[name].appendleft(config_data[name])", "new": "            self.sections_lookup[name].append(config_data[name])", "rule": "R3"},
    {"name": "cycle-not-detected", "file": F, "old": "                    if inherit in inherit_names:\n                        raise errors.ConfigurationError(\n                            f\"Inherit {inherit!r} is recursive\"\n                        )\n", "new": "                    if inherit in inherit_names:\n                        continue\n", "rule": "R4"},
    {"name": "missing-target-skipped", "file": F, "old": "                    if target is None:\n                        raise errors.ConfigurationError(\n                            f\"Inherit target {inherit!r} cannot be found\"\n                        )\n", "new": "                    if target is None:\n                        continue\n", "rule": "R4"},
    {"name": "stacks-prepended", "file": F, "old": "                config_stack[key].append(data)", "new": "                config_stack[key].insert(0, data)", "rule": "R2"},
]
TWINS = []

MUTANTS += [
    {"name": "inherit-list-sorted-unique", "file": "src/pkgcore/config/central.py", "old": "            for inherit in inherits:\n", "new": "            for inherit in sorted(set(inherits)):\n", "rule": "R1"},
]
