"""C27 — metadata cache entries round-trip and are replaced atomically."""
import ast

from ..core import generic as G
from ..core import astutil as A
from ..core import cfg as CFG
from ..core import match as M
from ..core.model import dotted

META = {
    "technique": "temp-then-rename typestate on flat_hash._setitem over its CFG (every write precedes the handle's close, the close dominates the rename, the rename stays outside any `with` managing the handle, a failed rename removes the temporary), writer/lister agreement on the temporary's name (same directory, basename prefix, filter applied to the bare directory entry), guard-kind rule and sibling agreement for the eclass (de)serialisation, serializer/deserializer table agreement",
    "level": "Decides the structural clauses: a store writes a temporary in the destination directory, closes it, fixes access/mtime, and only then renames it over the entry (so a reader sees the previous or the new complete entry); keys() skips exactly those temporaries, judged by the directory entry's own name; '_eclasses_' is deconstructed on store and reconstructed on load whenever the key is PRESENT (not merely truthy); the eclass tuple layout, splitter and the checksum (de)serializer tables agree between the two directions; lines are written `key=value` and split on the first '='. Does NOT decide concrete round trips or actual crash recovery.",
    "note": "md5_cache inherits every method from flat_hash.database",
}
META["technique"] += "; " + 'filesystem-effect summaries: publication by rename is one step'
META["level"] += " Added after the second round of independent changes: " + '(R6) _setitem never deletes the live entry before renaming the new one onto it and writes nothing to it afterwards.'
META["technique"] += "; " + 'generic pack G on the anchored files (optional-flag shift, closures outliving a loop iteration, single-pass iterables consumed twice, %-templates built from data, in-place writes to class-level / memoised objects, generators mutating what they yielded, memo keys that are projections)'
FH = "pkgcore.cache.flat_hash"
CM = "pkgcore.cache"


def run(ctx):
    P = ctx.program
    ctx.explanation = META["level"]
    st_ = P.func(FH, "database._setitem")
    # R6 (an entry is replaced in one step) is evaluated first: it does not depend on the idiom recognition below
    G.publication(ctx, "R6", FH, "database._setitem", {"param:cpv"}, "the cache entry")
    G.always_reaches(ctx, "R6", FH, "database._setitem", lambda c: A.unparse(c.func) in ("os.rename", "os.replace"),
                     "the rename that puts the new entry in place", "store-always-publishes")
    g = CFG.cfg_of(st_.node)
    dom = g.dominators()
    # ---- R1 temp + rename typestate -------------------------------------------------------------------
    opens = [(t, v, s) for t, v, s in A.assignments(st_.node) if isinstance(t, ast.Name) and isinstance(v, ast.Call) and dotted(v.func) == "open"]
    ctx.require(opens, "flat_hash._setitem: open() of the temporary not found")
    h = opens[0][0].id
    tmp = A.unparse(opens[0][1].args[0])
    for t, v, s in opens:
        ctx.check("R1", st_, t.id == h and A.unparse(v.args[0]) == tmp and A.is_const(v.args[1], "w"), f"opens-temp:{A.unparse(v)[:30]}", f"the handle `{h}` is opened for writing on the temporary `{tmp}`")
    renames = [c for c in A.calls(st_.node) if dotted(c.func) == "os.rename"]
    ctx.require(len(renames) == 1, "flat_hash._setitem: os.rename not found")
    rn = renames[0]
    ctx.check("R1", st_, A.unparse(rn.args[0]) == tmp, "renames-the-temp", "what is renamed is the temporary")
    dst = [v for t, v, _ in A.assignments(st_.node) if A.unparse(t) == A.unparse(rn.args[1])]
    ctx.check("R1", st_, len(dst) == 1 and A.unparse(dst[0]) == "pjoin(self.location, cpv)", "renames-onto-entry", "the rename target is the entry's path")
    writes = [c for c in A.calls(st_.node) if A.unparse(c.func) in (f"{h}.write", f"{h}.writelines")]
    closes = [c for c in A.calls(st_.node) if A.unparse(c.func) == f"{h}.close"]
    withs = [n for n in A.body_walk(st_.node) if isinstance(n, ast.With) and any(A.unparse(i.context_expr) == h or (i.optional_vars is not None and A.unparse(i.optional_vars) == h) for i in n.items)]
    ctx.require(writes, "flat_hash._setitem: writes to the temporary not found")
    rnode = g.node_of(rn)
    closed_by = None
    for c in closes:
        if g.node_of(c) in dom[rnode] and g.node_of(c) is not rnode:
            closed_by = f"{h}.close() at +{c.lineno - st_.node.lineno}"
    for w_ in withs:
        if not A.contains_node(w_, rn) and g.node_of(w_) in dom[rnode]:
            closed_by = "exit of `with` block"
    inside = [w_ for w_ in withs if A.contains_node(w_, rn)]
    ctx.check("R1", st_, closed_by is not None and not inside, "closed-before-rename", f"every path to the rename has closed (flushed) the handle first ({closed_by})",
              f"flat_hash._setitem renames the temporary over the entry while the buffered handle `{h}` is still open{' (the rename sits inside `with ' + h + ':`)' if inside else ''}: between the rename and the close the live entry is an empty/truncated file", node=rn)
    for w in writes:
        wn = g.node_of(w)
        ctx.check("R1", st_, rnode in g.reach([wn]) and wn not in g.reach([rnode]), f"write-before-rename@{A.unparse(w)[:24]}", "every write to the temporary happens before the rename, none after")
    ea = [c for c in A.calls(st_.node) if A.unparse(c.func) == "self._ensure_access"]
    ctx.check("R1", st_, bool(ea) and all(A.unparse(c.args[0]) == tmp and rnode in g.reach([g.node_of(c)]) and g.node_of(c) not in g.reach([rnode]) for c in ea), "access-fixed-before-rename", "ownership, mode and mtime are fixed on the temporary, before it becomes visible")
    mt = [c for c in ea if any(k.arg == "mtime" for k in c.keywords)]
    ctx.check("R1", st_, bool(mt), "mtime-restored", "for caches keeping the checksum mtime outside the entry, the file mtime is set from the entry")
    hs = [p for p in A.parents(rn) if isinstance(p, ast.Try)]
    tmp_env = {"$tmp": opens[0][1].args[0]}
    ok = bool(hs) and any(M.has(x.body, "os.remove($$tmp)", tmp_env) and any(isinstance(s, ast.Raise) for s in x.body) for x in hs[0].handlers)
    ctx.check("R1", st_, ok, "failed-rename-cleans", "a failed rename removes the temporary and reports the failure")
    ctx.floor("R1", 8)

    # ---- R2 temporary naming vs listing --------------------------------------------------------------------
    fpv = [v for t, v, _ in A.assignments(st_.node) if A.unparse(t) == tmp]
    ctx.require(len(fpv) == 1 and isinstance(fpv[0], ast.Call), "flat_hash._setitem: temporary path expression not found")
    args = fpv[0].args
    # `$s` = the local holding the split point between the entry's directory part and its basename
    sm = M.one(st_.node, "$s = cpv.rfind('/') + 1")
    s_env = dict(sm.env) if sm else {}
    ok = M.pat("pjoin(self.location, cpv[:$s], $_)").matches(fpv[0], s_env) is not None
    ctx.check("R2", st_, ok, "temp-in-destination-dir", "the temporary lives in the entry's own directory (same filesystem: the rename is atomic)")
    prefix = A.fstring_prefix(args[-1]) if len(args) == 3 else None
    ctx.check("R2", st_, bool(prefix) and prefix.startswith(".update."), f"temp-prefix:{prefix}", f"the temporary's basename starts with {prefix!r}")
    ctx.check("R2", st_, sm is not None and M.has(args[-1], "cpv[$s:]", s_env), "temp-basename", "the temporary's basename is built from the entry's basename")
    ks = P.func(FH, "database.keys")
    loops = [n for n in A.body_walk(ks.node) if isinstance(n, ast.For)]
    ctx.require(loops, "flat_hash.keys: directory loop not found")
    lv = A.unparse(loops[0].target)
    ld = [v for t, v, _ in A.assignments(ks.node) if A.unparse(t) == A.unparse(loops[0].iter)]
    ctx.check("R2", ks, bool(ld) and dotted(ld[0].func) == "os.listdir", "iterates-listdir", f"`{lv}` ranges over bare directory entry names")
    filt = [c for c in A.calls(loops[0]) if A.call_attr(c) == "startswith" and c.args and A.try_literal(c.args[0]) == ".update."]
    ctx.check("R2", ks, len(filt) >= 1, "filter-present", "keys() has a filter for store temporaries", "flat_hash.keys no longer skips the '.update.*' temporaries of interrupted stores: a partial entry is listed as a package", node=ks.node)
    for c in filt:
        recv = A.unparse(c.func.value)
        ctx.check("R2", ks, recv == lv, f"filter-on-entry-name:{recv}", f"the filter tests the directory entry's own name `{lv}`",
                  f"flat_hash.keys tests `{recv}.startswith('.update.')`, not the directory entry's name `{lv}`: in the category/package layout the relative key is 'cat/.update.PID.pkg', so temporaries of interrupted stores are listed as packages", node=c)
        iff = [p for p in A.parents(c) if isinstance(p, ast.If)]
        ctx.check("R2", ks, bool(iff) and any(isinstance(s, ast.Continue) for s in iff[0].body) and iff[0].lineno < min((y.lineno for y in A.walk(loops[0]) if isinstance(y, (ast.Yield,))), default=10**9), "filter-skips-before-yield", "a matching name is skipped before anything is yielded")
    ys = [y for y in A.walk(loops[0]) if isinstance(y, ast.Yield)]

    def relative_key(e, depth=0):
        """`e` is <path of the directory entry>[len(self.location) + 1:], directly or through one local"""
        m = M.pat("$p[$n + 1:]").matches(e)
        if m is not None:
            return M.has(ks.node, "$n = len(self.location)", m.env) and M.has(loops[0], "$p = pjoin($_, $l)", dict(m.env, l=lv))
        if isinstance(e, ast.Name) and depth == 0:
            vs = [v for t, v, _ in A.assignments(ks.node, e.id) if A.contains_node(loops[0], t)]
            return len(vs) == 1 and relative_key(vs[0], 1)
        return False
    ctx.check("R2", ks, len(ys) == 1 and ys[0].value is not None and relative_key(ys[0].value), "yields-relative-key", "keys are paths relative to the cache location")
    ctx.floor("R2", 8)

    # ---- R3 eclass conversion guards ---------------------------------------------------------------------------
    si = P.func(CM, "base.__setitem__")
    gi = P.func(CM, "base.__getitem__")
    dec = [c for c in A.calls(si.node) if A.unparse(c.func) == "self.deconstruct_eclasses"]
    ctx.require(dec, "base.__setitem__: deconstruct_eclasses call not found")
    for c in dec:
        guards = [p for p in A.parents(c) if isinstance(p, ast.If)]
        tests = [A.unparse(p.test) for p in guards]
        memb = any(isinstance(p.test, ast.Compare) and isinstance(p.test.ops[0], ast.In) and A.is_const(p.test.left, "_eclasses_") for p in guards)
        ctx.check("R3", si, memb, f"store-guard-membership:{tests[0][:40] if tests else ''}", "the eclass map is serialised whenever the key is present (an empty map serialises to an empty string)",
                  f"base.__setitem__ serialises '_eclasses_' under `{tests[0] if tests else '?'}`: an empty (falsy) eclass map is written verbatim as '{{}}' and rejected on read", node=c)
    stn = [c for c in A.calls(si.node) if A.unparse(c.func) == "self._setitem"]
    ctx.require(len(stn) == 1, "base.__setitem__: self._setitem call not found")
    # every path on which cleanse_keys is false passes a membership-guarded deconstruct: both arms of the cleanse test have one
    arms = [n for n in A.body_walk(si.node) if isinstance(n, ast.If) and A.unparse(n.test) == "self.cleanse_keys"]
    if arms:
        in_else = any(A.contains_node(ast.Module(body=arms[0].orelse, type_ignores=[]), c) for c in dec)
        ctx.check("R3", si, in_else, "store-covers-plain-caches", "the on-disk (cleanse_keys=False) arm serialises the eclass map", "the cleanse_keys=False arm of base.__setitem__ no longer serialises '_eclasses_'", node=arms[0])
    rec = [c for c in A.calls(gi.node) if A.unparse(c.func) == "self.reconstruct_eclasses"]
    ctx.require(rec, "base.__getitem__: reconstruct_eclasses call not found")
    guards = [p for c in rec for p in A.parents(c) if isinstance(p, ast.If)]
    ctx.check("R3", gi, any(isinstance(p.test, ast.Compare) and isinstance(p.test.ops[0], ast.In) and A.is_const(p.test.left, "_eclasses_") for p in guards), "load-guard-membership", "the eclass string is parsed whenever the key is present")
    stored = stn[0].args[1] if len(stn[0].args) == 2 else None
    d_env = {"d": stored.id} if isinstance(stored, ast.Name) else {}
    ctx.check("R3", si, M.has(si.node, "$d[self._chf_key] = self._chf_serializer($d.pop('_chf_'))", d_env), "chf-stored-under-chf-key", "the validation checksum is stored under the cache's checksum key")
    ctx.check("R3", si, M.has(si.node, "if self.readonly:\n    raise $_\n...\nself._setitem(...)"), "readonly-guard", "a read-only cache refuses stores")
    ctx.floor("R3", 5)

    # ---- R4 eclass tuple layout & tables --------------------------------------------------------------------------
    de = P.func(CM, "base.deconstruct_eclasses")
    re_ = P.func(CM, "base.reconstruct_eclasses")
    wl_ = M.one(de.node, "$conv = self.eclass_chf_serializers\nfor $ec, $data in eclass_dict.items():\n    $l.append($ec)\n    $l.extend(($f($data) for $f in $conv))")
    ctx.check("R4", de, wl_ is not None, "writer-layout", "per eclass: name, then one field per checksum type")
    ctx.check("R4", de, M.has(de.node, "self.eclass_splitter.join($l)", {"l": wl_["l"]} if wl_ else {}), "writer-splitter", "fields are joined with the splitter")
    sp = M.one(re_.node, "$ed = $$s.split(self.eclass_splitter)")
    ctx.check("R4", re_, sp is not None, "reader-splitter", "the reader splits on the same splitter")
    ed_env = {"ed": sp["ed"]} if sp else {}
    ctx.check("R4", re_, M.has(re_.node, "$cf = self.eclass_chf_deserializers\n$tl = len($cf) + 1"), "reader-layout", "the reader expects name + one field per checksum type")
    ctx.check("R4", re_, M.has(re_.node, "if $ed == ['']:\n    return $_", ed_env), "empty-string-is-empty-map", "an empty eclass string reads as no eclasses")
    ser, des = P.func(CM, "base.eclass_chf_serializers"), P.func(CM, "base.eclass_chf_deserializers")

    def over_types(fn):
        return any(isinstance(n, (ast.For, ast.comprehension)) and A.unparse(n.iter) == "self.eclass_chf_types" for n in A.body_walk(fn.node))
    ctx.check("R4", ser, over_types(ser) and over_types(des), "same-type-list", "both directions iterate the same eclass_chf_types")
    gs, gd = P.func(CM, "base._get_chf_serializer"), P.func(CM, "base._get_chf_deserializer")

    def table(fn):
        out = {}
        for n in A.body_walk(fn.node):
            if isinstance(n, ast.If) and isinstance(n.test, ast.Compare) and isinstance(n.test.comparators[0], ast.Constant):
                hit = [r for r in n.body if isinstance(r, ast.Return)]
                out[n.test.comparators[0].value] = A.unparse(hit[0].value) if hit else None
        rets = [r for r in fn.node.body if isinstance(r, ast.Return)]
        out["<default>"] = A.unparse(rets[-1].value) if rets else None
        return out
    ts, tdz = table(gs), table(gd)
    ctx.check("R4", gs, set(ts) == set(tdz), f"chf-tables-same-keys:{sorted(set(ts) ^ set(tdz))}", f"serializer and deserializer tables cover the same checksum types {sorted(ts)}",
              f"serializer table covers {sorted(ts)} but deserializer covers {sorted(tdz)}", node=gd.node)
    pairs = {"eclassdir": ("self._eclassdir_serializer", "str"), "mtime": ("self._mtime_serializer", "self._mtime_deserializer"), "<default>": ("partial(self._default_serializer, chf)", "self._default_deserializer")}
    for k, (a, b) in pairs.items():
        ctx.check("R4", gs, ts.get(k) == a and tdz.get(k) == b, f"chf-pair:{k}", f"{k}: {a} / {b}", f"{k}: serializer {ts.get(k)} / deserializer {tdz.get(k)} are not the matching pair {a} / {b}")
    dd = P.func(CM, "base._default_deserializer")
    ds = P.func(CM, "base._default_serializer")
    ctx.check("R4", dd, M.has(dd.node, "int(data, 16)") and M.has(ds.node, "get_handler(chf).long2str($_)"), "hex-both-ways", "digest checksums are hex in both directions")
    ctx.floor("R4", 10)

    # ---- R5 line format ----------------------------------------------------------------------------------------------
    wl = [A.unparse(w.args[0]) for w in writes]

    def kv_line(w):
        """the write sits in `for <k>, <v> in ... values.items() ...` and writes f'{<k>}={<v>}\\n'"""
        loop = A.enclosing(w, ast.For)
        lm = M.pat("for $k, $v in $$it:\n    ...").matches(loop) if loop is not None else None
        return lm is not None and M.has(loop.iter, "values.items()") and len(w.args) == 1 and M.pat("f'{$k}={$v}\\n'").matches(w.args[0], lm.env) is not None
    ctx.check("R5", st_, all(kv_line(w) for w in writes), f"line-format:{wl[0][:20]}", "each pair is written as `key=value` + newline")
    pd = P.func(FH, "database._parse_data")
    ln = M.one(pd.node, "for $x in data:\n    $k, $v = $x.split('=', 1)")
    ctx.check("R5", pd, ln is not None, "split-first-equals", "lines are split on the FIRST '=' (values may contain '=')", "flat_hash._parse_data no longer splits on the first '=' only: values containing '=' are truncated or unpack fails", node=pd.node)
    dm = M.one(pd.node, "$d = self._cdict_kls()\n...\nreturn $d")
    pd_env = dict(ln.env if ln else {}, **(dm.env if dm else {}))
    ctx.check("R5", pd, M.has(pd.node, "$known = self._known_keys\nfor $x in data:\n    $k, $v = $$line\n    if $k in $known:\n        $d[$k] = $v", pd_env), "known-keys-only", "only known keys are returned")
    ctx.check("R5", pd, dm is not None and M.count(pd.node, "$d[self._chf_key] = self._chf_deserializer($d[self._chf_key])", dm.env) == 2 and M.has(pd.node, "$d[self._chf_key] = int(mtime)", dm.env), "chf-deserialised", "the validation checksum is deserialised (or taken from the file mtime)")
    gt = P.func(FH, "database._getitem")
    ctx.check("R5", gt, M.has(gt.node, "$data = readlines_utf8($path, True, True, True)\nif $data is None:\n    raise KeyError(cpv)"), "missing-is-keyerror", "a missing entry is a KeyError, unreadable content is CacheCorruption")
    ctx.floor("R5", 5)

    # ---- R6 an entry is replaced in one step -------------------------------------------------------------------------
    ctx.floor("R6", 1)


F = "src/pkgcore/cache/flat_hash.py"
MUTANTS = [
    {"name": "rename-before-close", "file": F, "old": "        myf.close()\n        if self._mtime_used and not self.mtime_in_entry:\n            self._ensure_access(fp, mtime=mtime)", "new": "        if self._mtime_used and not self.mtime_in_entry:\n            self._ensure_access(fp, mtime=mtime)", "rule": "R1"},
    {"name": "write-in-place", "file": F, "old": "            os.rename(fp, new_fp)", "new": "            os.rename(new_fp, fp)", "rule": "R1"},
    {"name": "temp-in-root", "file": F, "old": "        fp = pjoin(self.location, cpv[:s], f\".update.{os.getpid()}.{cpv[s:]}\")", "new": "        fp = pjoin(self.location, f\".update.{os.getpid()}.{cpv[s:]}\")", "rule": "R2"},
    {"name": "temp-prefix-changed", "file": F, "old": "f\".update.{os.getpid()}.{cpv[s:]}\"", "new": "f\".tmp.{os.getpid()}.{cpv[s:]}\"", "rule": "R2"},
    {"name": "filter-dropped", "file": F, "old": "                if l.endswith(\".cpickle\") or l.startswith(\".update.\"):", "new": "                if l.endswith(\".cpickle\"):", "rule": "R2"},
    {"name": "split-all-equals", "file": F, "old": "            k, v = x.split(\"=\", 1)", "new": "            k, v = x.split(\"=\")[:2]", "rule": "R5"},
    {"name": "eclasses-truthy", "file": "src/pkgcore/cache/__init__.py", "old": "        elif \"_eclasses_\" in values:\n            d[\"_eclasses_\"] = self.deconstruct_eclasses(d[\"_eclasses_\"])", "new": "        elif values.get(\"_eclasses_\"):\n            d[\"_eclasses_\"] = self.deconstruct_eclasses(d[\"_eclasses_\"])", "rule": "R3"},
    {"name": "deserializer-table-drift", "file": "src/pkgcore/cache/__init__.py", "old": "        if chf == \"eclassdir\":\n            return str\n        elif chf == \"mtime\":", "new": "        if chf == \"mtime\":", "rule": "R4"},
    {"name": "splitter-drift", "file": "src/pkgcore/cache/__init__.py", "old": "        eclass_data = eclass_string.strip().split(self.eclass_splitter)", "new": "        eclass_data = eclass_string.strip().split()", "rule": "R4"},
]
TWINS = [
    {"name": "with-block-closed-before-rename", "file": F, "old": "        for k, v in sorted(values.items()):\n            myf.writelines(f\"{k}={v}\\n\")\n\n        myf.close()\n", "new": "        with myf:\n            for k, v in sorted(values.items()):\n                myf.writelines(f\"{k}={v}\\n\")\n"},
]
