"""C49 — generated metadata accumulates eclass values as PMS requires (variable-set and gating agreement)."""
import ast
import re

from ..core import astutil as A
from ..core import bashlex as B
from ..core import match as M
from ..core.eapitable import EapiTables

META = {
    "technique": "variable-set table agreement across the six bash sites that together implement accumulation (protective `local`s, per-eclass `unset`, per-eclass `E_* +=`, pre-source `unset`, `local E_*`, final merge), gate-position rule (the PROPERTIES/RESTRICT members appear only under the EAPI gate; the protective locals are NOT under a depth gate), statement-order rule (implicit RDEPEND default before the eclass DEPEND is merged, tested for unset not empty), EAPI table fold for the gate option, python-side key filter",
    "level": "Decides the structural clauses: the same PMS-incremental set {IUSE, REQUIRED_USE, DEPEND, RDEPEND, PDEPEND, BDEPEND, IDEPEND} is protected, reset per eclass, collected per eclass and merged after sourcing, with PROPERTIES and RESTRICT handled identically but only under the EAPI>=8 gate at every site; every inherit call (at any depth) shields the caller's values with its own locals; INHERITED gets every sourced eclass and INHERIT the direct ones; the EAPI 0-3 implicit RDEPEND is taken from the ebuild's own DEPEND (before the eclass part is merged) and only when RDEPEND is unset; DEFINED_PHASES is '-' when no phase function exists; keys outside the EAPI's metadata keys are dropped on the Python side. Does NOT decide what bash does with concrete ebuilds.",
    "note": "",
}
META["technique"] += "; " + 'generic pack G on the anchored files (optional-flag shift, closures outliving a loop iteration, single-pass iterables consumed twice, %-templates built from data, in-place writes to class-level / memoised objects, generators mutating what they yielded, memo keys that are projections)'
DF = "data/lib/pkgcore/ebd/ebuild-default-functions.bash"
EB = "data/lib/pkgcore/ebd/ebuild.bash"
BASE = ["IUSE", "REQUIRED_USE", "DEPEND", "RDEPEND", "PDEPEND", "BDEPEND", "IDEPEND"]
GATED = ["PROPERTIES", "RESTRICT"]
GATE = "${PKGCORE_ACCUMULATE_PROPERTIES_RESTRICT}"


def collect(tree, gate=(), depth_gate=False):
    """yield (Command, gates tuple) for every simple command in a structure tree"""
    k = tree[0]
    if k == "seq":
        for ch in tree[1]:
            yield from collect(ch, gate)
    elif k == "cmd":
        yield tree[1], gate
    elif k == "group":
        yield from collect(tree[1], gate)
    elif k == "if":
        for cond, body in tree[1]:
            ctext = " ".join(" ".join(c.assigns + c.words) for c, _ in collect(cond, gate))
            yield from collect(cond, gate)
            yield from collect(body, gate + (ctext,))
        if tree[2] is not None:
            yield from collect(tree[2], gate + ("else",))
    elif k == "loop":
        yield from collect(tree[2], gate)
        yield from collect(tree[3], gate + ("loop",))
    elif k == "case":
        for pats, body in tree[2]:
            yield from collect(body, gate + ("case:" + "|".join(pats),))
    elif k == "andor":
        yield from collect(tree[1], gate)
        left = " ".join(" ".join(c.assigns + c.words) for c, _ in collect(tree[1], gate))
        yield from collect(tree[3], gate + ((tree[2] + " " + left),))


def run(ctx):
    P = ctx.program
    ctx.explanation = META["level"]
    fd = B.functions(P.bashfile(DF).src)
    fe = B.functions(P.bashfile(EB).src)
    ctx.require("inherit" in fd and "__load_ebuild" in fe, "inherit / __load_ebuild not found")
    inh, le = fd["inherit"], fe["__load_ebuild"]
    ci = list(collect(B.structure(inh.body, inh.body_line)))
    cl = list(collect(B.structure(le.body, le.body_line)))

    def names(cmds, name, flt=lambda w: True):
        """(ungated vars, gated vars, other-gated [(var, gates)]) of `name VAR...` commands"""
        ung, gat, oth = [], [], []
        for c, g in cmds:
            if c.name != name:
                continue
            ws = [w for w in c.words[1:] if not w.startswith("-") and flt(w)]
            real = tuple(x for x in g if x not in ("loop",))
            for w in ws:
                w = w.split("=")[0]
                if not real:
                    ung.append(w)
                elif real == (GATE,):
                    gat.append(w)
                else:
                    oth.append((w, real))
        return ung, gat, oth

    def accum(cmds, pat):
        ung, gat, oth = [], [], []
        for c, g in cmds:
            txt = " ".join(c.assigns + c.words)
            m = re.fullmatch(pat, txt)
            if not m:
                continue
            real = tuple(x for x in g if x not in ("loop",) and not x.startswith("&& [["))
            v = m.group(1)
            (ung if not real else gat if real == (GATE,) else oth).append(v if real in ((), (GATE,)) else (v, real))
        return ung, gat, oth

    # ---- R1 variable-set agreement --------------------------------------------------------------------
    sites = {}
    lu, lg, lo = names(ci, "local", lambda w: w in BASE + GATED)
    sites["inherit: protective locals"] = (lu, lg, lo)
    uu, ug, uo = names(ci, "unset")
    sites["inherit: per-eclass unset"] = (uu, ug, uo)
    sites["inherit: per-eclass collection"] = accum(ci, r"E_(\w+)\+=\$\{E_\1:\+ \}\$\{\1\}")
    pu, pg, po = names(cl, "unset")
    sites["__load_ebuild: pre-source unset"] = (pu, pg, po)
    eu, eg, eo = names(cl, "local", lambda w: w.startswith("E_"))
    sites["__load_ebuild: local E_*"] = ([w[2:] for w in eu], [w[2:] for w in eg], eo)
    sites["__load_ebuild: final merge"] = accum(cl, r"(\w+)\+=\$\{\1:\+ \}\$\{E_\1\}")
    for what, (ung, gat, oth) in sites.items():
        tag = what.split(": ")[1].replace(" ", "-")
        ctx.check("R1", what.split(":")[0], sorted(ung) == sorted(BASE), f"base-set@{tag}:{sorted(set(ung) ^ set(BASE))}", f"{what}: covers exactly {BASE}",
                  f"{what} covers {sorted(ung)} instead of the PMS incremental set {sorted(BASE)} (difference {sorted(set(ung) ^ set(BASE))})", node=inh.line)
        ctx.check("R1", what.split(":")[0], sorted(gat) == sorted(GATED), f"gated-set@{tag}:{sorted(gat)}", f"{what}: PROPERTIES and RESTRICT are handled under the EAPI gate and only there",
                  f"{what}: under the gate {GATE} it handles {sorted(gat)}; PROPERTIES/RESTRICT must be accumulated for EAPI >= 8 only, and consistently at every site — otherwise they become incremental for older EAPIs (a replaced eclass value reappears) or stop accumulating for EAPI 8", node=inh.line)
        ctx.check("R1", what.split(":")[0], not oth, f"no-other-gate@{tag}:{oth[:1]}", f"{what}: not conditional on anything else",
                  f"{what} is conditional on {oth[:2]}: e.g. protective locals declared only at depth 1 let a nested inherit's `unset -v` strip the outer call's locals and clobber the values assigned before the nested inherit", node=inh.line)
    ctx.floor("R1", 18)

    # ---- R2 inherit bookkeeping ----------------------------------------------------------------------------
    txt = inh.body
    ctx.check("R2", DF + ":inherit", 'local INHERIT_DEPTH=$(( ${INHERIT_DEPTH-0} + 1 ))' in txt, "depth-counter", "every call increments its own local depth")
    ctx.check("R2", DF + ":inherit", '[[ ${INHERIT_DEPTH} -eq 1 ]] && INHERIT+=" $@"' in txt, "direct-inherits", "INHERIT records the ebuild's direct inherits only")
    inhd = [(c, g) for c, g in ci if any(a.startswith("INHERITED+=") for a in c.assigns + c.words)]
    ctx.check("R2", DF + ":inherit", len(inhd) == 1 and inhd[0][1] == ("loop",) and 'INHERITED+=" ${ECLASS}"' in txt, "inherited-every-eclass", "INHERITED gets every eclass sourced, at any depth, unconditionally")
    order = [txt.find("unset -v IUSE"), txt.find('__internal_inherit "$1"'), txt.find("E_IUSE+="), txt.find("INHERITED+=")]
    ctx.check("R2", DF + ":inherit", -1 not in order and order == sorted(order), "per-eclass-order", "per eclass: reset, source, collect, record")
    lpos = txt.find("local IUSE REQUIRED_USE")
    ctx.check("R2", DF + ":inherit", -1 < lpos < txt.find("for ECLASS in"), "locals-before-loop", "the protective locals are declared before any eclass is sourced")
    ctx.floor("R2", 5)

    # ---- R3 implicit RDEPEND ---------------------------------------------------------------------------------
    lt = le.body
    imp = [(c, g) for c, g in cl if any(w.startswith("RDEPEND=${DEPEND}") for w in c.assigns + c.words)]
    ctx.require(len(imp) == 1, "__load_ebuild: implicit RDEPEND default not found")
    gates = imp[0][1]
    ctx.check("R3", EB + ":__load_ebuild", any('__safe_has "${EAPI}" 0 1 2 3' in x for x in gates), f"implicit-rdepend-eapis:{gates[:1]}", "the implicit RDEPEND applies to EAPI 0-3 only")
    ctx.check("R3", EB + ":__load_ebuild", any('${RDEPEND-unset} == "unset"' in x for x in gates), "implicit-rdepend-unset-only", "and only when RDEPEND is unset (an empty RDEPEND is respected)")
    p_imp, p_dep = lt.find("RDEPEND=${DEPEND}"), lt.find("DEPEND+=${DEPEND:+ }${E_DEPEND}")
    p_src = lt.find('__qa_invoke source "${EBUILD}"')
    ctx.check("R3", EB + ":__load_ebuild", -1 < p_src < p_imp < p_dep, "implicit-rdepend-before-eclass-depend", "the implicit RDEPEND is taken after sourcing but BEFORE the eclass DEPEND is merged: only the ebuild's own DEPEND counts",
              "the implicit `RDEPEND=${DEPEND}` runs after `DEPEND+=...${E_DEPEND}`: DEPEND values set by eclasses leak into the implicit RDEPEND, which PMS forbids", node=le.line)
    p_rd = lt.find("RDEPEND+=${RDEPEND:+ }${E_RDEPEND}")
    ctx.check("R3", EB + ":__load_ebuild", p_imp < p_rd, "implicit-rdepend-before-eclass-rdepend", "and before the eclass RDEPEND is merged (else an eclass setting RDEPEND would mask the ebuild leaving it unset)")
    ctx.floor("R3", 4)

    # ---- R4 gate option ------------------------------------------------------------------------------------------
    T = EapiTables(P)
    fe_ = T.first_enabled("accumulate_properties_restrict")
    ctx.check("R4", "pkgcore.ebuild.eapi", fe_ == "8", f"gate-first-enabled:{fe_}", "accumulate_properties_restrict is enabled from EAPI 8 on", f"accumulate_properties_restrict is first enabled in EAPI {fe_}; PMS makes PROPERTIES/RESTRICT incremental from EAPI 8", node=None)
    em = P.module("pkgcore.ebuild.eapi")
    ceo = em.assigns.get("common_env_optionals")
    ctx.check("R4", "pkgcore.ebuild.eapi", ceo is not None and "accumulate_properties_restrict" in (A.try_literal(ceo, default=()) or ()), "gate-exported", "the option is exported to the daemon (PKGCORE_ACCUMULATE_PROPERTIES_RESTRICT)")
    ee = P.func("pkgcore.ebuild.eapi", "EAPI.ebd_env")
    ctx.check("R4", ee, M.has(ee.node, "for $k in $_:\n    $d[f'PKGCORE_{$k.upper()}'] = str(getattr(self.options, $k)).lower()"), "gate-spelling", "exported as PKGCORE_<OPTION> = true/false (what `if ${PKGCORE_...}` executes)")
    ctx.floor("R4", 3)

    # ---- R5 phases / python side -------------------------------------------------------------------------------------
    dm = fe["__dump_metadata_keys"].body
    ctx.check("R5", EB + ":__dump_metadata_keys", '__is_function "${phase}" && phases+=( ${phase} )' in dm and '"key DEFINED_PHASES=${phases[@]:--}"' in dm and 'for phase in "${PKGCORE_EBUILD_PHASES[@]}"' in dm, "defined-phases", "DEFINED_PHASES lists the phase functions that exist, '-' when none")
    ctx.check("R5", EB + ":__dump_metadata_keys", '[[ ${!key:-unset} != "unset" ]]' in dm and 'for key in "${PKGCORE_METADATA_KEYS[@]}"' in dm, "keys-dumped", "every non-empty metadata key of the EAPI is reported")
    um = P.func("pkgcore.ebuild.ebuild_src", "package_factory._update_metadata")
    # locals are bound by role: the dict the daemon returned, the EAPI object it names, the set of keys to delete
    mk = M.one(um.node, "$mydata = $_.get_keys(pkg, self._ecache)")
    me = mk and M.one(um.node, "$eapi = get_eapi($mydata.get('EAPI', $_))", mk.env)
    ctx.check("R5", um, bool(me) and M.has(um.node, "$wipes = set($mydata)\n$wipes.difference_update($eapi.metadata_keys)\nfor $x in $wipes:\n    del $mydata[$x]", me.env),
              "foreign-keys-dropped", "keys outside the EAPI's metadata keys are dropped")
    ctx.check("R5", um, bool(mk) and M.has(um.node, "if $mydata['DEFINED_PHASES'] != '-':\n    $phases.discard(None)", mk.env), "phases-normalised", "phase function names are mapped to phase names of the EAPI; unknown ones are discarded")
    ctx.floor("R5", 4)


MUTANTS = [
    {"name": "locals-only-at-depth-1", "file": DF, "old": "	local IUSE REQUIRED_USE DEPEND RDEPEND PDEPEND BDEPEND IDEPEND\n	if ${PKGCORE_ACCUMULATE_PROPERTIES_RESTRICT}; then\n		local PROPERTIES RESTRICT\n	fi\n", "new": "	if [[ ${INHERIT_DEPTH} -eq 1 ]]; then\n		local IUSE REQUIRED_USE DEPEND RDEPEND PDEPEND BDEPEND IDEPEND\n		if ${PKGCORE_ACCUMULATE_PROPERTIES_RESTRICT}; then\n			local PROPERTIES RESTRICT\n		fi\n	fi\n", "rule": "R1"},
    {"name": "idepend-not-collected", "file": DF, "old": "		[[ -n ${IDEPEND}      ]] && E_IDEPEND+=${E_IDEPEND:+ }${IDEPEND}\n", "new": "", "rule": "R1"},
    {"name": "bdepend-not-reset", "file": DF, "old": "		unset -v IUSE REQUIRED_USE DEPEND RDEPEND PDEPEND BDEPEND IDEPEND\n", "new": "		unset -v IUSE REQUIRED_USE DEPEND RDEPEND PDEPEND IDEPEND\n", "rule": "R1"},
    {"name": "restrict-collected-ungated", "file": DF, "old": "		if ${PKGCORE_ACCUMULATE_PROPERTIES_RESTRICT}; then\n			[[ -n ${PROPERTIES} ]] && E_PROPERTIES+=${E_PROPERTIES:+ }${PROPERTIES}\n			[[ -n ${RESTRICT}   ]] && E_RESTRICT+=${E_RESTRICT:+ }${RESTRICT}\n		fi\n", "new": "		[[ -n ${PROPERTIES} ]] && E_PROPERTIES+=${E_PROPERTIES:+ }${PROPERTIES}\n		[[ -n ${RESTRICT}   ]] && E_RESTRICT+=${E_RESTRICT:+ }${RESTRICT}\n", "rule": "R1"},
    {"name": "merge-drops-pdepend", "file": EB, "old": "	PDEPEND+=${PDEPEND:+ }${E_PDEPEND}\n", "new": "", "rule": "R1"},
    {"name": "inherited-only-direct", "file": DF, "old": "		INHERITED+=\" ${ECLASS}\"\n", "new": "		[[ ${INHERIT_DEPTH} -eq 1 ]] && INHERITED+=\" ${ECLASS}\"\n", "rule": "R2"},
    {"name": "implicit-rdepend-after-merge", "file": EB, "old": "	if __safe_has \"${EAPI}\" 0 1 2 3; then\n		if [[ ${RDEPEND-unset} == \"unset\" ]]; then\n			export RDEPEND=${DEPEND}\n		fi\n	fi\n\n	# add in dependency info from eclasses\n	IUSE+=${IUSE:+ }${E_IUSE}\n	REQUIRED_USE+=${REQUIRED_USE:+ }${E_REQUIRED_USE}\n	DEPEND+=${DEPEND:+ }${E_DEPEND}\n", "new": "	# add in dependency info from eclasses\n	IUSE+=${IUSE:+ }${E_IUSE}\n	REQUIRED_USE+=${REQUIRED_USE:+ }${E_REQUIRED_USE}\n	DEPEND+=${DEPEND:+ }${E_DEPEND}\n	if __safe_has \"${EAPI}\" 0 1 2 3; then\n		if [[ ${RDEPEND-unset} == \"unset\" ]]; then\n			export RDEPEND=${DEPEND}\n		fi\n	fi\n", "rule": "R3"},
    {"name": "implicit-rdepend-on-empty", "file": EB, "old": "		if [[ ${RDEPEND-unset} == \"unset\" ]]; then", "new": "		if [[ -z ${RDEPEND} ]]; then", "rule": "R3"},
    {"name": "gate-enabled-in-7", "file": "src/pkgcore/ebuild/eapi.py", "old": "            \"has_desttree\": False,\n", "new": "            \"has_desttree\": False,\n            \"accumulate_properties_restrict\": True,\n", "rule": "R4"},
]
TWINS = []
