"""C24 — installed-package CONTENTS files round-trip (structural clauses)."""
import ast

from ..core import generic as G
from ..core import astutil as A
from ..core import atomic
from ..core import match as M
from ..core.model import dotted

META = {
    "technique": "writer/reader record-table agreement (tags, field counts and positions, separator, numeric codecs) extracted from ContentsFile._write and _iter_contents; free-form-field ambiguity rule; atomic-replace typestate of the write handle",
    "level": "Decides: (R1) the five record tags written (obj, sym, dir, dev, fif) equal the tags the reader accepts; records are joined with a single space and split on exactly a single space (so runs of blanks inside paths survive); per tag the reader's slices address the fields the writer emits (obj: path = fields 1..-3, md5 = -2 in hex via long2str/int(...,16), mtime = -1; sym: path before the '->' token, target after it, mtime last); mtimes are written as str(int(mtime)) (truncated, integral) and read with int(); (R2) a record may contain at most one free-form field delimited by fixed counts from both ends; (R3) the file is replaced through AtomicWriteFile: close() only on the exception-free path after the last write, the temporary dropped otherwise. Does NOT decide entry equality for concrete sets.",
    "note": "the CONTENTS format is shared with portage; snakeoil AtomicWriteFile renames on close() and discards when finalised unclosed",
}
META["technique"] += "; " + 'must-pass rule: a reusable file object is truncated before it is handed out for writing'
META["level"] += " Added after the second round of independent changes: " + '(R4) _get_fd(write=True) never returns a data_source file object that was only rewound.'
META["technique"] += "; " + 'generic pack G on the anchored files (optional-flag shift, closures outliving a loop iteration, single-pass iterables consumed twice, %-templates built from data, in-place writes to class-level / memoised objects, generators mutating what they yielded, memo keys that are projections)'
MOD = "pkgcore.vdb.contents"
TAGS = {"obj", "sym", "dir", "dev", "fif"}


class _Fld:
    """one field of a written record: the expression, and the format spec when it sits in an f-string"""

    def __init__(self, node, spec=None):
        self.node, self.spec = node, spec
        self.text = A.unparse(node) + (":" + spec if spec is not None else "")

    def attr(self, *names):
        return self.spec is None and isinstance(self.node, ast.Attribute) and self.node.attr in names

    def arrow(self):
        return isinstance(self.node, ast.Constant) and self.node.value == "->"

    def has(self, pattern, env=None):
        return self.spec is None and M.pat(pattern).matches(self.node, env) is not None

    def mentions(self, attr):
        return any(isinstance(x, ast.Attribute) and x.attr == attr for x in ast.walk(self.node))


def _effective(stmts):
    """statements without bare constant expressions (docstrings, no-op lines)"""
    return [s for s in stmts if not (isinstance(s, ast.Expr) and isinstance(s.value, ast.Constant))]


def run(ctx):
    P = ctx.program
    ctx.explanation = META["level"]
    w = P.func(MOD, "ContentsFile._write")
    r = P.func(MOD, "ContentsFile._iter_contents")
    # ---- writer table -----------------------------------------------------
    # locals are bound by role: the handle is what self._get_fd(True) returns, the record is what is written to
    # it, the entry is the variable of the loop that holds the write
    hm = M.one(w.node, "$h = self._get_fd(True)")
    ctx.require(hm is not None, "ContentsFile._write: write handle not found")
    hname = hm["h"]
    wr = [c for c in A.calls(w.node) if M.pat("$h.write(...)").matches(c, hm.env)]
    loops = [n for n in A.body_walk(w.node) if isinstance(n, ast.For)]
    ctx.require(loops, "ContentsFile._write: entry loop not found")
    loop = next((l for l in loops if any(A.contains_node(l, c) for c in wr)), loops[0])
    line_w = M.pat("$h.write($rec + '\\n')").matches(wr[0], hm.env) if len(wr) == 1 else None
    if line_w is not None:
        recs = {line_w["rec"]}
    else:  # the write changed shape: still find the record variable(s) so that the table is decided
        recs = {n.id for c in wr for a in c.args for n in ast.walk(a) if isinstance(n, ast.Name)}
    EW = {"e": A.unparse(loop.target)} if isinstance(loop.target, ast.Name) else {}
    mh = M.one(w.node, "$mh = get_handler('md5')")
    if mh is not None:
        EW["mh"] = mh["mh"]
    wt = {}
    for t, v, st in A.assignments(w.node):
        if not (isinstance(t, ast.Name) and t.id in recs and A.contains_node(loop, st)):
            continue
        if isinstance(v, ast.Call) and isinstance(v.func, ast.Attribute) and v.func.attr == "join" and isinstance(v.func.value, ast.Constant):
            sep = v.func.value.value
            elts = v.args[0].elts if isinstance(v.args[0], (ast.Tuple, ast.List)) else None
            ctx.require(elts is not None and isinstance(elts[0], ast.Constant), f"_write: record `{A.unparse(v)[:50]}` not a literal field tuple")
            wt[elts[0].value] = (sep, [_Fld(e) for e in elts[1:]])
        elif isinstance(v, ast.BinOp) and isinstance(v.op, ast.Add) and isinstance(v.left, ast.Constant):
            tag = v.left.value
            wt[tag.strip()] = (tag[len(tag.strip()):], [_Fld(v.right)])
        elif isinstance(v, ast.JoinedStr):
            lits = [x.value for x in v.values if isinstance(x, ast.Constant)]
            tag = lits[0].split(" ")[0] if lits else "?"
            fields = [_Fld(x.value, A.unparse(x.format_spec).strip("'f\"") if x.format_spec is not None else None) for x in v.values if isinstance(x, ast.FormattedValue)]
            wt[tag] = (" ", fields + ([_Fld(ast.Constant("->"))] if any("->" in l for l in lits) else []))
    ctx.check("R1", w, set(wt) == TAGS, "writer-tags:" + ",".join(sorted(wt)), "the writer emits obj, sym, dir, dev and fif records", f"writer tags are {sorted(wt)}")
    # ---- reader table --------------------------------------------------------
    lm = M.one(r.node, "for $line in self._get_fd():\n    ...")
    ctx.require(lm is not None, "_iter_contents: loop over the lines of the file not found")
    sp = [c for c in A.calls(lm.node) if M.pat("$line.split(...)").matches(c, lm.env)]
    ctx.require(len(sp) == 1, "_iter_contents: line split not found")
    sv = [t.id for t, v, _ in A.assignments(r.node) if v is sp[0] and isinstance(t, ast.Name)]
    ctx.require(len(sv) == 1, "_iter_contents: the split line is not bound to a variable")
    ER = {"s": sv[0]}
    tag_test = M.pat("$s[0]")

    def on_tag(test):
        return isinstance(test, ast.Compare) and tag_test.matches(test.left, ER) is not None

    rt = set()
    for n in A.body_walk(r.node):
        if on_tag(n):
            v = A.try_literal(n.comparators[0])
            rt |= set(v) if isinstance(v, (tuple, list, set)) else {v}
    ctx.check("R1", r, rt == TAGS, "reader-tags:" + ",".join(sorted(map(str, rt))), "the reader accepts exactly the tags the writer emits", f"reader tags are {sorted(map(str, rt))}")
    # the dispatch on the tag is an if/elif chain whose final else raises
    chains = [n for n in A.walk_body(lm.node.body) if isinstance(n, ast.If) and on_tag(n.test) and not (isinstance(getattr(n, "_parent", None), ast.If) and on_tag(n._parent.test))]
    rejects = False
    for c in chains:
        while len(_effective(c.orelse)) == 1 and isinstance(_effective(c.orelse)[0], ast.If) and on_tag(_effective(c.orelse)[0].test):
            c = _effective(c.orelse)[0]
        rejects = rejects or any(isinstance(x, ast.Raise) for x in c.orelse)
    ctx.check("R1", r, len(chains) == 1 and rejects, "reader-rejects-unknown", "an unknown record tag raises")
    # separator
    seps = {sep for sep, _ in wt.values()}
    ctx.check("R1", w, seps == {" "}, "writer-separator", "fields are joined with a single space", f"writer separators {seps}")
    ctx.check("R1", r, len(sp[0].args) == 1 and A.try_literal(sp[0].args[0]) == " ", "reader-separator",
              "the reader splits on exactly one space (re-joining with ' ' restores runs of blanks inside a path)",
              f"the reader splits with `{A.unparse(sp[0])}`: whitespace runs, tabs and non-breaking spaces inside a path or symlink target collapse to a single space when the fields are re-joined", node=sp[0])
    joins = [c for c in A.calls(r.node) if A.call_attr(c) == "join"]
    ctx.check("R1", r, bool(joins) and all(A.try_literal(c.func.value) == " " for c in joins), "reader-rejoin", "path fields are re-joined with the same single space")
    # per-tag positions
    pm = M.one(r.node, "$p = $s.index('->')", ER)
    if pm is not None:
        ER = dict(pm.env)
    slices = sorted({A.unparse(n) for n in A.body_walk(r.node) if isinstance(n, ast.Subscript) and isinstance(n.value, ast.Name) and n.value.id == ER["s"]})
    need = ["$s[0]", "$s[1:]", "$s[1:-2]", "$s[-2]", "$s[-1]", "$s[1:$p]", "$s[$p + 1:-1]"]
    ctx.check("R1", r, pm is not None and all(M.has(r.node, x, ER) for x in need), "reader-slices", "the reader addresses: dir/dev/fif path s[1:], obj path s[1:-2], md5 s[-2], mtime s[-1], sym path s[1:p], target s[p+1:-1]", f"reader slices are {slices}")
    if "obj" in wt:
        f = wt["obj"][1]
        ctx.check("R1", w, len(f) == 3 and f[0].has("$e.location", EW) and mh is not None and f[1].has("$mh.long2str($e.chksums['md5'])", EW), "obj-fields", "obj record = location, md5 (long2str), mtime", f"obj fields {[x.text for x in f]}")
        ctx.check("R1", w, f[-1].has("str(int($e.mtime))", EW), "obj-mtime-integral", "a file's mtime is written truncated to an integer: str(int(mtime))",
                  f"obj mtime is written as `{f[-1].text}`: a fractional mtime is rounded (or written as a float) and no longer reads back as int(mtime)")
    if "sym" in wt:
        f = wt["sym"][1]
        ok = len(f) == 4 and f[0].has("$e.location", EW) and f[1].arrow() and f[2].has("$e.target", EW)
        ok2 = any(x.arrow() for x in f) and any(x.has("$e.location", EW) for x in f) and any(x.has("$e.target", EW) for x in f)
        ctx.check("R1", w, ok or ok2, "sym-fields", "sym record = location, '->', target, mtime", f"sym fields {[x.text for x in f]}")
        mt = [x for x in f if x.mentions("mtime")]
        ctx.check("R1", w, len(mt) == 1 and mt[0].has("str(int($e.mtime))", EW), "sym-mtime-integral", "a symlink's mtime is written truncated to an integer", f"sym mtime is written as {[x.text for x in mt]}")
    hexmd5 = M.count(r.node, "int($s[-2], 16)", ER)
    intmt = sum(1 for c in A.calls(r.node) for k in c.keywords if k.arg == "mtime" and M.pat("int($s[-1])").matches(k.value, ER))
    ctx.check("R1", r, hexmd5 >= 1 and intmt == 2, "reader-codecs", "md5 is read as hex, mtime as int, for files and symlinks")
    ctx.check("R1", r, pm is not None, "sym-separator-token", "the symlink record is split at the '->' token")
    ctx.check("R1", w, any(isinstance(n, ast.Call) and dotted(n.func) == "sorted" for n in ast.walk(loop.iter)), "sorted-output", "entries are written in sorted order")
    ctx.check("R1", w, line_w is not None and A.contains_node(loop, wr[0]), "one-line-per-record", "each record is one newline-terminated line")
    ctx.floor("R1", 14)

    # ---- R2 free-form fields ---------------------------------------------------------------
    for tag, (sep, fields) in sorted(wt.items()):
        free = [x.text for x in fields if x.attr("location", "target")]
        ctx.check("R2", w, len(free) <= 1, f"free-form-fields:{tag}={len(free)}", f"`{tag}` records carry at most one free-form field",
                  f"`{tag}` records carry {len(free)} free-form fields ({free}) separated only by the token '->', which the reader locates by its FIRST occurrence: a location containing ' -> ' reads back as a different path and target")
    ctx.floor("R2", 5)

    # ---- R3 atomic replace -----------------------------------------------------------------------
    hs = [t.id for t, v, _ in A.assignments(w.node) if isinstance(t, ast.Name) and M.pat("self._get_fd(True)").matches(v)]
    ctx.require(hs, "ContentsFile._write: write handle not found")
    atomic.check(ctx, "R3", w, hs, what="CONTENTS")
    gf = P.func(MOD, "ContentsFile._get_fd")
    aw = [c for c in A.calls(gf.node) if dotted(c.func) == "AtomicWriteFile"]
    guard = [p for c in aw for p in A.parents(c) if isinstance(p, ast.If) and A.unparse(p.test) == "write"]
    ctx.check("R3", gf, len(aw) == 1 and A.unparse(aw[0].args[0]) == "self._source" and bool(guard), "write-handle-is-atomic", "a path-backed CONTENTS is written through AtomicWriteFile(self._source)")
    ctx.floor("R3", 4)

    # ---- R4 a reusable file object handed out for writing starts empty -------------------------------------------------
    from ..core.cfg import cfg_of
    wp = gf.params()[1] if len(gf.params()) > 1 else None
    g4 = cfg_of(gf.node)
    reuse = [(t.id, st) for t, v, st in A.assignments(gf.node) if isinstance(t, ast.Name) and isinstance(v, ast.Call) and A.call_attr(v) in ("text_fileobj", "bytes_fileobj")]
    ctx.check("R4", gf, bool(reuse) and wp is not None, "datasource-handle-present", "a data_source-backed CONTENTS hands out the source's own file object")
    for name, st in reuse:
        trunc = [g4.node_of(c) for c in A.calls(gf.node) if A.unparse(c.func) == f"{name}.truncate"]
        rets = [g4.node_of(r) for r in A.returns(gf.node) if isinstance(r.value, ast.Name) and r.value.id == name]

        def writing(a_, b_, lab, _wp=wp):
            # follow only the branches taken when the handle is requested for writing
            if a_.ast is not None and isinstance(a_.ast, ast.If) and isinstance(a_.ast.test, ast.Name) and a_.ast.test.id == _wp:
                return lab is True
            return True
        path = g4.find_path([g4.node_of(st)], lambda n: n in rets, avoid=lambda n: n in trunc, edge_ok=writing)
        ctx.check("R4", gf, path is None and bool(rets), f"write-handle-truncated:{name}",
                  "the file object of a data_source is truncated before it is returned for writing",
                  f"_get_fd(write=True) returns the data_source's file object `{name}` only rewound, not truncated ({g4.fmt_path(path, gf.relpath) if path else ''}): "
                  f"when the new CONTENTS is shorter than the old one the tail of the old text survives and stale or torn entries are read back", node=st)
    ctx.floor("R4", 2)

    # ---- R5 flush always rewrites the file -----------------------------------------------------------------------------
    G.always_reaches(ctx, "R5", MOD, "ContentsFile.flush", lambda c: A.unparse(c.func) == "self._write", "the rewrite of CONTENTS (`self._write()`)", "flush-always-writes")
    ctx.floor("R5", 2)

    # ---- R6 records are framed by '\n' only, on both sides ----------------------------------------------------------------
    for q in ("ContentsFile._get_fd", "ContentsFile._iter_contents"):
        fq = P.func(MOD, q)
        sl = [c for c in A.calls(fq.node) if A.call_attr(c) == "splitlines"]
        ctx.check("R6", fq, not sl, f"newline-only-framing:{q}", f"{q} frames records the way the writer does (one per '\\n')",
                  f"{q} splits the file with str.splitlines(), which also breaks on \\x0b, \\x0c, \\x1c-\\x1e, \\x85, U+2028, U+2029; the writer ends a record with '\\n' only, so a path "
                  f"containing one of those characters is written as one record and read back as two", node=sl[0] if sl else None)
    ctx.floor("R6", 2)


MUTANTS = [
    {"name": "split-whitespace", "file": "src/pkgcore/vdb/contents.py", "old": "            s = line.split(\" \")", "new": "            s = line.split()", "rule": "R1"},
    {"name": "mtime-rounded", "file": "src/pkgcore/vdb/contents.py", "old": "                            str(int(obj.mtime)),\n                        )\n                    )\n\n                elif obj.is_sym", "new": "                            str(round(obj.mtime)),\n                        )\n                    )\n\n                elif obj.is_sym", "rule": "R1"},
    {"name": "close-in-finally", "file": "src/pkgcore/vdb/contents.py", "old": "                outfile.write(s + \"\\n\")\n            outfile.close()\n\n        finally:\n            # if atomic, it forces the update to be wiped.\n            del outfile", "new": "                outfile.write(s + \"\\n\")\n\n        finally:\n            if outfile is not None:\n                outfile.close()", "rule": "R3"},
    {"name": "reader-md5-position", "file": "src/pkgcore/vdb/contents.py", "old": "                path = \" \".join(s[1:-2])", "new": "                path = \" \".join(s[1:-1])", "rule": "R1"},
    {"name": "writer-drops-fif", "file": "src/pkgcore/vdb/contents.py", "old": "                elif obj.is_fifo:\n                    s = \"fif \" + obj.location\n", "new": "                elif obj.is_fifo:\n                    s = \"fifo \" + obj.location\n", "rule": "R1"},
    {"name": "non-atomic-handle", "file": "src/pkgcore/vdb/contents.py", "old": "                return AtomicWriteFile(\n                    self._source,\n                    uid=os_data.root_uid,\n                    gid=os_data.root_gid,\n                    perms=0o644,\n                )", "new": "                return open(self._source, \"w\")", "rule": "R3"},
]
TWINS = []
