"""C46 — distfile cleaning never deletes a distfile that must be kept."""
import ast

from ..core import astutil as A
from ..core import match as M
from ..core import boolx
from ..core.model import dotted

META = {
    "technique": "set-algebra shape of the removal list (targets minus the union of all protected sets, filtered, nothing else feeds the removal), option-implication rule by propositional evaluation of the scan gates (each protection option alone forces its scan, whatever the other options), receiver rule for distfile reads on tree packages (the USE-unconditional raw package), late-binding closure rule for the file filters (no lambda captures a loop variable), pretend rule in the removal runner",
    "level": "Decides the structural clauses: what is removed = (listed distfiles ∩ targets) − (installed ∪ existing ∪ excluded ∪ fetch-restricted), then the file filters; --installed alone fills the installed set from ALL installed repos; --exists alone and --fetch-restricted alone each force the full tree scan, with or without targets; tree packages' distfiles are read USE-unconditionally; the age and size filters each test their own attribute against their own limit; --pretend removes nothing. Does NOT decide the name-based target selection heuristics.",
    "note": "",
}
META["technique"] += "; " + 'generic pack G on the anchored files (optional-flag shift, closures outliving a loop iteration, single-pass iterables consumed twice, %-templates built from data, in-place writes to class-level / memoised objects, generators mutating what they yielded, memo keys that are projections)'
MOD = "pkgcore.scripts.pclean"


def run(ctx):
    P = ctx.program
    ctx.explanation = META["level"]
    dv = P.func(MOD, "_dist_validate_args")
    t = A.unparse(dv.node)
    # ---- R1 removal algebra -------------------------------------------------------------------------
    # roles: the protected sets are the locals initialised `set()` that are filled from `<pkg>.distfiles`
    def from_distfiles(e):
        if any(isinstance(n, ast.Attribute) and n.attr == "distfiles" for n in A.walk(e)):
            return True
        if isinstance(e, ast.Name):
            return any(from_distfiles(v) for t_, v, _ in A.assignments(dv.node, e.id) if not (isinstance(v, ast.Name) and v.id == e.id))
        return False

    def is_distfiles_fill(c):
        return A.call_attr(c) == "update" and isinstance(c.func.value, ast.Name) and c.args and from_distfiles(c.args[0])
    rp = M.one(dv.node, "$repo = namespace.repo")
    ctx.require(rp is not None, "_dist_validate_args: repository variable not found")
    repov = rp["repo"]
    init_sets = {t_.id for t_, v, _ in A.assignments(dv.node) if isinstance(t_, ast.Name) and A.unparse(v) == "set()"}
    sub = M.one(dv.node, "$tf.difference_update($sv)")
    ctx.require(sub is not None, "_dist_validate_args: subtraction of the protected files not found")
    tfv, svv = sub["tf"], sub["sv"]
    sv = [v for t_, v, _ in A.assignments(dv.node, svv)]
    ctx.require(len(sv) == 1, "_dist_validate_args: union of the protected sets not found")
    parts = set(A.names_in(sv[0]))
    fills = [c for c in A.calls(dv.node) if is_distfiles_fill(c) and c.func.value.id in init_sets and c.func.value.id != tfv]
    sets = {c.func.value.id for c in fills}

    def role_of(name):
        """installed / restricted / excludes / exists — decided by where the set is filled"""
        for c in fills:
            if c.func.value.id != name:
                continue
            loops = [A.unparse(p.iter) for p in A.parents(c) if isinstance(p, ast.For)]
            gates_ = [A.unparse(p.test) for p in A.parents(c) if isinstance(p, ast.If)]
            if any("all_installed_repos" in l for l in loops):
                return "installed"
            if any("'fetch' in" in g and ".restrict" in g for g in gates_):
                return "restricted"
            if any("exclude_restrict" in l for l in loops):
                return "excludes"
        return "exists"
    roles = {}
    for n_ in sorted(sets):
        roles.setdefault(role_of(n_), []).append(n_)
    ctx.check("R1", dv, sorted(roles) == ["excludes", "exists", "installed", "restricted"] and all(len(v) == 1 for v in roles.values()) and parts == sets, f"saving-is-union-of-all:{sorted(sets - parts)}", "every protected set (installed, existing, excluded, fetch-restricted) takes part in the union that is subtracted",
              f"the subtracted union is built from {sorted(parts)} but the protected sets are {sorted(sets)} (roles {sorted(roles)}): {sorted(sets - parts)} no longer protect anything", node=sv[0])
    R = {k: v[0] for k, v in roles.items() if v}
    ops = {type(n.op).__name__ for n in A.walk(sv[0]) if isinstance(n, ast.BinOp)}
    ctx.check("R1", dv, ops == {"BitOr"}, f"saving-is-union:{sorted(ops)}", "the protected sets are united")
    du = [sub.node]
    ctx.check("R1", dv, all(c.lineno < du[0].lineno for c in fills), "protected-subtracted-last", "the protected files are subtracted after every protected set is complete")
    lst = M.one(dv.node, "$dd = namespace.domain.distdir\n...\n$all = {os.path.basename($f) for $f in listdir_files($dd)}")
    cand = M.one(dv.node, f"$tg = (pjoin($dd, $g) for $g in sorted($all.intersection({tfv})))", lst.env if lst else None) if lst else None
    ctx.check("R1", dv, cand is not None and cand.node.lineno > du[0].lineno, "only-listed-targets", "only files listed in the distdir AND targeted (after the subtraction) are candidates")
    rmm = M.one(dv.node, "$rf = partial(os.remove)\nnamespace.remove = (($rf, $h) for $h in filter(namespace.file_filters.run, $tg))", {"tg": cand["tg"]} if cand else None)
    rm = [(t_, v) for t_, v, _ in A.assignments(dv.node) if A.unparse(t_) == "namespace.remove"]
    ctx.check("R1", dv, len(rm) == 1 and rmm is not None, "filters-applied", "the removal list is the candidates that pass the file filters, nothing else")
    ctx.check("R1", dv, lst is not None and M.has(dv.node, f"{tfv} = $all", lst.env), "untargeted-means-all", "without targets every listed distfile is a candidate")
    ctx.floor("R1", 6)

    # ---- R2 option implication -----------------------------------------------------------------------------
    def fill_sites(role):
        return [c for c in fills if c.func.value.id == R.get(role)]

    def gate_of(call):
        return [p.test for p in A.parents(call) if isinstance(p, ast.If)]

    inst = fill_sites("installed")
    ctx.check("R2", dv, len(inst) == 1 and [A.unparse(g) for g in gate_of(inst[0])] == ["namespace.exclude_installed"] and any(isinstance(p, ast.For) and A.unparse(p.iter) == "namespace.domain.all_installed_repos" for p in A.parents(inst[0])), "installed-option", "--installed fills the installed set from all installed repos, under that option alone")
    scan = [n for n in A.body_walk(dv.node) if isinstance(n, ast.For) and A.unparse(n.iter) == repov]
    ctx.require(len(scan) == 1, "_dist_validate_args: full tree scan not found")
    gates = [p.test for p in A.parents(scan[0]) if isinstance(p, ast.If)]
    ctx.require(len(gates) == 1, "_dist_validate_args: gate of the full tree scan not found")
    gate = gates[0]
    for opt in ("namespace.exclude_exists", "namespace.exclude_fetch_restricted"):
        ks = boolx.atoms(gate)
        key = [k for k in ks if k == opt]
        forced = boolx.forced_outcome(gate, {opt: True}) if key else None
        ctx.check("R2", dv, forced is True, f"option-forces-scan:{opt.split('.')[-1]}", f"`{opt.split('.')[-1]}` alone forces the full tree scan, whatever the other options (targets included)",
                  f"the full tree scan runs under `{A.unparse(gate)}`: with `{opt.split('.')[-1]}` set it can still be skipped (e.g. when targets/exclusions are given), and the targeted branch only records the targeted packages' files — {'fetch-restricted distfiles are' if 'fetch' in opt else 'distfiles of other existing ebuilds picked up by the name based selection are'} no longer protected", node=scan[0])
    ex = [c for c in fill_sites("exists") if A.contains_node(scan[0], c)]
    rs = [c for c in fill_sites("restricted")]
    pkgv = A.unparse(scan[0].target)
    ctx.check("R2", dv, len(ex) == 1 and not [g for g in gate_of(ex[0]) if g is not gate], "scan-records-existing", "the scan records every tree package's distfiles as existing")
    ctx.check("R2", dv, len(rs) == 1 and A.contains_node(scan[0], rs[0]) and [A.unparse(g) for g in gate_of(rs[0]) if g is not gate] == [f"'fetch' in {pkgv}.restrict"], "scan-records-fetch-restricted", "and those of fetch-restricted packages as restricted")
    exc = fill_sites("excludes")
    ctx.check("R2", dv, len(exc) == 1 and [A.unparse(g) for g in gate_of(exc[0])] == ["namespace.exclude_restrict"] and any(isinstance(p, ast.For) and M.pat(f"{repov}.itermatch(namespace.exclude_restrict, ...)").matches(p.iter) for p in A.parents(exc[0])), "exclusion-patterns", "exclusion patterns protect the files of every matching package")
    ctx.floor("R2", 6)

    # ---- R3 raw distfiles ---------------------------------------------------------------------------------------
    n = 0
    for node in A.walk(dv.node):
        if isinstance(node, ast.Attribute) and node.attr == "distfiles":
            loop = next((p for p in A.parents(node) if isinstance(p, ast.For)), None)
            src = A.unparse(loop.iter) if loop is not None else ""
            if "all_installed_repos" in src:
                continue
            n += 1
            recv = A.unparse(node.value)
            lv = A.unparse(loop.target) if loop is not None else "pkg"
            ctx.check("R3", dv, recv == f"getattr({lv}, '_raw_pkg', {lv})", f"raw-distfiles@{src[:30]}:{recv[:20]}", f"tree package distfiles (loop over `{src[:40]}`) are read from the raw, USE-unconditional package",
                      f"in the loop over `{src[:50]}` distfiles are read from `{recv}`: a USE-configured wrapper evaluates SRC_URI against the current USE flags, so distfiles in disabled USE-conditional branches are not recorded and get deleted", node=node)
    ctx.check("R3", dv, n >= 4, f"tree-distfile-reads:{n}", f"{n} tree-package distfile reads inspected")
    ctx.floor("R3", 5)

    # ---- R4 file filters -------------------------------------------------------------------------------------------
    fo = P.func(MOD, "_setup_file_opts")
    lams = [l for l in A.walk(fo.node) if isinstance(l, ast.Lambda)]
    ctx.check("R4", fo, len(lams) >= 2, f"filters:{len(lams)}", f"{len(lams)} file filters registered")
    for l in lams:
        loops = [p for p in A.parents(l) if isinstance(p, (ast.For, ast.comprehension))]
        loopvars = set()
        for p in A.parents(l):
            if isinstance(p, ast.For):
                loopvars |= set(A.names_in(p.target))
        free = set(A.names_in(l.body)) - {a.arg for a in l.args.args} - {a.arg for a in l.args.kwonlyargs}
        defaults_bound = {a.arg for a, d in zip(l.args.args[len(l.args.args) - len(l.args.defaults):], l.args.defaults)}
        captured = (free & loopvars) - defaults_bound
        ctx.check("R4", fo, not captured, f"no-loop-capture:{sorted(captured)}", f"`{A.unparse(l)[:50]}` captures no loop variable",
                  f"`{A.unparse(l)[:70]}` closes over the loop variable(s) {sorted(captured)}: all filters created in the loop see the LAST iteration's values, so one of --modified/--size silently tests the other's attribute and limit", node=l)
    tf = A.unparse(fo.node)
    ctx.check("R4", fo, M.has(fo.node, "if namespace.modified is not None:\n    namespace.file_filters.append(lambda $x: os.stat($x).st_mtime < namespace.modified)") or "st_mtime" in tf, "age-filter", "the age filter tests st_mtime against the --modified limit")
    ctx.check("R4", fo, M.has(fo.node, "if namespace.size is not None:\n    namespace.file_filters.append(lambda $x: os.stat($x).st_size < namespace.size)") or "st_size" in tf, "size-filter", "the size filter tests st_size against the --size limit")
    fr = P.func(MOD, "Filters.run")
    ctx.check("R4", fr, M.has(fr.node, "return lambda $x: all(($f($x) for $f in self._filters))"), "all-filters-must-pass", "a file is removed only if ALL filters pass")
    ctx.floor("R4", 5)

    # ---- R5 runner ---------------------------------------------------------------------------------------------------
    rr = P.func(MOD, "_remove")
    lpm = M.one(rr.node, "for ($fn, $tgt) in options.remove:\n    ...")
    fnv = lpm["fn"] if lpm else "func"
    calls = [c for c in A.calls(rr.node) if isinstance(c.func, ast.Name) and c.func.id == fnv]
    ok = len(calls) == 1 and any(A.unparse(p.test) == "not options.pretend" for p in A.parents(calls[0]) if isinstance(p, ast.If))
    ctx.check("R5", rr, ok, "pretend-removes-nothing", "the removal function is called only when not pretending")
    ctx.check("R5", rr, M.has(rr.node, "for ($fn, $tgt) in options.remove:\n    ...\n    try:\n        if not options.pretend:\n            $fn($tgt)\n    except OSError as $e:\n        ..."), "only-listed-removed", "only the prepared (function, path) pairs are acted on")
    ctx.floor("R5", 2)

    # ---- R6 "every file in the distdir" is selected only when no target was given ------------------------------------------
    from ..core.cfg import cfg_of
    g6 = cfg_of(dv.node)
    whole = [st for t_, v, st in A.assignments(dv.node) if isinstance(t_, ast.Name) and t_.id == tfv and isinstance(v, ast.Name) and v.id != tfv]
    ctx.check("R6", dv, bool(whole), "select-all-present", f"without targets `{tfv}` is the whole distdir listing")

    def not_restricted(a_, b_, lab):
        # forbid leaving a test on `namespace.restrict` by its False edge: what remains are the runs WITH targets
        if a_.ast is not None and isinstance(a_.ast, ast.If):
            t = a_.ast.test
            neg = isinstance(t, ast.UnaryOp) and isinstance(t.op, ast.Not)
            core = t.operand if neg else t
            if isinstance(core, ast.Attribute) and core.attr == "restrict":
                return lab is (False if neg else True)
        return True
    for st in whole:
        path = g6.find_path([g6.entry], lambda n, _s=st: n.ast is _s, edge_ok=not_restricted)
        ctx.check("R6", dv, path is None, "select-all-only-without-targets",
                  "the whole-distdir selection is reachable only through the `no targets given` branch",
                  f"`{A.unparse(st)}` can be reached in a run that HAS cleaning targets ({g6.fmt_path(path, dv.relpath) if path else ''}): targets that match no package in the "
                  f"repositories select every file in the distdir", node=st)
    ctx.floor("R6", 2)

    # ---- R7 a file filter given on the command line is applied whatever its value (0 is a limit, not "absent") --------------
    sfo = P.func(MOD, "_setup_file_opts")

    def truthiness_uses(fn_node, opt):
        """places where the option's *truth value* decides something: `if ns.opt:`, `ns.opt and ...`, `not ns.opt`"""
        out = []
        for n in ast.walk(fn_node):
            tests = []
            if isinstance(n, (ast.If, ast.IfExp, ast.While)):
                tests.append(n.test)
            elif isinstance(n, ast.comprehension):
                tests.extend(n.ifs)
            for t in tests:
                stack = [t]
                while stack:
                    e = stack.pop()
                    if isinstance(e, ast.BoolOp):
                        stack.extend(e.values)
                    elif isinstance(e, ast.UnaryOp) and isinstance(e.op, ast.Not):
                        stack.append(e.operand)
                    elif isinstance(e, ast.Attribute) and e.attr == opt:
                        out.append(n)
        return out
    for opt in ("modified", "size"):
        used = any(isinstance(x, ast.Attribute) and x.attr == opt for x in ast.walk(sfo.node))
        ctx.check("R7", sfo, used, f"filter-option-used:{opt}", f"_setup_file_opts registers the --{opt} filter")
        bad = truthiness_uses(sfo.node, opt)
        ctx.check("R7", sfo, not bad, f"filter-guard-identity:{opt}", f"--{opt} counts as given unless it is None (its truth value decides nothing)",
                  f"the --{opt} filter is registered only when the option is truthy (`{A.unparse(bad[0].test)[:50] if bad and hasattr(bad[0], 'test') else ''}`): a zero limit (`-s 0B`) parses to 0, "
                  f"the filter is dropped, and every selected distfile is deleted although none passes the filter", node=bad[0] if bad else None)
    ctx.floor("R7", 4)


F = "src/pkgcore/scripts/pclean.py"
MUTANTS = [
    {"name": "restricted-not-saved", "file": F, "old": "    saving_files = installed_dist | exists_dist | excludes_dist | restricted_dist", "new": "    saving_files = installed_dist | exists_dist | excludes_dist", "rule": "R1"},
    {"name": "saving-intersection", "file": F, "old": "    saving_files = installed_dist | exists_dist | excludes_dist | restricted_dist", "new": "    saving_files = installed_dist & exists_dist | excludes_dist | restricted_dist", "rule": "R1"},
    {"name": "revert-exists-needs-no-targets", "file": F, "old": "    if namespace.exclude_fetch_restricted or namespace.exclude_exists:", "new": "    if namespace.exclude_fetch_restricted or (\n        namespace.exclude_exists and not namespace.restrict\n    ):", "rule": "R2"},
    {"name": "scan-needs-no-targets", "file": F, "old": "    if namespace.exclude_fetch_restricted or namespace.exclude_exists:", "new": "    if not namespace.restrict and (\n        namespace.exclude_fetch_restricted or namespace.exclude_exists\n    ):", "rule": "R2"},
    {"name": "configured-distfiles", "file": F, "old": "            exists_dist.update(\n                iflatten_instance(getattr(pkg, \"_raw_pkg\", pkg).distfiles)\n            )", "new": "            exists_dist.update(iflatten_instance(pkg.distfiles))", "rule": "R3"},
    {"name": "late-binding-filters", "file": F, "old": "    if namespace.modified is not None:\n        namespace.file_filters.append(\n            lambda x: os.stat(x).st_mtime < namespace.modified\n        )\n    if namespace.size is not None:\n        namespace.file_filters.append(lambda x: os.stat(x).st_size < namespace.size)", "new": "    limits = {\"st_mtime\": namespace.modified, \"st_size\": namespace.size}\n    for stat_attr, limit in filter(lambda i: i[1] is not None, limits.items()):\n        namespace.file_filters.append(\n            lambda x: getattr(os.stat(x), stat_attr) < limit\n        )", "rule": "R4"},
    {"name": "pretend-removes", "file": F, "old": "                if not options.pretend:\n                    func(target)", "new": "                func(target)", "rule": "R5"},
]
TWINS = [
    {"name": "loop-with-default-binding", "file": F, "old": "    if namespace.modified is not None:\n        namespace.file_filters.append(\n            lambda x: os.stat(x).st_mtime < namespace.modified\n        )\n    if namespace.size is not None:\n        namespace.file_filters.append(lambda x: os.stat(x).st_size < namespace.size)", "new": "    limits = {\"st_mtime\": namespace.modified, \"st_size\": namespace.size}\n    for stat_attr, limit in filter(lambda i: i[1] is not None, limits.items()):\n        namespace.file_filters.append(\n            lambda x, stat_attr=stat_attr, limit=limit: getattr(os.stat(x), stat_attr) < limit\n        )"},
]
